"""C09  Async mode renders exactly what sync mode renders.

Obligations (DESIGN section 5, C09)

  C09.emit.erase.visit_<X>   for EVERY code generator visitor: the emission schemas (real visitor, symbolic node / frame / environment) are
                             paired up over `environment.is_async`: for every async path A and sync path S that agree on all other flags
                             (their path conditions without is_async are jointly satisfiable),  norm(erase(text A)) == norm(text S).
                             erase removes `await`, auto_await(X) -> X, auto_aiter(X) -> X, `async ` (def/for/with/comprehensions), the `Async`
                             prefix of LoopContext, the `_async` suffix of module functions, aclose -> close.  norm (applied to BOTH sides)
                             rewrites the generator-delegation wrappers  `gen = X; try: for event in gen: yield event; finally: gen.close()`  and
                             `for event in X: yield event`  to  `yield from X`.  A construct that exists in only one mode fails.
                             Macro / CallBlock are run with a concrete one-parameter signature (bound on the list length, labelled).
  C09.emit.erase.source      bounded stand-in: the same erase/norm comparison on the REAL generated module source (Environment.compile(raw=True)
                             sync vs async) of a template family that covers every statement and expression visitor incl. Template/FromImport
  C09.variant.<filter>       every @async_variant pair of filters.py: the async implementation on a list computes what the sync one computes
                             and writes no argument (contracts imported from contracts.c22, where they are proved against the sync function /
                             the same executable specification); plus a native bounded stand-in per filter.  do_sum is expected to fail (F4).
  C09.dispatch.*             async_utils.async_variant.<locals>.wrapper selects by the environment of its first argument and strips the eval
                             context exactly when the sync function takes none; the is_async selectors; registry table; auto_await / auto_to_list
  C09.entry.*                Template.render / generate, NativeTemplate.render, BlockReference.__call__, Macro._invoke: in async mode they
                             delegate to the async twin with unchanged arguments (asyncio.run(render_async(...)), list of generate_async, ...), and
                             the async twin's body equals the sync body up to erase and four listed rewrites
  C09.loopcontext.*          sync / async LoopContext parity: the contracts of contracts.c07 on __next__/__anext__, _peek_next, last, nextitem, length,
                             revindex, revindex0 of LoopContext and AsyncLoopContext (both against the same abstract loop) and on auto_aiter
  C09.bounded.render         bounded stand-in for the end-to-end statement: a template family rendered sync vs async through render,
                             render_async, generate, generate_async, with values replaced by coroutine functions / async iterables

Assumption A7: `await` of an awaitable yields its result and is transparent otherwise; `async for` over auto_aiter(x) visits the items of x.
"""
from __future__ import annotations

import ast
import asyncio
import copy
import inspect
import json
import os
import re
import time
import traceback

import z3

from pyvc.contract import Task, VC, Res, FnTask
from pyvc.emitcheck import EmitTask
from pyvc import emit, abstract as A, extract
from pyvc.values import Obj as OBJ_SORT, Sym, Ref, HObj, HList, HDict, Exc, Event, State, Unsupported, CheckerError, Closure, sym, fresh, fresh_name
from pyvc.interp import Raised
from pyvc.smt import check_sat, to_term
from contracts.emit_common import visitors

import jinja2
import jinja2.nodes as N
import jinja2.compiler as C
import jinja2.filters as F
import jinja2.async_utils as AU
import jinja2.runtime as R
from jinja2.utils import _PassArg

PROP = "C09"
ROOT = os.path.dirname(os.path.dirname(os.path.abspath(__file__)))
IS_ASYNC = z3.Bool("environment.is_async")


# =====================================================================================================
# erase / norm
# =====================================================================================================

class Erase(ast.NodeTransformer):
    """remove everything that marks generated code as async"""

    def visit_Await(self, node):
        return self.visit(node.value)

    def visit_Call(self, node):
        node = self.generic_visit(node)
        if isinstance(node.func, ast.Name) and node.func.id in ("auto_await", "auto_aiter") and len(node.args) == 1 and not node.keywords:
            return node.args[0]
        return node

    def visit_AsyncFunctionDef(self, node):
        node = self.generic_visit(node)
        return ast.copy_location(ast.FunctionDef(name=node.name, args=node.args, body=node.body, decorator_list=node.decorator_list, returns=node.returns,
                                                 type_comment=None, type_params=getattr(node, "type_params", [])), node)

    def visit_AsyncFor(self, node):
        node = self.generic_visit(node)
        return ast.copy_location(ast.For(target=node.target, iter=node.iter, body=node.body, orelse=node.orelse, type_comment=None), node)

    def visit_AsyncWith(self, node):
        node = self.generic_visit(node)
        return ast.copy_location(ast.With(items=node.items, body=node.body, type_comment=None), node)

    def visit_comprehension(self, node):
        node = self.generic_visit(node)
        node.is_async = 0
        return node

    def visit_Name(self, node):
        if node.id == "AsyncLoopContext":
            return ast.copy_location(ast.Name(id="LoopContext", ctx=node.ctx), node)
        return node

    def visit_Attribute(self, node):
        node = self.generic_visit(node)
        if node.attr.endswith("_async"):
            node.attr = node.attr[: -len("_async")]
        elif node.attr == "aclose":
            node.attr = "close"
        return node


def _is_name(n, id_=None):
    return isinstance(n, ast.Name) and (id_ is None or n.id == id_)


def _yield_of(stmt, name):
    return isinstance(stmt, ast.Expr) and isinstance(stmt.value, ast.Yield) and _is_name(stmt.value.value, name)


def _delegates(stmt, g):
    """`for event in g: yield event`  or (already rewritten, children are normalised first)  `yield from g`"""
    if isinstance(stmt, ast.For):
        return _is_name(stmt.iter, g) and _is_name(stmt.target) and len(stmt.body) == 1 and _yield_of(stmt.body[0], stmt.target.id) and not stmt.orelse
    return isinstance(stmt, ast.Expr) and isinstance(stmt.value, ast.YieldFrom) and _is_name(stmt.value.value, g)


class Norm(ast.NodeTransformer):
    """generator delegation wrappers -> `yield from` (both modes)"""

    def _block(self, stmts):
        out = []
        i = 0
        while i < len(stmts):
            s = stmts[i]
            # gen = X ; try: for event in gen: yield event ; finally: gen.close()
            if (isinstance(s, ast.Assign) and len(s.targets) == 1 and _is_name(s.targets[0]) and i + 1 < len(stmts) and isinstance(stmts[i + 1], ast.Try)):
                g = s.targets[0].id
                t = stmts[i + 1]
                if (len(t.body) == 1 and _delegates(t.body[0], g) and not t.handlers and not t.orelse
                        and len(t.finalbody) == 1 and isinstance(t.finalbody[0], ast.Expr) and isinstance(t.finalbody[0].value, ast.Call)
                        and emit.call_name(t.finalbody[0].value) == f"{g}.close"):
                    out.append(ast.Expr(value=ast.YieldFrom(value=s.value)))
                    i += 2
                    continue
            # agen = X ; with aclosing(agen): for event in agen: yield event
            if (isinstance(s, ast.Assign) and len(s.targets) == 1 and _is_name(s.targets[0]) and i + 1 < len(stmts) and isinstance(stmts[i + 1], ast.With)):
                g = s.targets[0].id
                w = stmts[i + 1]
                if (len(w.items) == 1 and isinstance(w.items[0].context_expr, ast.Call) and emit.call_name(w.items[0].context_expr) == "aclosing"
                        and len(w.items[0].context_expr.args) == 1 and _is_name(w.items[0].context_expr.args[0], g) and len(w.body) == 1
                        and _delegates(w.body[0], g)):
                    out.append(ast.Expr(value=ast.YieldFrom(value=s.value)))
                    i += 2
                    continue
            # for event in X: yield event
            if isinstance(s, ast.For) and _is_name(s.target) and len(s.body) == 1 and _yield_of(s.body[0], s.target.id) and not s.orelse:
                out.append(ast.Expr(value=ast.YieldFrom(value=s.iter)))
                i += 1
                continue
            out.append(s)
            i += 1
        return out

    def generic_visit(self, node):
        node = super().generic_visit(node)
        for f in ("body", "orelse", "finalbody"):
            v = getattr(node, f, None)
            if isinstance(v, list) and v and isinstance(v[0], ast.stmt):
                setattr(node, f, self._block(v))
        return node


def normal_form(tree, erase=True):
    t = copy.deepcopy(tree)
    if erase:
        t = Erase().visit(t)
    t = Norm().visit(t)
    ast.fix_missing_locations(t)
    return ast.dump(t, annotate_fields=False)


def has_async_marker(tree):
    return normal_form(tree, True) != normal_form(tree, False)


# =====================================================================================================
# C09.emit.erase.visit_<X>
# =====================================================================================================

def canon_term(t):
    """rename path-local fresh constants (name!N) to their stem so that conditions of different paths are comparable"""
    subs = []
    seen = set()

    def walk(x):
        if x.get_id() in seen:
            return
        seen.add(x.get_id())
        if z3.is_const(x) and x.decl().kind() == z3.Z3_OP_UNINTERPRETED and "!" in x.decl().name():
            subs.append((x, z3.Const(x.decl().name().split("!")[0], x.sort())))
        for c in x.children():
            walk(c)

    walk(t)
    return z3.substitute(t, *subs) if subs else t


def without_async(pc, value):
    out = []
    for c in pc:
        c2 = z3.simplify(z3.substitute(canon_term(c), (IS_ASYNC, z3.BoolVal(value))))
        if z3.is_true(c2):
            continue
        out.append(c2)
    return out


def notes_conflict(a, b):
    for x in a:
        for y in b:
            if x.endswith(" is None") and y == x[:-len(" is None")] + " is present":
                return True
            if x.endswith(" is present") and y == x[:-len(" is present")] + " is None":
                return True
            if x.startswith("pass_arg=") and y.startswith("pass_arg=") and x != y:
                return True
            if {x, y} == {"filter/test unknown at compile time", "filter/test known"}:
                return True
            if {x, y} == {"optimizer: not foldable", "optimizer: folded to Const"}:
                return True
            if {x, y} == {"symbols.find_load -> None", "symbols.find_load -> (kind, param)"}:
                return True
    return False


class Side:
    def __init__(self, sc, idx, mode, wrap):
        self.sc, self.idx = sc, idx
        strs = {str(c) for c in sc.pc}
        # the engine forks on the symbolic flag itself, so its value is a literal of the path condition
        self.is_async = True if "environment.is_async" in strs else (False if "Not(environment.is_async)" in strs else sc.flag("environment.is_async"))
        self.forms = []
        self.error = None
        self.raised = None
        if sc.outcome == "raise":
            self.raised = repr(getattr(sc.value, "cls", None)) + repr(tuple(str(a)[:80] for a in getattr(sc.value, "args", ())))
        try:
            for txt, ph in sc.texts():
                t2 = wrap.format(txt) if wrap else txt
                # a raising path may stop in the middle of a statement: compare its text prefix literally
                if sc.outcome == "raise":
                    self.forms.append((None, txt, ph))
                    continue
                tree = emit.parse_expr(t2) if mode == "expr" else emit.parse_stmts(t2)
                self.forms.append((tree, txt, ph))
        except SyntaxError as ex:
            self.error = f"emitted text does not parse: {ex.msg}"

    def cond(self, value):
        k = "_c%d" % value
        if not hasattr(self, k):
            setattr(self, k, without_async(self.sc.pc, value))
        return getattr(self, k)

    def feasible(self):
        if not hasattr(self, "_feasible"):
            self._feasible = check_sat(list(self.sc.pc), 2000, 0, use_cvc5=False).status != "unsat"
        return self._feasible


def placeholders_agree(pa, pb):
    if set(pa) != set(pb):
        return f"different placeholders {sorted(set(pa) ^ set(pb))[:4]}"
    for k in pa:
        a, b = pa[k], pb[k]
        if isinstance(a, emit.Hole) != isinstance(b, emit.Hole):
            return f"placeholder {k} is a child in one mode only"
        if isinstance(a, emit.Hole):
            if a.path != b.path or a.kind != b.kind:
                return f"placeholder {k}: child {a.path} vs {b.path}"
        elif a[0] != b[0] or re.sub(r"!\d+", "", str(a[1])) != re.sub(r"!\d+", "", str(b[1])):
            return f"placeholder {k}: {str(a[1])[:60]} vs {str(b[1])[:60]}"
    return None


_ERASE_TXT = [(re.compile(r"\bawait "), ""), (re.compile(r"\basync "), ""), (re.compile(r"\bauto_await\("), "("), (re.compile(r"\bauto_aiter\("), "("),
              (re.compile(r"\bAsyncLoopContext\b"), "LoopContext"), (re.compile(r"_async\b"), ""), (re.compile(r"\baclose\b"), "close")]


def erase_text(s):
    for rx, rep in _ERASE_TXT:
        s = rx.sub(rep, s)
    return s


AWAITED_VISITORS = {"Getattr", "Getitem", "Call", "Filter", "Test"}


def async_form_problems(visitor, tree, ph, sc):
    """erase-equality cannot see a MISSING async marker; what async mode must contain (A7 makes these sufficient):
    user-controlled values that may be awaitable are awaited, iteration goes through auto_aiter / AsyncLoopContext, functions are
    `async def`, no `yield from`, and the module functions used are the `_async` ones"""
    fails = []
    for n in ast.walk(tree):
        if isinstance(n, ast.YieldFrom):
            fails.append("`yield from` in async mode (not allowed in an async generator)")
        if isinstance(n, ast.FunctionDef):
            fails.append(f"plain `def {n.name}` in async mode")
        if isinstance(n, ast.Attribute) and n.attr in ("make_module", "_get_default_module"):
            fails.append(f"sync module function .{n.attr} used in async mode")
        if isinstance(n, ast.Call) and isinstance(n.func, ast.Attribute) and n.func.attr == "close" and isinstance(n.func.value, ast.Name) and n.func.value.id in ("gen", "agen"):
            fails.append("generator closed with .close() in async mode (async generators have aclose())")
        if isinstance(n, ast.For) and any(isinstance(x, ast.Name) and isinstance(ph.get(x.id), emit.Hole) for x in ast.walk(n.iter)) and visitor == "For":
            fails.append("a plain `for` iterates over a template expression in async mode")
        if isinstance(n, ast.AsyncFor):
            it = n.iter
            # auto_aiter(x) / AsyncLoopContext(x, ...) / the generated loop-filter function t_N(auto_aiter(x)) (an async generator) / a generator variable
            filt = isinstance(it, ast.Call) and isinstance(it.func, ast.Name) and (it.func.id in ph or re.fullmatch(r"t_\d+", it.func.id)) and len(it.args) == 1 \
                and (not any(isinstance(x, ast.Name) and isinstance(ph.get(x.id), emit.Hole) for x in ast.walk(it.args[0]))
                     or (isinstance(it.args[0], ast.Call) and emit.call_name(it.args[0]) == "auto_aiter"))
            ok = (isinstance(it, ast.Call) and emit.call_name(it) in ("auto_aiter", "AsyncLoopContext")) or filt \
                or (isinstance(it, ast.Name) and it.id in ("gen", "agen", "reciter"))
            if not ok:
                fails.append(f"`async for` over {ast.unparse(it)[:60]}: not auto_aiter(...) / AsyncLoopContext(...) / a generated async generator")
            if isinstance(it, ast.Call) and emit.call_name(it) == "AsyncLoopContext" and False:
                pass
        if (visitor == "For" and isinstance(n, ast.Call) and isinstance(n.func, ast.Name) and n.func.id == "loop" and n.args
                and isinstance(n.args[0], ast.Call) and emit.call_name(n.args[0]) == "auto_aiter"):
            fails.append("the start of a recursive loop passes auto_aiter(<iterable>) to loop(): AsyncLoopContext gets an iterator instead of the iterable (sync passes the iterable), so a sized iterable loses its length for len(loop)")
        if isinstance(n, ast.Name) and n.id == "LoopContext":
            fails.append("LoopContext (sync) used in async mode")
    if visitor in AWAITED_VISITORS and isinstance(tree, ast.expr):
        is_slice = visitor == "Getitem" and isinstance(tree, ast.Subscript)
        if not is_slice and not (isinstance(tree, ast.Await) and isinstance(tree.value, ast.Call) and emit.call_name(tree.value) == "auto_await" and len(tree.value.args) == 1):
            fails.append(f"the value of visit_{visitor} is not `await auto_await(...)` in async mode: {ast.unparse(tree)[:80]}")
    return fails


class EraseTask(Task):
    kind = "emission"
    prop = PROP

    def __init__(self, visitor, mode, wrap, node_fields=None, configure=None, label=None, bound=None, buffers=(None, "t_buf"), offset=0):
        self.visitor, self.mode, self.wrap = visitor, mode, wrap
        self.node_fields, self.configure = node_fields, configure
        self.base = f"C09.emit.erase.visit_{visitor}"
        self.name = self.base + (f"[{label}]" if label else "")
        self.buffers, self.offset = buffers, offset
        if bound:
            self.bound_note = bound

    def schemas(self):
        out = []
        for buf in self.buffers:
            scs, I = emit.run_visitor(f"jinja2.compiler:CodeGenerator.visit_{self.visitor}", getattr(N, self.visitor), buffer=buf,
                                      node_fields=self.node_fields, configure=self.configure)
            for sc in scs:
                sc.buffer = buf
            out.append((buf, scs))
        return out

    def run(self, tier, seed):
        t0 = time.time()
        try:
            groups = self.schemas()
        except Unsupported as ex:
            return [Res(self.name + ".engine", "unknown", "pyvc-emit", time.time() - t0, f"unsupported: {ex}", self.kind)]
        res = []
        for buf, scs in groups:
            base = self.offset + (10000 if buf is not None else 0)
            sides = [Side(sc, i, self.mode, self.wrap) for i, sc in enumerate(scs)]
            asyncs = [s for s in sides if s.is_async is not False]
            syncs = [s for s in sides if s.is_async is not True]
            for s in sides:
                s.key_a = (frozenset(str(c) for c in s.cond(True)), tuple(s.sc.notes), s.raised)
                s.key_s = (frozenset(str(c) for c in s.cond(False)), tuple(s.sc.notes), s.raised)
                if s.error:
                    continue
                s.nf = [(normal_form(tree, True) if tree is not None else re.sub(r"[()]", "", erase_text(txt))) for tree, txt, ph in s.forms]
            by_key = {}
            for s in syncs:
                by_key.setdefault(s.key_s, []).append(s)
            matched_sync = set()
            for a in asyncs:
                if a.is_async is True and not a.error and a.sc.outcome != "raise":
                    probs = []
                    for tree, txt, ph in a.forms:
                        probs += async_form_problems(self.visitor, tree, ph, a.sc)
                    nm2 = f"C09.emit.async_form.visit_{self.visitor}#p{base + a.idx}"
                    if probs and a.feasible():
                        res.append(Res(nm2, "refuted", "pyvc-emit", 0, f"{probs[0]}: `{a.forms[0][1][:200]}`", self.kind,
                                       witness={"visitor": self.visitor, "buffer": buf, "reason": "async_form", "only": probs[0][:60], "async": a.forms[0][1][:300]}))
                    elif not probs:
                        res.append(Res(nm2, "discharged", "pyvc-emit", 0, "", self.kind))
            for a in asyncs:
                t1 = time.time()
                name = f"{self.base}#p{base + a.idx}"
                if a.error:
                    res.append(Res(name, "refuted", "pyvc-emit", 0, f"{a.error}: `{a.sc.describe()[:200]}`", self.kind,
                                   witness={"visitor": self.visitor, "buffer": buf, "reason": "parse", "schema": a.sc.describe()[:300]}))
                    continue
                ca = a.cond(True)
                partners = 0
                fail = None
                # the sync paths that took exactly the same decisions (apart from is_async); only when there is none, every sync path
                # whose condition is jointly satisfiable with this one
                exact = by_key.get(a.key_a, [])
                for s in (exact or syncs):
                    if s.error or notes_conflict(a.sc.notes, s.sc.notes):
                        continue
                    if not exact and a.raised != s.raised:
                        continue  # a raising path is matched with raising paths only (a missing counterpart is reported below)
                    if exact:
                        matched_sync.add(s.idx)
                    same = (a.raised == s.raised) and len(a.nf) == len(s.nf) and all(x == y for x, y in zip(a.nf, s.nf))
                    why = None
                    if same:
                        for (ta, xa, pa), (ts, xs, ps) in zip(a.forms, s.forms):
                            why = placeholders_agree(pa, ps)
                            if why:
                                break
                        same = why is None
                    if same:
                        # confirm the pair is about the same configurations
                        if s.idx not in matched_sync and check_sat(ca + s.cond(False), 2000, 0, use_cvc5=False).status != "unsat":
                            matched_sync.add(s.idx)
                            partners += 1
                        elif s.idx in matched_sync:
                            partners += 1
                        continue
                    if check_sat(ca + s.cond(False), 2000, 0, use_cvc5=False).status == "unsat":
                        continue
                    partners += 1
                    matched_sync.add(s.idx)
                    if fail is None:
                        if a.raised != s.raised:
                            why = f"async path {'raises ' + a.raised if a.raised else 'returns'}, sync path {'raises ' + s.raised if s.raised else 'returns'}"
                        fail = (s, why or "erase(async text) differs from the sync text")
                if (fail or partners == 0) and not a.feasible():
                    continue  # contradictory path condition: an artefact of lazy forking
                if fail:
                    s, why = fail
                    res.append(Res(name, "refuted", "pyvc-emit", time.time() - t1,
                                   f"{why}: async `{a.forms[0][1][:260] if a.forms else a.sc.describe()[:260]}` vs sync `{s.forms[0][1][:260] if s.forms else s.sc.describe()[:260]}` "
                                   f"under {[str(c)[:50] for c in ca][:6]} (buffer={buf})", self.kind,
                                   witness={"visitor": self.visitor, "buffer": buf, "reason": "differs", "async": (a.forms[0][1] if a.forms else "")[:400],
                                            "sync": (s.forms[0][1] if s.forms else "")[:400], "flags": [str(c) for c in ca][:10],
                                            "only": self.classify(a, s)}))
                elif partners == 0:
                    res.append(Res(name, "refuted", "pyvc-emit", time.time() - t1,
                                   f"async path has no sync counterpart: `{a.sc.describe()[:200]}` under {[str(c)[:50] for c in ca][:6]}", self.kind,
                                   witness={"visitor": self.visitor, "buffer": buf, "reason": "async-only", "async": a.sc.describe()[:400], "only": "async-only-path"}))
                else:
                    res.append(Res(name, "discharged", "pyvc-emit", time.time() - t1, f"{partners} sync path(s) agree after erase", self.kind))
            for s in syncs:
                if s.idx not in matched_sync and s.is_async is False and not s.error:
                    if not s.feasible():
                        continue
                    res.append(Res(f"{self.base}#p{base + s.idx}", "refuted", "pyvc-emit", 0,
                                   f"sync path has no async counterpart: `{s.sc.describe()[:200]}`", self.kind,
                                   witness={"visitor": self.visitor, "buffer": buf, "reason": "sync-only", "sync": s.sc.describe()[:400], "only": "sync-only-path"}))
        if not res:
            res.append(Res(self.name + ".paths", "error", "pyvc-emit", 0, "no paths", self.kind))
        return res

    def classify(self, a, s):
        """short stable description of the difference: the first differing statement heads"""
        try:
            ta = ast.unparse(Norm().visit(Erase().visit(copy.deepcopy(a.forms[0][0])))).splitlines()
            ts = ast.unparse(Norm().visit(copy.deepcopy(s.forms[0][0]))).splitlines()
            for x, y in zip(ta, ts):
                if x != y:
                    return re.sub(r"__[A-Z]\d+__", "_", f"{x.strip()[:60]} | {y.strip()[:60]}")
            return f"length {len(ta)} vs {len(ts)}"
        except Exception:
            return "unparsed"

    def finding_key(self, res):
        w = res.witness or {}
        return f"{w.get('visitor')}:{'buffer' if w.get('buffer') else 'yield'}:{w.get('only')}"

    def replay(self, w):
        if w.get("reason") == "async_form":
            # a missing async marker is invisible to erase(): render the templates that exercise the visitor in both modes
            return native_render_for_visitor(w.get("visitor"))
        v, d = native_source_erase(w.get("visitor"))
        if not v:
            v2, d2 = native_render_for_visitor(w.get("visitor"))
            if v2:
                return v2, d2
        return v, d


def configure_erase(I):
    # children fold or not at the generator's discretion in both modes alike: keep them abstract
    I.specs["_AbsMap.discard"] = lambda I_, st, args, kwargs, node: [(st, None)]
    from contracts.c08 import install_const_specs
    install_const_specs(I)


def name_node(st, path, nm, ctx="param"):
    return emit.make_node(st, N.Name, path, kind="expr", fields={"name": nm, "ctx": ctx})


def macro_fields(st):
    return {"name": "m", "args": st.alloc(HList(items=[name_node(st, "node.args[0]", "a")]), initial=True),
            "defaults": st.alloc(HList(items=[emit.make_node(st, N.Expr, "node.defaults[0]", kind="expr")]), initial=True)}


def callblock_fields(st):
    return {"args": st.alloc(HList(items=[name_node(st, "node.args[0]", "a")]), initial=True), "defaults": st.alloc(HList(items=[]), initial=True)}


def erase_tasks():
    ts = []
    for nm, mode, wrap in visitors():
        if nm == "For":
            # split by configuration (parallelism): recursive x buffered
            k = 0
            for rec in (False, True):
                for has_test in (False, True):
                    for buf in (None, "t_buf"):
                        nf = (lambda rec_, t_: (lambda st: {"recursive": rec_, "test": emit.make_node(st, N.Expr, "node.test", kind="expr") if t_ else None}))(rec, has_test)
                        ts.append(EraseTask(nm, mode, wrap, configure=configure_erase, node_fields=nf, buffers=(buf,),
                                            label=f"recursive={rec},test={has_test},buffer={buf}", offset=k * 20000))
                        # CPU budget of the quick tier: visit_For with a loop filter and/or a buffered frame (6 of the 8 configurations,
                        # ~200 CPU s) run in the thorough tier only; the quick tier keeps the plain and the recursive loop with
                        # frame.buffer None, and covers loop filters / buffered loops through C09.emit.erase.source and C09.bounded.render
                        ts[-1].thorough_only = bool(has_test or buf)
                        k += 1
            continue
        ts.append(EraseTask(nm, "expr" if wrap else mode, wrap, configure=configure_erase))
    ts.append(EraseTask("Macro", "stmts", None, node_fields=macro_fields, configure=configure_erase, bound="one parameter with a default"))
    ts.append(EraseTask("CallBlock", "stmts", None, node_fields=callblock_fields, configure=configure_erase, bound="one parameter"))
    return ts


def native_source_erase(visitor=None):
    return (None, "native family not loaded")


# =====================================================================================================
# native template family: C09.emit.erase.source (generated source, erase/norm) and C09.bounded.render (outputs)
# =====================================================================================================

TEMPLATES = {
    "lib": "{% macro m(a, b=2) %}[{{ a }}|{{ b }}|{{ caller() if caller else '' }}]{% endmacro %}{% set v = 7 %}",
    "inc": "INC{{ x }}{{ 1 }}",
    "base": "<{% block head %}H{{ x }}{% endblock %}|{% block body scoped %}B{% endblock %}|{% block foot required %}{% endblock %}>",
    "output": "a{{ x }}b{{ x + 1 }}{{ 'c' }}{{ s }}",
    "ops": "{{ x + 1 }}{{ x - 1 }}{{ x * 2 }}{{ x / 2 }}{{ x // 2 }}{{ x % 2 }}{{ x ** 2 }}{{ -x }}{{ +x }}{{ not x }}{{ x and s }}{{ x or s }}{{ s ~ x ~ 'k' }}",
    "compare": "{{ x == 1 }}{{ x != 1 }}{{ 1 < x <= 3 }}{{ x in xs }}{{ x not in xs }}{{ x > 0 >= 0 }}",
    "lookup": "{{ d.a }}{{ d['a'] }}{{ xs[0] }}{{ xs[1:2] }}{{ xs[::2] }}{{ d.missing }}{{ o.attr }}{{ o.meth() }}",
    "calls": "{{ f(1) }}{{ f(x, k=2) }}{{ f(*xs) }}{{ f(**d) }}{{ f(1, *xs, k=1, **d) }}{{ o.meth(x) }}",
    "filters": "{{ xs|join(',') }}{{ s|upper }}{{ xs|first }}{{ xs|sum }}{{ xs|list }}{{ xs|map('string')|join }}{{ xs|select('odd')|list }}{{ xs|reject('odd')|list }}"
               "{{ ds|selectattr('a')|list|length }}{{ ds|rejectattr('a')|list|length }}{{ xs|unique|list }}{{ xs|slice(2)|list }}{{ ds|groupby('a')|list|length }}"
               "{{ xs|batch(2)|list }}{{ s|default('d') }}{{ xs|length }}{{ xs|sort }}{{ xs|reverse|list }}{{ xs|min }}{{ xs|max }}{{ xs|last }}{{ ds|map(attribute='a')|list }}",
    "tests": "{{ x is odd }}{{ x is defined }}{{ y is undefined }}{{ x is divisibleby 3 }}{{ s is string }}{{ xs is iterable }}{{ x is in xs }}",
    "condexpr": "{{ 'a' if x else 'b' }}{{ 'a' if y }}{{ (x if x else s)|string }}",
    "literals": "{{ [x, 1] }}{{ (x, 2) }}{{ {'k': x} }}{{ (x,) }}{{ [] }}{{ 1.5 }}{{ none }}{{ true }}",
    "if": "{% if x %}A{% elif s %}B{% else %}C{% endif %}{% if y %}Y{% endif %}",
    "for": "{% for i in xs %}{{ i }},{% endfor %}",
    "for_else": "{% for i in nil %}{{ i }}{% else %}EMPTY{% endfor %}{% for i in xs %}{{ i }}{% else %}E{% endfor %}",
    "for_loopvar": "{% for i in xs %}{{ loop.index }}/{{ loop.length }}{{ loop.first }}{{ loop.last }}{{ loop.cycle('a', 'b') }}{{ loop.previtem }}{{ loop.nextitem }};{% endfor %}",
    "for_filter": "{% for i in xs if i is odd %}{{ i }}{% endfor %}{% for i in xs if i > 1 %}{{ loop.index }}{% else %}none{% endfor %}",
    "for_recursive": "{% for n in tree recursive %}{{ n.v }}{% if n.c %}({{ loop(n.c) }}){% endif %}{% endfor %}",
    "for_unpack": "{% for k, v in d.items() %}{{ k }}={{ v }};{% endfor %}{% for a, (b, c) in pairs %}{{ a }}{{ b }}{{ c }}{% endfor %}",
    "for_nested": "{% for i in xs %}{% for j in xs %}{{ i }}{{ j }}{{ loop.index }}{% endfor %}{{ loop.index }}{% endfor %}",
    "for_controls": "{% for i in xs %}{% if i == 2 %}{% continue %}{% endif %}{% if i == 3 %}{% break %}{% endif %}{{ i }}{% endfor %}",
    "for_scoped_block": "{% for i in xs %}{% block item scoped %}{{ i }}{% endblock %}{% endfor %}",
    "assign": "{% set a = x %}{% set b, c = (1, 2) %}{{ a }}{{ b }}{{ c }}{% set ns = namespace(n=0) %}{% for i in xs %}{% set ns.n = ns.n + i %}{% endfor %}{{ ns.n }}",
    "assign_block": "{% set blk %}[{{ x }}]{% endset %}{{ blk }}{% set up | upper %}a{{ s }}{% endset %}{{ up }}",
    "with": "{% with a = x, b = s %}{{ a }}{{ b }}{% endwith %}{{ a is defined }}",
    "filter_block": "{% filter upper %}a{{ s }}{% endfilter %}{% filter replace('a', 'b')|upper %}aa{{ x }}{% endfilter %}",
    "macro": "{% macro m(a, b=2) %}[{{ a }}|{{ b }}]{% endmacro %}{{ m(1) }}{{ m(x, b=s) }}{{ m.name }}",
    "macro_varargs": "{% macro m(a) %}{{ a }}{{ varargs }}{{ kwargs|dictsort }}{% endmacro %}{{ m(1, 2, 3, k=4) }}",
    "macro_default_ref": "{% macro m(a, b=a) %}{{ a }}{{ b }}{% endmacro %}{{ m(1) }}{{ m(1, 2) }}",
    "call_block": "{% macro m(a) %}<{{ caller(a) }}>{% endmacro %}{% call(v) m(x) %}[{{ v }}]{% endcall %}{% call m(2) %}plain{% endcall %}",
    "macro_loop": "{% macro m(a) %}{{ a }}{% endmacro %}{% for i in xs %}{{ m(i) }}{% endfor %}",
    "block": "{% block a %}A{{ x }}{% endblock %}{% block b scoped %}{{ x }}{% endblock %}",
    "extends": "{% extends 'base' %}{% block head %}[{{ super() }}]{% endblock %}{% block foot %}F{{ x }}{% endblock %}",
    "extends_dynamic": "{% extends parent %}{% block foot %}F{% endblock %}",
    "block_in_buffer": "{% set blk %}{% block inner %}I{{ x }}{% endblock %}{% endset %}{{ blk }}",
    "self_block": "{% block t %}T{{ x }}{% endblock %}{{ self.t() }}",
    "include": "{% include 'inc' %}|{% include 'inc' without context %}|{% include 'nope' ignore missing %}|{% include ['nope', 'inc'] %}|{% include name %}",
    "include_in_macro": "{% macro m() %}[{% include 'inc' %}]{% endmacro %}{{ m() }}",
    "include_nocontext_in_buffer": "{% set b %}[{% include 'inc' without context %}]{% endset %}{{ b }}",
    "include_nocontext_in_macro": "{% macro m() %}[{% include 'inc' without context %}]{% endmacro %}{{ m() }}",
    "include_nocontext_in_filter": "{% filter upper %}[{% include 'inc' without context %}]{% endfilter %}",
    "import": "{% import 'lib' as lib %}{{ lib.m(1) }}{{ lib.v }}{% import 'lib' as l2 with context %}{{ l2.m(x) }}",
    "from_import": "{% from 'lib' import m, v as vv %}{{ m(1) }}{{ vv }}{% from 'lib' import m as mm with context %}{{ mm(2) }}{% from 'lib' import nothing %}{{ nothing }}",
    "import_in_macro": "{% macro outer() %}{% import 'lib' as lib %}{{ lib.m(3) }}{% endmacro %}{{ outer() }}",
    "autoescape": "{% autoescape true %}{{ s }}{{ '<' }}{% endautoescape %}{% autoescape flag %}{{ s }}{{ h|safe }}{{ s ~ h }}{% endautoescape %}",
    "do": "{% do xs2.append(1) %}{{ xs2 }}",
    "raw": "{% raw %}{{ x }}{% endraw %}",
    "undefined_error": "{{ y.z }}",
    "type_error": "{{ x + s }}",
    "callable_data": "{{ f(2) }}{{ g() }}{% for i in gen() %}{{ i }}{% endfor %}{{ g()|string|upper }}",
    "awaitable_attr": "{{ o.meth() }}{{ o.attr }}{% if f(0) %}T{% else %}F{% endif %}{{ f(1) if f(0) else f(2) }}",
    "sum_start": "{{ rows|sum(start=acc) }}{{ acc }}",
    # loops over UNSIZED iterables whose body looks ahead (loop.last / loop.nextitem) BEFORE asking for the length: the length has to be
    # computed by exhausting the iterator and must count the item already peeked
    "loop_unsized_last_then_length": "{% for i in ugen %}{{ i }}:{{ loop.last }}:{{ loop.length }}/{{ loop.revindex }}/{{ loop.revindex0 }};{% endfor %}",
    "loop_unsized_nextitem_then_length": "{% for i in uiter %}{{ i }}:{{ loop.nextitem }}:{{ loop.revindex }}/{{ loop.revindex0 }}/{{ loop.length }};{% endfor %}",
    "loop_unsized_length_first": "{% for i in ugen %}{{ loop.length }}:{{ loop.last }}:{{ loop.nextitem }}:{{ loop.revindex }};{% endfor %}",
    "loop_filtered_last_then_length": "{% for i in xs if i != 2 %}{{ i }}:{{ loop.last }}:{{ loop.length }}/{{ loop.revindex }}/{{ loop.revindex0 }};{% endfor %}",
    "loop_filtered_unsized_nextitem": "{% for i in ugen if i %}{{ loop.nextitem }}:{{ loop.revindex0 }}:{{ loop.length }};{% else %}none{% endfor %}",
    "loop_recursive_len_filter": "{% for x in xs recursive %}{{ loop|length }}{% endfor %}",
    "loop_repr": "{% for x in 'ab' %}{{ loop }}{% endfor %}",
    "loop_unsized_len_filter": "{% for i in ugen %}{{ loop|length }}{% endfor %}",
    "loop_unsized_recursive": "{% for n in (t for t in tree) recursive %}{{ loop.last }}{{ loop.length }}{{ n.v }}{% if n.c %}({{ loop(n.c) }}){% endif %}{% endfor %}" if False else
                              "{% for n in utree recursive %}{{ loop.last }}{{ loop.length }}/{{ loop.revindex }}:{{ n.v }}{% if n.c %}({{ loop(n.c) }}){% endif %}{% endfor %}",
}
# templates whose data is also replaced by coroutine functions / async generators in async mode
ASYNC_DATA_TEMPLATES = ("callable_data", "awaitable_attr", "calls", "loop_unsized_last_then_length", "loop_unsized_nextitem_then_length", "loop_unsized_length_first",
                        "loop_filtered_unsized_nextitem", "loop_unsized_recursive")
EXTENSIONS = ["jinja2.ext.loopcontrols", "jinja2.ext.do"]


def make_env(cls=None, is_async=False, **kw):
    from jinja2 import Environment, DictLoader
    return (cls or Environment)(loader=DictLoader(TEMPLATES), enable_async=is_async, extensions=EXTENSIONS, **kw)


def exercised(name):
    """visitor names a template exercises"""
    env = make_env()
    return {type(n).__name__ for n in env.parse(TEMPLATES[name]).find_all(N.Node)} | {"Template"}


class EraseModule(Erase):
    def visit_ImportFrom(self, node):
        if node.module == "jinja2.runtime":
            node.names = [a for a in node.names if a.name not in R.async_exported]
        return node


def drop_debug_info(tree):
    """`debug_info = '1=12&...'` maps template lines to lines of the generated module, which legitimately differ between the modes"""
    tree.body = [st for st in tree.body if not (isinstance(st, ast.Assign) and len(st.targets) == 1 and _is_name(st.targets[0], "debug_info"))]
    return tree


def source_pair(name, env_kw=None):
    """normal forms of the real generated module source, sync and async (erase applied to the async one)"""
    out = []
    for is_async in (False, True):
        env = make_env(is_async=is_async, **(env_kw or {}))
        src = env.compile(TEMPLATES[name], name=name, filename=name + ".html", raw=True)
        tree = ast.parse(src)
        t = drop_debug_info(copy.deepcopy(tree))
        if is_async:
            t = EraseModule().visit(t)
        t = Norm().visit(t)
        ast.fix_missing_locations(t)
        out.append((ast.unparse(t), src))
    return out


def first_diff(a, b):
    la, lb = a.splitlines(), b.splitlines()
    for i, (x, y) in enumerate(zip(la, lb)):
        if x != y:
            return f"line {i + 1}: sync `{x.strip()[:90]}` vs erased async `{y.strip()[:90]}`"
    return f"{len(la)} vs {len(lb)} lines"


def native_source_erase(visitor=None):
    """native oracle of C09.emit.erase: the REAL generated source of every family template that exercises `visitor`"""
    bad = []
    n = 0
    for name in TEMPLATES:
        if visitor and visitor not in exercised(name):
            continue
        for env_kw in ({}, {"autoescape": True}):
            n += 1
            try:
                (s_sync, _), (s_async, _) = source_pair(name, env_kw)
            except Exception as ex:  # noqa
                bad.append((name, f"compile failed: {type(ex).__name__}: {ex}"))
                continue
            if s_sync != s_async:
                bad.append((name, first_diff(s_sync, s_async)))
    if bad:
        return True, f"template {bad[0][0]!r}: {bad[0][1]}"
    return False, f"{n} generated modules agree after erase"


class SourceErase(FnTask):
    def __init__(self):
        FnTask.__init__(self, PROP, "C09.emit.erase.source", None, "bounded", None)
        self.bound_text = (f"the generated module source (Environment.compile(raw=True)) of the {len(TEMPLATES)} family templates (every statement and expression visitor, "
                           "including Template, Macro, CallBlock, FromImport, extensions loopcontrols/do), autoescape off and on: norm(erase(async source)) == norm(sync source)")

    def run(self, tier, seed):
        t0 = time.time()
        rs = []
        for name in TEMPLATES:
            for env_kw in ({}, {"autoescape": True}):
                try:
                    (s_sync, _), (s_async, _) = source_pair(name, env_kw)
                    ok, d = s_sync == s_async, ""
                    if not ok:
                        d = f"template {name!r} ({TEMPLATES[name][:80]}): {first_diff(s_sync, s_async)}"
                except Exception as ex:  # noqa
                    ok, d = False, f"template {name!r}: compile failed: {type(ex).__name__}: {ex}"
                rs.append(Res("C09.emit.erase.source", "bounded-ok" if ok else "refuted", "native", 0, d, "bounded", None if ok else {"template": name, "autoescape": bool(env_kw)}))
        self.stats = {"modules": len(rs), "seconds": round(time.time() - t0, 2)}
        return rs

    def finding_key(self, res):
        return (res.witness or {}).get("template")

    def replay(self, w):
        (s_sync, _), (s_async, _) = source_pair(w["template"], {"autoescape": True} if w.get("autoescape") else {})
        return (s_sync != s_async, first_diff(s_sync, s_async) if s_sync != s_async else "sources agree after erase")


# ---- rendering

class Obj:
    def __init__(self):
        self.attr = "A"

    def meth(self, *a):
        return "M" + "".join(map(str, a))


class AObj:
    """same results, but the method is a coroutine function"""

    def __init__(self):
        self.attr = "A"

    async def meth(self, *a):
        return "M" + "".join(map(str, a))


def base_data():
    return {
        "x": 1, "s": "<s>", "h": "<h>", "xs": [1, 2, 3], "nil": [], "d": {"a": 1, "b": 2}, "ds": [{"a": 1}, {"a": 0}, {"a": 1}],
        "tree": [{"v": 1, "c": [{"v": 2, "c": []}, {"v": 3, "c": [{"v": 4, "c": []}]}]}, {"v": 5, "c": []}],
        "pairs": [(1, (2, 3)), (4, (5, 6))], "parent": "base", "name": "inc", "flag": True, "xs2": [], "o": Obj(),
        "f": lambda *a, **k: "f" + "".join(map(str, a)) + "".join(f"{kk}{vv}" for kk, vv in sorted(k.items())) if a != (0,) else "",
        "g": lambda: "g", "gen": lambda: iter([7, 8]), "rows": [[1], [2]], "acc": [0],
        "ugen": (i for i in (1, 2, 3)), "uiter": iter([4, 5, 6]), "utree": iter([{"v": 1, "c": iter([{"v": 2, "c": []}])}, {"v": 5, "c": []}]),
    }


def async_data():
    """the same data with callables as coroutine functions and iterables as async generators"""
    d = base_data()
    f, g = d["f"], d["g"]

    async def af(*a, **k):
        return f(*a, **k)

    async def ag():
        return g()

    async def agen():
        for i in (7, 8):
            yield i

    async def axs():
        for i in (1, 2, 3):
            yield i

    async def a123():
        for i in (1, 2, 3):
            yield i

    async def a456():
        for i in (4, 5, 6):
            yield i

    async def asub():
        yield {"v": 2, "c": []}

    async def atree():
        yield {"v": 1, "c": asub()}
        yield {"v": 5, "c": []}

    d.update(f=af, g=ag, gen=agen, o=AObj(), ugen=a123(), uiter=a456(), utree=atree())
    return d, {"xs_async": axs}


def outcome(fn):
    import warnings
    try:
        with warnings.catch_warnings():
            warnings.simplefilter("ignore")
            return ("ok", fn())
    except Exception as ex:  # noqa
        return ("err", type(ex).__name__)


def render_all_ways(name, env_cls=None, env_kw=None, data=None, sync_too=True):
    """-> dict way -> outcome; 'sync' is the reference"""
    data = data or base_data
    res = {}
    env_s = make_env(env_cls, False, **(env_kw or {}))
    env_a = make_env(env_cls, True, **(env_kw or {}))
    native = env_cls is not None and env_cls.__name__ == "NativeEnvironment"
    join = (lambda parts: env_s.concat(parts)) if native else (lambda parts: "".join(parts))
    if sync_too:
        res["sync.render"] = outcome(lambda: env_s.get_template(name).render(**data()))
        res["sync.generate"] = outcome(lambda: join(list(env_s.get_template(name).generate(**data()))))
    res["async.render"] = outcome(lambda: env_a.get_template(name).render(**data()))
    res["async.render_async"] = outcome(lambda: asyncio.run(env_a.get_template(name).render_async(**data())))
    res["async.generate"] = outcome(lambda: join(list(env_a.get_template(name).generate(**data()))))

    async def collect():
        return [x async for x in env_a.get_template(name).generate_async(**data())]

    res["async.generate_async"] = outcome(lambda: join(asyncio.run(collect())))
    return res


def norm_out(o):
    if o[0] == "ok":
        return ("ok", re.sub(r" at 0x[0-9a-f]+", "", str(o[1])), type(o[1]).__name__)
    return o


def render_disagreements(names=None, env_classes=None):
    from jinja2.sandbox import SandboxedEnvironment, ImmutableSandboxedEnvironment
    from jinja2.nativetypes import NativeEnvironment
    from jinja2 import Environment
    classes = env_classes or [Environment, SandboxedEnvironment, ImmutableSandboxedEnvironment, NativeEnvironment]
    bad, n = [], 0
    skip = {"lib", "inc", "base"}
    for name in names or TEMPLATES:
        if name in skip:
            continue
        for cls in classes:
            for env_kw in ({}, {"autoescape": True}):
                ways = render_all_ways(name, cls, env_kw)
                n += len(ways)
                ref = norm_out(ways["sync.render"])
                async_outs = {norm_out(o) for way, o in ways.items() if way.startswith("async.")}
                if len(async_outs) == 1 and norm_out(ways["sync.generate"]) == ref and async_outs != {ref}:
                    # the modes differ as a whole
                    bad.append((f"{name}:async-mode", f"template {name!r} ({TEMPLATES[name][:70]}) ({cls.__name__}, {env_kw}): sync render/generate -> {ref}, "
                                                      f"async render/render_async/generate/generate_async -> {next(iter(async_outs))}"))
                else:
                    for way, o in ways.items():
                        if norm_out(o) != ref:
                            bad.append((f"{name}:{way}", f"template {name!r} ({cls.__name__}, {env_kw}): sync render -> {ref}, {way} -> {norm_out(o)}"))
                # values replaced by coroutine functions / async iterables producing the same results (async environment only)
                if name in ASYNC_DATA_TEMPLATES:
                    d_async = lambda: async_data()[0]
                    ways2 = render_all_ways(name, cls, env_kw, d_async, sync_too=False)
                    n += 4
                    for way in ("async.render", "async.render_async", "async.generate", "async.generate_async"):
                        if norm_out(ways2[way]) != ref:
                            bad.append((f"{name}:{way}:coroutine-data", f"template {name!r} ({cls.__name__}): sync render with plain data -> {ref}, {way} with coroutine functions / async generators -> {norm_out(ways2[way])}"))
                # arguments must not be modified in one mode only
                if name == "sum_start":
                    for is_async in (False, True):
                        d = base_data()
                        outcome(lambda: make_env(cls, is_async, **env_kw).get_template(name).render(**d))
                        if d["acc"] != [0]:
                            bad.append((f"{name}:{'async' if is_async else 'sync'}:argument-modified", f"template {name!r} ({cls.__name__}, async={is_async}): the `start` argument list was modified in place: {d['acc']}"))
    return n, bad


_KNOWN9 = None


def known_keys9():
    global _KNOWN9
    if _KNOWN9 is None:
        _KNOWN9 = set()
        try:
            for f in json.load(open(os.path.join(ROOT, "known_findings.d", "c09.json"))).get("findings", []):
                _KNOWN9.add(f.get("key"))
        except OSError:
            pass
    return _KNOWN9


def native_render_for_visitor(visitor):
    from jinja2 import Environment
    names = [n for n in TEMPLATES if n not in ("lib", "inc", "base") and (visitor is None or visitor in exercised(n))]
    n, bad = render_disagreements(names, [Environment])
    bad = [b for b in bad if b[0] not in known_keys9()]
    if bad:
        return True, bad[0][1]
    return False, f"{n} renderings of the templates that exercise visit_{visitor} agree in sync and async mode"


class RenderParity(FnTask):
    def __init__(self):
        FnTask.__init__(self, PROP, "C09.bounded.render", None, "bounded", None)
        self.bound_text = (f"{len(TEMPLATES) - 3} family templates x (Environment, SandboxedEnvironment, ImmutableSandboxedEnvironment, NativeEnvironment) x autoescape off/on, rendered "
                           "with sync render/generate and async render/render_async/generate/generate_async; callables replaced by coroutine functions and iterables by async generators "
                           "for the templates that call data")

    def run(self, tier, seed):
        t0 = time.time()
        n, bad = render_disagreements()
        self.stats = {"renderings": n, "seconds": round(time.time() - t0, 2)}
        groups = {}
        for k, d in bad:
            groups.setdefault(k, d)
        if not groups:
            return [Res("C09.bounded.render", "bounded-ok", "native", time.time() - t0, f"{n} renderings agree", "bounded")]
        return [Res("C09.bounded.render", "refuted", "native", time.time() - t0, d[:500], "bounded", {"key": k}) for k, d in sorted(groups.items())]

    def finding_key(self, res):
        return (res.witness or {}).get("key")

    def replay(self, w):
        key = w.get("key", "")
        n, bad = render_disagreements([key.split(":")[0]])
        hit = [b for b in bad if b[0] == key]
        return (bool(hit), hit[0][1] if hit else f"{n} renderings agree")


# =====================================================================================================
# C09.variant.<filter>   (contracts imported from contracts.c22) + native bounded stand-in
# =====================================================================================================

class Variant(Task):
    """a contract of contracts.c22 on one side of an @async_variant pair, reported under C09.variant.<filter>.
    The pair agrees because both sides satisfy the SAME contract (c22 proves each against the library function / the executable
    specification; the delegating twins do_slice/do_unique/do_join/do_list are proved equal to the sync filter on auto_to_list(value))."""
    prop = PROP

    def __init__(self, filt, side, inner):
        self.filt, self.side, self.inner = filt, side, inner
        self.kind = inner.kind
        self.inner_name = inner.name
        self.name = f"C09.variant.{filt}.{side}[{inner.name}]"

    def run(self, tier, seed):
        rs = self.inner.run(tier, seed)
        for r in rs:
            suffix = r.name[len(self.inner_name):].lstrip(".") if r.name.startswith(self.inner_name) else r.name
            r.name = f"C09.variant.{self.filt}.{self.side}.{suffix}" if suffix else f"C09.variant.{self.filt}.{self.side}"
        return rs

    def finding_key(self, res):
        fk = getattr(self.inner, "finding_key", None)
        return fk(res) if fk else None

    def replay(self, w):
        return self.inner.replay(w)

    @property
    def bound_text(self):
        return getattr(self.inner, "bound_text", None)


def variant_tasks():
    try:
        from contracts import c22
    except Exception as ex:  # noqa  (the module is maintained by another agent; the native stand-in below does not depend on it)
        return [FnTask(PROP, "C09.variant.import", lambda t, tier, seed: [Res("C09.variant.import", "unknown", "pyvc", 0, f"contracts.c22 not importable: {ex}", "vc")], "vc")]
    ts = []
    for w in ("slice", "unique", "join", "list"):
        ts.append(Variant(f"do_{w}", "async", c22.AsyncDelegate(w)))
    ts += [Variant("do_sum", "sync", c22.Sum())]   # the async side: SumVariant (hunt_tasks)
    ts += [Variant("do_first", "sync", c22.First(False)), Variant("do_first", "async", c22.First(True))]
    ts += [Variant("do_map", "sync", c22.MapGen(False)), Variant("do_map", "async", c22.MapGen(True))]
    class AsyncSelectGen(c22.SelectGen):
        """async_select_or_reject since /repo a24fbf3: the test is prepared WITHOUT the select/reject modifier and awaited, then the modifier is
        applied: yields item i iff modfunc(await prepared_test(item)) is true.  The sync generator yields iff prepare(..., modfunc, ..)(item) is
        true, which contracts.c22.PrepareSelect proves to be modfunc(test(item)): the same items."""

        def T(self, i):
            return c22.TRUTHY(c22.APPLY(self.modfunc.t, self.key(z3.Select(self.v, i))))

        def p_prepared(self, pre, out):
            if out.raised:
                return False
            ps = A.calls(out, "prepare_select_or_reject")
            if not ps:
                return self.n == 0
            a = list(ps[0].args)
            # (context, args, kwargs, <identity modifier>, lookup_attr)
            ident = isinstance(a[3], Closure) and isinstance(a[3].node, ast.Lambda) and ast.unparse(a[3].node.body) == a[3].node.args.args[0].arg
            return len(ps) == 1 and c22.same(a[:3] + a[4:], [self.ctx, self.args, self.kwargs, self.lookup_attr]) and ident and not ps[0].kwargs

        posts = [("yields_the_selected_items_in_order", c22.SelectGen.p_yields), ("test_from_prepare_select_or_reject", p_prepared), ("frame", c22.RelVC.p_frame)]

    class SelectAsyncEither(Task):
        """the async generator against whichever of the two shapes the source has (modifier inside / outside the prepared test)"""
        prop, kind = PROP, "vc"
        name = "C09.variant.select_or_reject.async[C22.async_select_or_reject]"

        def run(self, tier, seed):
            best = None
            for inner in (c22.SelectGen(True), AsyncSelectGen(True)):
                rs = inner.run(tier, seed)
                for r in rs:
                    r.name = "C09.variant.select_or_reject.async" + r.name[len(inner.name):]
                if all(r.status == "discharged" for r in rs):
                    return rs
                best = best or rs
                self._inner = inner
            return best

        def finding_key(self, res):
            return None

        def replay(self, w):
            return c22.SelectGen(True).replay(w)

    ts += [Variant("select_or_reject", "sync", c22.SelectGen(False)), SelectAsyncEither()]
    for w in ("select", "reject", "selectattr", "rejectattr"):
        ts += [Variant(f"do_{w}", "sync", c22.SelectWrapper(w, False)), Variant(f"do_{w}", "async", c22.SelectWrapper(w, True))]
    for g in (0, 1, 2, 3):
        ts += [Variant("do_groupby", "sync", c22.GroupBy(g, False)), Variant("do_groupby", "async", c22.GroupBy(g, True))]
    return ts


VARIANT_NAMES = ["first", "groupby", "join", "list", "map", "reject", "rejectattr", "select", "selectattr", "slice", "sum", "unique"]


def variant_cases():
    xs, strs = [3, 1, 2, 1], ["b", "A", "a", "B"]
    ds = [{"a": 1, "n": "x"}, {"a": 0, "n": "y"}, {"a": 1, "n": "z"}, {"n": "w"}]
    return {
        "first": [([], (), {}), (xs, (), {}), (strs, (), {})],
        "list": [([], (), {}), (xs, (), {}), ("abc", (), {})],
        "join": [(xs, (), {}), (xs, (",",), {}), (ds[:3], ("-",), {"attribute": "a"}), ([], (",",), {}), (["<", "b"], ("<",), {})],
        "sum": [(xs, (), {}), ([], (), {}), (xs, (), {"start": 5}), (ds[:3], ("a",), {}), ([[1], [2]], (), {"start": [0]}), ([1.5, 2], (), {"start": 1}),
                ([0.1] * 10, (), {}), ([1e100, 1.0, -1e100], (), {}), (["a", "b"], (), {"start": ""}), ([{"p": 0.1}, {"p": 0.2}, {"p": 0.3}], ("p",), {})],
        "unique": [(strs, (), {}), (strs, (True,), {}), (ds[:3], (), {"attribute": "a"}), ([], (), {})],
        "slice": [(xs, (2,), {}), (xs, (3, "x"), {}), ([], (2,), {}), (xs, (4,), {})],
        "groupby": [(ds[:3], ("a",), {}), (ds, ("a",), {"default": 9}), (ds[:3], ("n",), {"case_sensitive": True}), ([], ("a",), {})],
        "map": [(xs, ("string",), {}), (ds[:3], (), {"attribute": "a"}), (ds, (), {"attribute": "a", "default": 7}), (strs, ("upper",), {}), ([], ("string",), {})],
        "select": [(xs, ("odd",), {}), (xs, (), {}), ([0, 1, "", "a"], (), {}), (xs, ("gt", 1), {})],
        "reject": [(xs, ("odd",), {}), ([0, 1, "", "a"], (), {}), (xs, ("gt", 1), {})],
        "selectattr": [(ds[:3], ("a",), {}), (ds[:3], ("a", "equalto", 1), {}), (ds, ("a",), {})],
        "rejectattr": [(ds[:3], ("a",), {}), (ds[:3], ("a", "equalto", 1), {})],
    }


def _force(v):
    """a filter result as plain data: coroutines awaited, (async) generators collected"""
    async def run():
        x = v
        if inspect.isawaitable(x):
            x = await x
        if hasattr(x, "__aiter__"):
            return ["<items>"] + [y async for y in x]
        return x

    r = asyncio.run(run()) if (inspect.isawaitable(v) or hasattr(v, "__aiter__")) else v
    if inspect.isgenerator(r) or isinstance(r, (map, filter)):
        r = ["<items>"] + list(r)
    if isinstance(r, list):
        out = []
        for y in r:
            if hasattr(y, "_fields"):  # groupby's namedtuple
                y = tuple(y)
            if inspect.isgenerator(y):
                y = list(y)
            out.append(y)
        if out and out[0] == "<items>":
            out = out[1:]
        return out
    return r


def variant_native(name):
    """-> list of (case index, description) where the async variant disagrees with the sync one or writes an argument"""
    from jinja2 import Environment
    bad = []
    for ci, (value, args, kwargs) in enumerate(variant_cases()[name]):
        def call(is_async, as_agen):
            env = Environment(enable_async=is_async)
            ctx = env.from_string("").new_context({})
            v = copy.deepcopy(value)
            a, k = copy.deepcopy(args), copy.deepcopy(kwargs)
            inp = v
            if as_agen:
                async def agen():
                    for y in v:
                        yield y
                inp = agen()
            try:
                r = ("ok", _force(env.call_filter(name, inp, a, k, context=ctx, eval_ctx=ctx.eval_ctx)))
            except Exception as ex:  # noqa
                r = ("err", type(ex).__name__)
            return r, (v, a, k)

        ref, _ = call(False, False)
        for as_agen in (False, True):
            if as_agen and isinstance(value, str):
                continue
            got, after = call(True, as_agen)
            if got != ref:
                bad.append((ci, f"{name}({value!r}, *{args}, **{kwargs}): sync -> {ref}, async{' on an async generator' if as_agen else ''} -> {got}"))
            if after != (value, args, kwargs):
                bad.append((ci, f"{name}({value!r}, *{args}, **{kwargs}): the async variant modified an argument: {after}"))
    return bad


class VariantBounded(FnTask):
    def __init__(self, name):
        self.fname = name
        FnTask.__init__(self, PROP, f"C09.variant.do_{name}.bounded", None, "bounded", None)
        self.bound_text = f"filter `{name}` through Environment.call_filter, sync vs async environment (list input and async-generator input), on the {len(variant_cases()[name])} argument sets of variant_cases()"

    def run(self, tier, seed):
        t0 = time.time()
        bad = variant_native(self.fname)
        self.stats = {"cases": len(variant_cases()[self.fname])}
        if not bad:
            return [Res(self.name, "bounded-ok", "native", time.time() - t0, "async and sync variants agree, no argument modified", "bounded")]
        seen, rs = set(), []
        for ci, d in bad:
            if ci not in seen:
                seen.add(ci)
                rs.append(Res(self.name, "refuted", "native", time.time() - t0, d[:400], "bounded", {"filter": self.fname, "case": ci}))
        return rs

    def finding_key(self, res):
        w = res.witness or {}
        return f"{w.get('filter')}:case{w.get('case')}"

    def replay(self, w):
        bad = [b for b in variant_native(w["filter"]) if b[0] == w.get("case")]
        return (bool(bad), bad[0][1] if bad else "variants agree")


def variant_table(task, tier, seed):
    """every filter registered through async_variant is in VARIANT_NAMES (so it has a contract), and vice versa"""
    rs = []
    registered = sorted(n for n, f in F.FILTERS.items() if getattr(f, "jinja_async_variant", False) is True)
    for n in sorted(set(registered) | set(VARIANT_NAMES)):
        ok = n in registered and n in VARIANT_NAMES
        rs.append(Res(f"C09.variant.registry.{n}", "discharged" if ok else "refuted", "table", 0,
                      "" if ok else (f"filter {n!r} is an async variant without a C09.variant contract" if n in registered else f"filter {n!r} is no longer registered through async_variant"),
                      "table", None if ok else {"filter": n}))
    return rs


# =====================================================================================================
# C09.dispatch
# =====================================================================================================

class _Callee:
    def __init__(self, name):
        self.__name__ = name

    def __call__(self, *a, **k):
        raise RuntimeError("abstract")


class DispatchWrapper(VC):
    """async_variant.<locals>.decorator.<locals>.wrapper(*args, **kwargs): asks is_async(args) with the FULL argument tuple, drops the
    first argument (the eval context) exactly when need_eval_context, and returns async_func(...) iff is_async else normal_func(...)
    with the remaining arguments and the keyword arguments unchanged."""
    prop = PROP
    target = "jinja2.async_utils:async_variant"

    def __init__(self, need_eval_context, nargs):
        self.need, self.nargs = need_eval_context, nargs
        super().__init__(PROP, f"C09.dispatch.wrapper[need_eval_context={need_eval_context},args={nargs}]")

    def closure(self, I):
        # the code object of a LIVE wrapper (whatever the nested function is called and wherever it is written)
        try:
            node, module = extract.function_ast(F.FILTERS["first"])
        except LookupError:
            try:
                node, module = extract.nested_function_ast("jinja2.async_utils:async_variant", "wrapper")
            except LookupError as ex:
                raise Unsupported(f"cannot locate the wrapper async_variant builds: {ex}")
        free = set(F.FILTERS["first"].__code__.co_freevars)
        if not {"is_async", "need_eval_context", "async_func", "normal_func"} <= free:
            raise Unsupported(f"the wrapper's free variables are {sorted(free)}: the dispatch contract is stated over is_async / need_eval_context / async_func / normal_func")
        return Closure(node, module, [], "async_variant.<locals>.decorator.<locals>.wrapper")

    def setup(self, I, st):
        self.args = tuple(sym(f"arg{i}", "obj") for i in range(self.nargs))
        self.kw = sym("kwvalue", "obj")
        self.f_is_async, self.f_async, self.f_normal = _Callee("is_async"), _Callee("async_func"), _Callee("normal_func")
        self.b = sym("is_async_result", "bool")
        I.specs[("fn", id(self.f_is_async))] = A.abstract_fn("is_async", result=lambda st_, a, k: self.b)
        I.specs[("fn", id(self.f_async))] = A.abstract_fn("async_func", returns="obj", raises=[("any", Exception)])
        I.specs[("fn", id(self.f_normal))] = A.abstract_fn("normal_func", returns="obj", raises=[("any", Exception)])
        return "locals", {"args": self.args, "kwargs": st.alloc(HDict(items={"k": self.kw})), "is_async": self.f_is_async, "need_eval_context": self.need,
                          "async_func": self.f_async, "normal_func": self.f_normal}

    def p_dispatch(self, pre, out):
        sel = A.calls(out, "is_async")
        ca, cn = A.calls(out, "async_func"), A.calls(out, "normal_func")
        if len(sel) != 1 or tuple(sel[0].args) != (self.args,) and list(sel[0].args[0] if sel[0].args else ()) != list(self.args):
            return False
        if len(ca) + len(cn) != 1:
            return False
        ev = (ca or cn)[0]
        want = list(self.args[1:] if self.need else self.args)
        args_ok = len(ev.args) == len(want) and all(x is y for x, y in zip(ev.args, want)) and list(ev.kwargs) == ["k"] and ev.kwargs["k"] is self.kw
        if not args_ok:
            return False
        if out.raised:
            res_ok = getattr(out.value, "tag", "").startswith(ev.name)
        else:
            res_ok = out.value is ev.result
        return z3.And(z3.BoolVal(bool(res_ok)), self.b.t if ca else z3.Not(self.b.t))

    posts = [("selects_by_is_async_and_strips_eval_context", p_dispatch)]

    def concretize(self, model, pre, out):
        return {"dispatch": "wrapper"}

    def replay(self, w):
        return native_dispatch(w)


def live_selectors(kind):
    """the `is_async` selector functions the decorator bound for the registered variants whose sync function takes the environment
    (kind 0) / a context, an eval context or nothing (kind 1) - wherever they are defined (nested closures or module-level helpers)"""
    out = {}
    for name in VARIANT_NAMES:
        w = F.FILTERS[name]
        cells = {n: c.cell_contents for n, c in zip(w.__code__.co_freevars, w.__closure__ or ())}
        sel, normal = cells.get("is_async"), cells.get("normal_func")
        if sel is None or normal is None:
            continue
        is_env = _PassArg.from_obj(normal) is _PassArg.environment
        if (kind == 0) == is_env:
            out.setdefault(sel.__code__, (sel, name))
    return list(out.values())


class IsAsyncSelector(VC):
    """the selector a registered variant was given reads args[0].is_async when the sync function takes the environment, otherwise
    args[0].environment.is_async (the selector is taken from the LIVE wrapper, so it is found wherever the decorator defines it)"""
    prop = PROP
    target = "jinja2.async_utils:async_variant"

    def __init__(self, which, sel=None, example=None, idx=0):
        self.which, self.sel, self.example = which, sel, example
        super().__init__(PROP, f"C09.dispatch.is_async[{'environment' if which == 0 else 'context'}]" + (f"[{idx}]" if idx else ""))

    def closure(self, I):
        if self.sel is None:
            raise Unsupported(f"no registered async variant of this kind exposes an is_async selector (closure cell `is_async` not found)")
        return I.closure_of_function(self.sel)

    def configure(self, I):
        import typing
        I.specs[("fn", id(typing.cast))] = lambda I_, st, args, kwargs, node: [(st, args[1])]

    def setup(self, I, st):
        self.flag = sym("the_flag", "bool")
        env = A.obj(st, jinja2.Environment, "env", fields={"is_async": self.flag})
        first = env if self.which == 0 else A.obj(st, R.Context, "ctx", fields={"environment": env})
        return [(first, sym("other", "obj"))], {}

    def p_flag(self, pre, out):
        if out.raised:
            return False
        if not isinstance(out.value, Sym):
            return False
        return to_term(out.value, "bool") == self.flag.t

    posts = [("reads_is_async_of_the_first_arguments_environment", p_flag)]

    def concretize(self, model, pre, out):
        return {"dispatch": "is_async", "example": self.example}

    def replay(self, w):
        return native_dispatch(w)


def selector_tasks():
    ts = []
    for kind in (0, 1):
        sels = live_selectors(kind)
        if not sels:
            ts.append(IsAsyncSelector(kind))
        for i, (sel, example) in enumerate(sels):
            ts.append(IsAsyncSelector(kind, sel, example, i))
    return ts


def native_dispatch(w=None):
    """every registered variant, called through a sync and an async environment, runs the matching implementation with the same arguments"""
    problems = []
    for name in VARIANT_NAMES:
        wrapper = F.FILTERS[name]
        cells = {n: c.cell_contents for n, c in zip(wrapper.__code__.co_freevars, wrapper.__closure__ or ()) if True}
        target = wrapper
        # pass_eval_context(wrapper) wraps nothing (it only tags), so the cells are those of `wrapper` itself
        for is_async in (False, True):
            calls = []

            def mk(tag, cells=cells):
                def f(*a, **k):
                    calls.append((tag, a, k))
                    return tag
                return f

            import types
            new_cells = dict(cells, async_func=mk("async"), normal_func=mk("sync"))
            clone = types.FunctionType(wrapper.__code__, wrapper.__globals__, wrapper.__name__, wrapper.__defaults__,
                                       tuple(types.CellType(new_cells[n]) for n in wrapper.__code__.co_freevars))
            env = jinja2.Environment(enable_async=is_async)
            ctx = env.from_string("").new_context({})
            pa = _PassArg.from_obj(wrapper)
            first = {_PassArg.environment: env, _PassArg.context: ctx, _PassArg.eval_context: ctx.eval_ctx}[pa]
            try:
                r = clone(first, "v", 1, k=2)
            except Exception as ex:  # noqa
                problems.append(f"{name} (async={is_async}): wrapper raised {type(ex).__name__}: {ex}")
                continue
            need = cells["need_eval_context"]
            want_args = ("v", 1) if need else (first, "v", 1)
            want = ("async" if is_async else "sync", want_args, {"k": 2})
            if calls != [want] or r != want[0]:
                problems.append(f"{name} (async={is_async}): dispatched {calls}, expected {want}")
    return (bool(problems), "; ".join(problems[:2]) or "every registered async variant dispatches on the environment of its first argument")


def dispatch_table(task, tier, seed):
    """the live wrappers: need_eval_context == (sync function takes no pass argument); the selector fits the pass argument; the wrapper is tagged
    pass_eval_context exactly when it needs the eval context, otherwise it carries the sync function's pass argument"""
    rs = []
    for name in VARIANT_NAMES:
        w = F.FILTERS[name]
        cells = {n: c.cell_contents for n, c in zip(w.__code__.co_freevars, w.__closure__ or ())}
        normal = cells.get("normal_func")
        pa = _PassArg.from_obj(normal)
        need = cells.get("need_eval_context")
        sel = cells.get("is_async")
        uses_env_attr = "environment" in sel.__code__.co_names
        ok = (need is (pa is None)) and (uses_env_attr is (pa is not _PassArg.environment)) and getattr(w, "jinja_async_variant", False) is True \
            and _PassArg.from_obj(w) is (_PassArg.eval_context if need else pa) and inspect.iscoroutinefunction(cells.get("async_func")) | inspect.isasyncgenfunction(cells.get("async_func"))
        rs.append(Res(f"C09.dispatch.registry.{name}", "discharged" if ok else "refuted", "table", 0,
                      "" if ok else f"do_{name}: need_eval_context={need}, sync pass_arg={pa}, selector reads .environment={uses_env_attr}, wrapper pass_arg={_PassArg.from_obj(w)}",
                      "table", None if ok else {"dispatch": name}))
    v, d = native_dispatch()
    rs.append(Res("C09.dispatch.registry.native_calls", "discharged" if not v else "refuted", "native", 0, d if v else "", "table", None if not v else {"dispatch": "native"}))
    return rs


class AutoAwait(FnTask):
    """auto_await / auto_aiter / auto_to_list against their documented meaning on a value family (bounded: types are open-ended)"""

    def __init__(self):
        FnTask.__init__(self, PROP, "C09.dispatch.auto_utils", None, "bounded", None)
        self.bound_text = "auto_await on 14 values (primitives, containers, objects, coroutines, futures, awaitable objects); auto_aiter / auto_to_list on lists, tuples, generators, dict views, strings and async generators"

    def cases(self):
        class Aw:
            def __await__(self):
                return iter(())
                yield  # pragma: no cover

        class AwVal:
            def __init__(self, v):
                self.v = v

            def __await__(self):
                async def f():
                    return self.v
                return f().__await__()

        async def coro(v):
            return v

        plain = [0, 1.5, True, "s", [1], {"a": 1}, (1,), None, object, len, range(3)]
        return plain, [(lambda: coro(5), 5), (lambda: AwVal([1]), [1]), (lambda: asyncio.ensure_future(coro("x")), "x")]

    def run(self, tier, seed):
        t0 = time.time()
        bad = []
        plain, awaitables = self.cases()
        for v in plain:
            r = asyncio.run(AU.auto_await(v))
            if r is not v:
                bad.append(f"auto_await({v!r}) -> {r!r}, expected the value itself")

        async def aw_case(mk, want):
            r = await AU.auto_await(mk())
            return r == want

        for mk, want in awaitables:
            if not asyncio.run(aw_case(mk, want)):
                bad.append(f"auto_await(<awaitable of {want!r}>) did not return {want!r}")

        async def collect(x):
            return [y async for y in AU.auto_aiter(x)]

        async def agen():
            for i in (1, 2):
                yield i

        for mk, want in ((lambda: [1, 2], [1, 2]), (lambda: (1, 2), [1, 2]), (lambda: iter([1, 2]), [1, 2]), (lambda: {"a": 1}.items(), [("a", 1)]), (lambda: "ab", ["a", "b"]),
                         (lambda: [], []), (agen, [1, 2]), (lambda: (i for i in (1, 2)), [1, 2])):
            r1 = asyncio.run(collect(mk()))
            r2 = asyncio.run(AU.auto_to_list(mk()))
            if r1 != want or r2 != want or not isinstance(r2, list):
                bad.append(f"auto_aiter/auto_to_list over {want!r}: {r1!r} / {r2!r}")
        src = [1, 2]
        out_ = asyncio.run(AU.auto_to_list(src))
        if out_ is src:
            bad.append("auto_to_list returns its argument instead of a new list")
        self.stats = {"cases": len(plain) + len(awaitables) + 9}
        if bad:
            return [Res(self.name, "refuted", "native", time.time() - t0, "; ".join(bad[:3]), "bounded", {"auto_utils": bad[0]})]
        return [Res(self.name, "bounded-ok", "native", time.time() - t0, "auto_await / auto_aiter / auto_to_list behave as documented on the value family", "bounded")]

    def finding_key(self, res):
        return (res.witness or {}).get("auto_utils", "")[:40]

    def replay(self, w):
        rs = self.run("quick", 0)
        return (rs[0].status == "refuted", rs[0].detail)


# =====================================================================================================
# C09.entry   sync entry points delegate to their async twins; the twins' bodies agree up to erase
# =====================================================================================================

class EntryNorm(ast.NodeTransformer):
    """rewrites under which the sync and the erased async bodies are compared (each preserves the computed value):
    R1  concat([n for n in X]) == concat(X): an identity list comprehension is its iterable (concat only iterates once, in order)
    R2  `handle_exception()` never returns (te.NoReturn): as statement or as `return handle_exception()` alike
    R4  `if c: rv = E` followed by `return rv`  ==  `if c: return E` followed by `return rv`"""

    def visit_ListComp(self, node):
        node = self.generic_visit(node)
        if len(node.generators) == 1:
            g = node.generators[0]
            if isinstance(node.elt, ast.Name) and isinstance(g.target, ast.Name) and node.elt.id == g.target.id and not g.ifs:
                return g.iter
        return node

    def visit_Expr(self, node):
        node = self.generic_visit(node)
        if isinstance(node.value, ast.Call) and (emit.call_name(node.value) or "").endswith(".handle_exception"):
            return ast.Return(value=node.value)
        return node

    def _block(self, stmts):
        out = list(stmts)
        for i in range(len(out) - 1):
            a, b = out[i], out[i + 1]
            if (isinstance(a, ast.If) and not a.orelse and len(a.body) == 1 and isinstance(a.body[0], ast.Assign) and len(a.body[0].targets) == 1
                    and isinstance(b, ast.Return) and isinstance(b.value, ast.Name) and isinstance(a.body[0].targets[0], ast.Name) and a.body[0].targets[0].id == b.value.id):
                out[i] = ast.If(test=a.test, body=[ast.Return(value=a.body[0].value)], orelse=[])
        return out

    def generic_visit(self, node):
        node = super().generic_visit(node)
        for f in ("body", "orelse", "finalbody"):
            v = getattr(node, f, None)
            if isinstance(v, list) and v and isinstance(v[0], ast.stmt):
                setattr(node, f, self._block(v))
        return node


def _strip_doc(body):
    if body and isinstance(body[0], ast.Expr) and isinstance(body[0].value, ast.Constant) and isinstance(body[0].value.value, str):
        return body[1:]
    return body


def _strip_annotations(tree):
    for n in ast.walk(tree):
        if isinstance(n, ast.AnnAssign):
            pass
    class T(ast.NodeTransformer):
        def visit_AnnAssign(self, node):
            if node.value is None:
                return None
            return ast.copy_location(ast.Assign(targets=[node.target], value=node.value), node)

        def visit_FunctionDef(self, node):
            node = self.generic_visit(node)
            node.returns = None
            for x in node.args.posonlyargs + node.args.args + node.args.kwonlyargs + [y for y in (node.args.vararg, node.args.kwarg) if y]:
                x.annotation = None
            return node

        visit_AsyncFunctionDef = visit_FunctionDef
    return T().visit(tree)


ENTRY = {
    "Template.render": dict(sync="jinja2.environment:Template.render", twin="jinja2.environment:Template.render_async", flag="self.environment.is_async", guard=True,
                            prologue="import asyncio\nreturn asyncio.run(self.render_async(*args, **kwargs))"),
    "Template.generate": dict(sync="jinja2.environment:Template.generate", twin="jinja2.environment:Template.generate_async", flag="self.environment.is_async", guard=True,
                              prologue="import asyncio\n\nasync def to_list():\n    return [x async for x in self.generate_async(*args, **kwargs)]\nyield from asyncio.run(to_list())\nreturn"),
    "NativeTemplate.render": dict(sync="jinja2.nativetypes:NativeTemplate.render", twin="jinja2.nativetypes:NativeTemplate.render_async", flag="self.environment.is_async", guard=True,
                                  prologue="import asyncio\nreturn asyncio.run(self.render_async(*args, **kwargs))"),
    "BlockReference.__call__": dict(sync="jinja2.runtime:BlockReference.__call__", twin="jinja2.runtime:BlockReference._async_call", flag="self._context.environment.is_async", guard=False,
                                    prologue="return self._async_call()"),
    "Macro._invoke": dict(sync="jinja2.runtime:Macro._invoke", twin="jinja2.runtime:Macro._async_invoke", flag="self._environment.is_async", guard=False,
                          prologue="return self._async_invoke(arguments, autoescape)"),
}
GUARD = "if not self.environment.is_async:\n    raise RuntimeError('The environment was not created with async mode enabled.')"


def entry_check(name):
    """-> list of (clause, ok, detail)"""
    spec = ENTRY[name]
    out = []
    fs, _ = extract.function_ast(extract.resolve(spec["sync"]))
    fa, _ = extract.function_ast(extract.resolve(spec["twin"]))
    sb = _strip_doc(copy.deepcopy(fs).body)
    ab = _strip_doc(copy.deepcopy(fa).body)
    # the twin is really asynchronous, the entry point is not
    out.append(("kinds", isinstance(fa, ast.AsyncFunctionDef) and isinstance(fs, ast.FunctionDef), f"{spec['sync']} must be a plain def and {spec['twin']} an async def"))
    # same parameters
    out.append(("same_parameters", ast.dump(_no_ann(fs.args)) == ast.dump(_no_ann(fa.args)), f"parameter lists differ: {ast.unparse(fs.args)} vs {ast.unparse(fa.args)}"))
    # dispatch prologue
    head = sb[0] if sb else None
    ok = isinstance(head, ast.If) and not head.orelse and ast.unparse(head.test) == spec["flag"]
    out.append(("dispatch_on_is_async", ok, f"the entry point does not start with `if {spec['flag']}:` ({ast.unparse(head)[:80] if head else 'empty'})"))
    if ok:
        got = "\n".join(ast.unparse(s) for s in _strip_annotations(ast.Module(body=copy.deepcopy(head.body), type_ignores=[])).body)
        want = "\n".join(ast.unparse(s) for s in ast.parse(spec["prologue"]).body)
        out.append(("delegates_to_twin_with_same_arguments", got == want, f"async branch is `{got}`, expected `{want}`"))
        sb = sb[1:]
    if spec["guard"]:
        g = ab[0] if ab else None
        okg = g is not None and ast.unparse(g) == ast.unparse(ast.parse(GUARD).body[0])
        out.append(("twin_refuses_sync_environment", okg, f"the async twin does not start with the is_async guard: {ast.unparse(g)[:100] if g else 'empty'}"))
        if okg:
            ab = ab[1:]

    params = {a.arg for a in fs.args.posonlyargs + fs.args.args + fs.args.kwonlyargs + [y for y in (fs.args.vararg, fs.args.kwarg) if y]}

    def nf(stmts, erase):
        m = ast.Module(body=copy.deepcopy(stmts), type_ignores=[])
        m = _strip_annotations(m)
        if erase:
            m = Erase().visit(m)
        m = Norm().visit(m)
        m = EntryNorm().visit(m)
        # local variable names are immaterial: rename them in order of first assignment
        order = []
        for n in ast.walk(m):
            pass
        class Collect(ast.NodeVisitor):
            def visit_Name(self, n):
                if isinstance(n.ctx, ast.Store) and n.id not in params and n.id not in order:
                    order.append(n.id)
        Collect().visit(m)
        ren = {nm: f"_local{i}" for i, nm in enumerate(order)}
        for n in ast.walk(m):
            if isinstance(n, ast.Name) and n.id in ren:
                n.id = ren[n.id]
        ast.fix_missing_locations(m)
        return ast.unparse(m)

    a, s = nf(ab, True), nf(sb, False)
    out.append(("bodies_agree_up_to_erase", a == s, first_diff(s, a) if a != s else ""))
    return out


def _no_ann(args):
    a = copy.deepcopy(args)
    for x in a.posonlyargs + a.args + a.kwonlyargs + [y for y in (a.vararg, a.kwarg) if y]:
        x.annotation = None
    return a


def native_entry(w=None):
    n, bad = render_disagreements(["output", "for", "macro", "self_block", "call_block", "extends", "literals"])
    if bad:
        return True, bad[0][1]
    return False, f"{n} renderings through render / render_async / generate / generate_async agree"


def entry_task(name):
    def fn(task, tier, seed):
        rs = []
        for clause, ok, detail in entry_check(name):
            rs.append(Res(f"C09.entry.{name}.{clause}", "discharged" if ok else "refuted", "ast-relational", 0, "" if ok else detail, "path", None if ok else {"entry": name, "clause": clause}))
        return rs
    t = FnTask(PROP, f"C09.entry.{name}", fn, "path", native_entry)
    t.finding_key = lambda res: f"{(res.witness or {}).get('entry')}:{(res.witness or {}).get('clause')}"
    return t


# =====================================================================================================
# obligations added after the hunt round (reports /verif/hunt/e/C09_*)
# =====================================================================================================

# ---- C09_1: the bridge between the two do_sum contracts.  contracts.c22 proves  sync_do_sum == builtin sum(map(f, xs), start)  and
# async do_sum == left fold of `+` from `start`; the pair agrees only if builtin sum IS that left fold.  That was an unstated dependency
# spec; it is checked here on a value family (floats: compensated summation since CPython 3.12; str/bytes start values are refused).

def sum_lemma(task, tier, seed):
    fam = [("ints", [1, 2, 3], 0), ("int_start", [1, 2], 5), ("lists", [[1], [2]], []), ("tuples", [(1,), (2,)], ()), ("bools", [True, False], 0),
           ("floats_tenths", [0.1] * 10, 0), ("floats_prices", [0.1, 0.2, 0.3], 0), ("floats_cancel", [1e100, 1.0, -1e100], 0), ("float_start", [0.1, 0.2], 0.3),
           ("mixed_int_float", [1, 0.1, 0.2], 0), ("str_start", ["a", "b"], ""), ("str_start_empty", [], ""), ("bytes_start", [b"a"], b""), ("fractions", [__import__("fractions").Fraction(1, 3)] * 3, 0)]
    rs = []
    for i, (name, xs, start) in enumerate(fam):
        def run(f):
            try:
                return ("ok", repr(f()))
            except Exception as ex:  # noqa
                return ("err", type(ex).__name__)

        def fold():
            rv = start
            for x in xs:
                rv = rv + x
            return rv

        a, b = run(lambda: sum(xs, start)), run(fold)
        ok = a == b
        kind = "float-summation" if name.startswith(("float", "mixed")) else ("str-or-bytes-start" if "start" in name and not ok else name)
        rs.append(Res(f"C09.variant.do_sum.builtin_sum_is_left_fold#p{i}", "discharged" if ok else "refuted", "table", 0,
                      "" if ok else f"builtin sum({xs!r}, {start!r}) -> {a} but the `+` loop of the async do_sum -> {b}: sync_do_sum (builtin sum) and the async variant (loop) differ",
                      "table", None if ok else {"lemma": kind, "xs": repr(xs), "start": repr(start)}))
    return rs


def sum_lemma_replay(w):
    import warnings
    from jinja2 import Environment
    cases = [("{{ xs|sum }}", {"xs": [0.1] * 10}), ("{{ xs|sum }}", {"xs": [1e100, 1.0, -1e100]}), ("{{ xs|sum(start='') }}", {"xs": ["a", "b"]}),
             ("{{ items|sum(attribute='price') }}", {"items": [{"price": 0.1}, {"price": 0.2}, {"price": 0.3}]})]
    for src, ctx in cases:
        outs = []
        for is_async in (False, True):
            outs.append(outcome(lambda: Environment(enable_async=is_async).from_string(src).render(**ctx)))
        if outs[0] != outs[1]:
            return True, f"{src} with {ctx}: sync -> {outs[0]}, async -> {outs[1]}"
    return False, "sync and async sum agree on the float / str-start family"


class SumVariant(Task):
    """async do_sum: either it delegates to sync_do_sum on auto_to_list(iterable) (then the delegate contract decides alone), or it
    re-implements the summation as a loop (contracts.c22.AsyncSum: left fold) and then ALSO needs builtin sum to be that left fold."""
    prop = PROP
    kind = "vc"
    name = "C09.variant.do_sum.async"

    def run(self, tier, seed):
        from contracts import c22

        class SumDelegate(c22.AsyncDelegate):
            TABLE = dict(c22.AsyncDelegate.TABLE, sum=("sync_do_sum", ["environment", "iterable", "attribute", "start"], 1))

        try:
            rs = SumDelegate("sum").run(tier, seed)
        except Exception:  # noqa
            rs = []
        if rs and all(r.status == "discharged" for r in rs):
            for r in rs:
                r.name = "C09.variant.do_sum.async." + r.name.split(".")[-1]
            return rs
        out = []
        self._inner = c22.AsyncSum(False)
        for inner in (self._inner, c22.AsyncSum(True)):
            for r in inner.run(tier, seed):
                r.name = "C09.variant.do_sum.async." + r.name[len(inner.name):].lstrip(".")
                out.append(r)
        return out + sum_lemma(self, tier, seed)

    def finding_key(self, res):
        w = res.witness or {}
        if "lemma" in w:
            return "sum-lemma:" + w.get("lemma", "")
        inner = getattr(self, "_inner", None)
        return inner.finding_key(res) if inner is not None and hasattr(inner, "finding_key") else None

    def replay(self, w):
        if "lemma" not in (w or {}):
            from contracts import c22
            return c22.AsyncSum(False).replay(w)
        return sum_lemma_replay(w)


# ---- C09_2: what an async variant returns must be consumable by every other filter / test / operator, like the sync result is

def consumable_table(task, tier, seed):
    rs = []
    sync_only = sorted(n for n, f in F.FILTERS.items() if not getattr(f, "jinja_async_variant", False) and n in
                       ("sort", "min", "max", "batch", "reverse", "last", "dictsort", "length", "count", "random", "tojson", "xmlattr", "urlencode"))
    for n in VARIANT_NAMES:
        w = F.FILTERS[n]
        cells = {k: c.cell_contents for k, c in zip(w.__code__.co_freevars, w.__closure__ or ())}
        af = cells.get("async_func")
        gen = inspect.isasyncgenfunction(af)
        if not gen:
            # `async def f(...): return g(...)` with g an async generator function hands out the async generator as well
            node, _ = extract.function_ast(af)
            for st_ in ast.walk(node):
                if isinstance(st_, ast.Return) and isinstance(st_.value, ast.Call) and isinstance(st_.value.func, ast.Name):
                    if inspect.isasyncgenfunction(getattr(F, st_.value.func.id, None)):
                        gen = True
        sync_gen = inspect.isgeneratorfunction(cells.get("normal_func"))
        ok = not gen
        rs.append(Res(f"C09.variant.result_consumable.do_{n}", "discharged" if ok else "refuted", "table", 0,
                      "" if ok else f"the async variant of `{n}` is an async generator function: its result (sync: a{' generator' if sync_gen else 'n iterable'}) cannot be iterated by the "
                                    f"filters that have no async variant ({', '.join(sync_only)}), by `in`, tuple unpacking, *args, dict() or the `iterable` test",
                      "table", None if ok else {"consumable": n}))
    return rs


COMPOSE = ["{{ [3,1,2]|@P|sort }}", "{{ [3,1,2]|@P|max }}", "{{ [3,1,2]|@P|batch(2)|list }}", "{{ [3,1,2]|@P|reverse|list }}", "{{ 3 in [3,1,2]|@P }}",
           "{{ [3,1,2]|@P is iterable }}", "{% set a, b, c = [3,1,2]|@P %}{{ a }}{{ b }}{{ c }}", "{{ '%s-%s-%s'|format(*[3,1,2]|@P) }}", "{{ [3,1,2]|@P|last }}", "{{ [3,1,2]|@P|length }}"]
PRODUCERS = {"map": "map('int')", "select": "select", "reject": "reject('none')", "selectattr": None, "rejectattr": None, "unique": "unique", "slice": None, "groupby": None, "list": "list"}


def compose_disagreements(only=None):
    from jinja2 import Environment
    bad = []
    n = 0
    for prod, expr in PRODUCERS.items():
        if expr is None or (only and prod != only):
            continue
        for tpl in COMPOSE:
            src = tpl.replace('@P', expr)
            n += 1
            a = outcome(lambda: Environment().from_string(src).render())
            b = outcome(lambda: Environment(enable_async=True).from_string(src).render())
            if a != b:
                bad.append((prod, f"{src}: sync -> {a}, async -> {b}"))
    # a data iterable replaced by an async generator
    for tpl in ("{{ xs|sort }}", "{{ xs|max }}", "{{ xs|reverse|list }}", "{{ 3 in xs }}", "{{ xs|batch(2)|list }}"):
        if only and only != "data":
            continue
        n += 1

        async def agen():
            for i in (3, 1, 2):
                yield i

        a = outcome(lambda: Environment().from_string(tpl).render(xs=[3, 1, 2]))
        b = outcome(lambda: Environment(enable_async=True).from_string(tpl).render(xs=agen()))
        if a != b:
            bad.append(("data", f"{tpl} with xs an async generator of 3,1,2: sync (list) -> {a}, async -> {b}"))
    return n, bad


class Compose(FnTask):
    def __init__(self):
        FnTask.__init__(self, PROP, "C09.variant.compose", None, "bounded", None)
        self.bound_text = f"{len([p for p in PRODUCERS.values() if p])} producing filters x {len(COMPOSE)} consumers (sort, max, batch, reverse, in, iterable test, unpacking, *args, last, length) and 5 consumers of an async-generator data value"

    def run(self, tier, seed):
        n, bad = compose_disagreements()
        self.stats = {"templates": n}
        groups = {}
        for k, d in bad:
            groups.setdefault(k, d)
        if not groups:
            return [Res(self.name, "bounded-ok", "native", 0, f"{n} compositions agree", "bounded")]
        return [Res(self.name, "refuted", "native", 0, d[:400], "bounded", {"producer": k}) for k, d in sorted(groups.items())]

    def finding_key(self, res):
        return "compose:" + (res.witness or {}).get("producer", "")

    def replay(self, w):
        n, bad = compose_disagreements(w.get("producer"))
        return (bool(bad), bad[0][1] if bad else f"{n} compositions agree")


def consumable_replay(w):
    n, bad = compose_disagreements(w.get("consumable"))
    return (bool(bad), bad[0][1] if bad else f"{n} compositions agree")


# ---- C09_3: every LoopContext method that AsyncLoopContext inherits must not read an attribute that AsyncLoopContext turns into a coroutine

def async_overrides_table(task, tier, seed):
    import textwrap
    async_names = set()
    for name, member in vars(R.AsyncLoopContext).items():
        f = member.fget if isinstance(member, property) else member
        if inspect.iscoroutinefunction(f):
            async_names.add(name)
    rs = []
    for name, member in vars(R.LoopContext).items():
        if name in vars(R.AsyncLoopContext):
            continue
        f = member.fget if isinstance(member, property) else member
        if not inspect.isfunction(f):
            continue
        node, _ = extract.function_ast(f)
        used = sorted({n.attr for n in ast.walk(node) if isinstance(n, ast.Attribute) and isinstance(n.value, ast.Name) and n.value.id == "self" and n.attr in async_names})
        ok = not used
        rs.append(Res(f"C09.loopcontext.inherited_sync_member.{name}", "discharged" if ok else "refuted", "table", 0,
                      "" if ok else f"AsyncLoopContext inherits LoopContext.{name}, which reads self.{', self.'.join(used)}: in AsyncLoopContext that is a coroutine, so the inherited member "
                                    "returns / formats a coroutine object instead of the value", "table", None if ok else {"member": name, "reads": used}))
    return rs


def async_overrides_replay(w):
    from jinja2 import Environment
    srcs = {"__len__": ["{% for x in 'ab' %}{% if loop %}L{% endif %}{% endfor %}", "{% for x in 'ab' %}{{ loop|length }}{% endfor %}"],
            "__repr__": ["{% for x in 'ab' %}{{ loop }}{% endfor %}"]}.get(w.get("member"), ["{% for x in 'ab' %}{% if loop %}L{% endif %}{{ loop|length }}{% endfor %}"])
    for src in srcs:
        a = outcome(lambda: Environment().from_string(src).render())
        b = outcome(lambda: re.sub("Async", "", Environment(enable_async=True).from_string(src).render()))
        if a != b:
            return True, f"{src}: sync -> {a}, async -> {b}"
    return False, "inherited members agree"


# ---- C09_4 / C09_7: awaitable attribute values, and how much of a lazy input is consumed

class Rec:
    def __init__(self, val, is_async):
        self._val, self._is_async = val, is_async

    @property
    def val(self):
        if self._is_async:
            async def get():
                return self._val
            return get()
        return self._val


ATTR_CASES = {"sum": "{{ os|sum(attribute='val') }}", "join": "{{ os|join(',', attribute='val') }}", "selectattr": "{{ os|selectattr('val', 'odd')|list|length }}",
              "rejectattr": "{{ os|rejectattr('val', 'odd')|list|length }}", "map": "{{ os|map(attribute='val')|list }}", "unique": "{{ os|unique(attribute='val')|list|length }}",
              "groupby": "{{ os|groupby('val')|list|length }}"}
LOOP_ATTR_CASES = {"selectattr": "{% for x in 'ab' %}{{ [loop]|selectattr('last')|list|length }}{% endfor %}", "rejectattr": "{% for x in 'ab' %}{{ [loop]|rejectattr('last')|list|length }}{% endfor %}",
                   "sum": "{% for x in 'ab' %}{{ [loop]|sum(attribute='length') }}{% endfor %}", "join": "{% for x in 'ab' %}{{ [loop]|join(',', attribute='length')|int }}{% endfor %}",
                   "map": "{% for x in 'ab' %}{{ [loop]|map(attribute='length')|join }}{% endfor %}"}


def awaitable_attr_case(name):
    from jinja2 import Environment
    bad = []
    for src, mk in ((ATTR_CASES.get(name), True), (LOOP_ATTR_CASES.get(name), False)):
        if not src:
            continue
        a = outcome(lambda: Environment().from_string(src).render(os=[Rec(1, False), Rec(2, False), Rec(1, False)]))
        b = outcome(lambda: Environment(enable_async=True).from_string(src).render(os=[Rec(1, True), Rec(2, True), Rec(1, True)]))
        if a != b:
            bad.append(f"{src}{' with os = objects whose .val is awaitable in async mode' if mk else ''}: sync -> {a}, async -> {str(b)[:120]}")
    return bad


class AwaitableAttr(FnTask):
    def __init__(self, name):
        self.fname = name
        FnTask.__init__(self, PROP, f"C09.variant.do_{name}.awaitable_attribute", None, "bounded", None)
        self.bound_text = f"filter `{name}` with attribute=: three objects whose attribute value is awaitable in async mode (plain in sync mode), and the loop object itself in a list"

    def run(self, tier, seed):
        bad = awaitable_attr_case(self.fname)
        if bad:
            return [Res(self.name, "refuted", "native", 0, bad[0][:400], "bounded", {"filter": self.fname})]
        return [Res(self.name, "bounded-ok", "native", 0, "attribute values are awaited like the compiled attribute access does", "bounded")]

    def finding_key(self, res):
        return "awaitable-attribute:" + (res.witness or {}).get("filter", "")

    def replay(self, w):
        bad = awaitable_attr_case(w["filter"])
        return (bool(bad), bad[0] if bad else "agree")


LAZY_CASES = {"unique": ["{{ [1, none]|map('abs')|unique|first }}", "{{ x|selectattr('a', 'odd')|unique|list }}"], "slice": ["{{ (5|slice(2)) is iterable }}"],
              "select": ["{{ [1, none]|map('abs')|select|first }}"], "map": ["{{ [1, none]|map('abs')|map('string')|first }}"]}


def lazy_case(name):
    from jinja2 import Environment
    bad = []
    for src in LAZY_CASES.get(name, []):
        ctx = {"x": [{"a": 1}, {"b": 2}]}
        a = outcome(lambda: Environment().from_string(src).render(**ctx))
        b = outcome(lambda: Environment(enable_async=True).from_string(src).render(**ctx))
        if a != b:
            bad.append(f"{src}: sync -> {a}, async -> {b}")
    return bad


class Lazy(FnTask):
    def __init__(self, name):
        self.fname = name
        FnTask.__init__(self, PROP, f"C09.variant.do_{name}.consumes_input_lazily", None, "bounded", None)
        self.bound_text = f"filter `{name}` fed by a lazy upstream filter whose later items raise, consumed only partially ({len(LAZY_CASES[name])} templates)"

    def run(self, tier, seed):
        bad = lazy_case(self.fname)
        if bad:
            return [Res(self.name, "refuted", "native", 0, bad[0][:400], "bounded", {"filter": self.fname})]
        return [Res(self.name, "bounded-ok", "native", 0, "same outcome", "bounded")]

    def finding_key(self, res):
        return "eager-input:" + (res.witness or {}).get("filter", "")

    def replay(self, w):
        bad = lazy_case(w["filter"])
        return (bool(bad), bad[0] if bad else "agree")


def hunt_tasks():
    ts = [SumVariant(), FnTask(PROP, "C09.variant.result_consumable", consumable_table, "table", consumable_replay), Compose(),
          FnTask(PROP, "C09.loopcontext.inherited_sync_member", async_overrides_table, "table", async_overrides_replay)]
    ts[1].finding_key = lambda res: "async-generator-result:" + (res.witness or {}).get("consumable", "")
    ts[3].finding_key = lambda res: "inherited:" + (res.witness or {}).get("member", "")
    ts += [AwaitableAttr(n) for n in ATTR_CASES] + [Lazy(n) for n in LAZY_CASES]
    return ts


class Relabel(Task):
    """a task of another property module reported under a C09 name (same contract, same replay)"""
    prop = PROP

    def __init__(self, inner, old_prefix, new_prefix):
        self.inner, self.old_prefix, self.new_prefix = inner, old_prefix, new_prefix
        self.kind = inner.kind
        self.name = new_prefix + inner.name[len(old_prefix):] if inner.name.startswith(old_prefix) else new_prefix + inner.name

    def run(self, tier, seed):
        rs = self.inner.run(tier, seed)
        for r in rs:
            if r.name.startswith(self.old_prefix):
                r.name = self.new_prefix + r.name[len(self.old_prefix):]
        return rs

    def finding_key(self, res):
        fk = getattr(self.inner, "finding_key", None)
        return fk(res) if fk else None

    def replay(self, w):
        return self.inner.replay(w)


def loopcontext_tasks():
    """sync / async LoopContext parity: contracts.c07 proves every method of LoopContext AND of AsyncLoopContext against the SAME abstract
    loop (ghost items, position, look-ahead); the async side (__anext__, length, revindex, revindex0, auto_aiter and its wrapper) and its sync
    counterparts are imported here so that C09 decides on its own that `loop.*` reports the same values in both modes."""
    try:
        from contracts import c07
    except Exception as ex:  # noqa
        return [FnTask(PROP, "C09.loopcontext.import", lambda t, tier, seed: [Res("C09.loopcontext.import", "unknown", "pyvc", 0, f"contracts.c07 not importable: {ex}", "vc")], "vc")]
    want = {"C07.async.anext", "C07.async.length", "C07.async.revindex", "C07.async_utils", "C07.next", "C07.length", "C07.revindex", "C07.last", "C07.nextitem", "C07.peek"}
    return [Relabel(t, "C07.", "C09.loopcontext.") for t in c07.TASKS if t.name in want]


TASKS = (
    erase_tasks()
    + loopcontext_tasks()
    + hunt_tasks()
    + [SourceErase()]
    + variant_tasks()
    + [VariantBounded(n) for n in VARIANT_NAMES]
    + [FnTask(PROP, "C09.variant.registry", variant_table, "table", lambda w: (True, "registry differs"))]
    + [DispatchWrapper(n, k) for n in (True, False) for k in (1, 3)]
    + selector_tasks() + [FnTask(PROP, "C09.dispatch.registry", dispatch_table, "table", native_dispatch), AutoAwait()]
    + [entry_task(n) for n in ENTRY]
    + [RenderParity()]
)

META = {
    # proof of mechanism: per-construct obligations are discharged symbolically, but deciding steps include bounded child-list lengths and
    # bounded stand-ins (stated in `assumptions` / bound texts), so the property as a whole is not claimed at level "proof"
    "level": "other",
    "explanation": "Relational emission contract: for every code generator visitor the schemas of the real visitor in async and sync mode are paired over all other "
                   "flags and shown equal up to erase (await / auto_await / auto_aiter / async / AsyncLoopContext / _async / aclose) and the generator-delegation "
                   "rewrite to `yield from`; async filter variants through the contracts of contracts.c22 (both sides satisfy the same contract; delegating twins are "
                   "proved equal to the sync filter on auto_to_list); VCs on the async_variant wrapper and its selectors; relational AST proofs for the entry points "
                   "(render/generate/NativeTemplate.render/BlockReference.__call__/Macro._invoke vs their async twins); bounded stand-ins on the real generated source "
                   "and on rendered output for the end-to-end statement. Mechanisms proved, end-to-end statement argued (DESIGN section 6).",
    "assumptions": [
        "A7: `await` of an awaitable yields its result and is otherwise transparent; async iteration over auto_aiter(x) visits the items of x in order (proved for "
        "_IteratorToAsyncIterator in contracts.c07)",
        "generator delegation `gen = X; try: for e in gen: yield e; finally: gen.close()` is equivalent to `yield from X` (language semantics)",
        "Macro / CallBlock emission is checked for a one-parameter signature; Template / FromImport only through the bounded source-level comparison",
        "the emission engine's summaries of child lists (one generic iteration) are uniform in both modes",
    ],
    "trusted_base": ["pyvc symbolic executor and emission engine", "z3 5.1", "Python ast (parse/unparse) for the erase/normal-form comparison"],
}
