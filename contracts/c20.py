"""C20  Sandbox operator interception sees every intercepted operator application.

Obligations (DESIGN section 5, C20):
  C20.emit.routed.<Class>   emission contract on the real visitor of every arithmetic node class:
                            sandboxed and op in intercepted  =>  environment.call_binop(context, '<op>', L, R)
                            (operands in source order); otherwise the native operator form and no hook call
  C20.nofold.<Class>        as_const raises Impossible under exactly that condition BEFORE evaluating operands
  C20.optimizeconst         the folding wrapper falls through to the visitor when as_const is Impossible and
                            never folds in a volatile frame
  C20.optimizer             Optimizer.generic_visit replaces a node only by Const(as_const(node))
  C20.tables                operator symbol agrees across nodes.<Class>.operator, the visitor's closure constant,
                            the sandbox tables and Python's operator module
  C20.hook.result           call_binop / call_unop return table[op](operands)
"""
from __future__ import annotations

import ast
import operator as pyop
import time
import z3

from pyvc.contract import VC, Res, FnTask
from pyvc.emitcheck import EmitTask
from pyvc import emit, abstract as A
from pyvc.values import Sym, Ref, HObj, HSet, HDict, sym, fresh_name, Exc
from pyvc.smt import to_term

import jinja2.nodes as N
import jinja2.compiler as C
import jinja2.sandbox as SB
from jinja2.optimizer import Optimizer

BIN = {"Add": "+", "Sub": "-", "Mul": "*", "Div": "/", "FloorDiv": "//", "Mod": "%", "Pow": "**"}
UN = {"Neg": "-", "Pos": "+"}
PY_BIN = {"+": ast.Add, "-": ast.Sub, "*": ast.Mult, "/": ast.Div, "//": ast.FloorDiv, "%": ast.Mod, "**": ast.Pow}
PY_UN = {"-": ast.USub, "+": ast.UAdd}
PY_FUNC = {"+": pyop.add, "-": pyop.sub, "*": pyop.mul, "/": pyop.truediv, "//": pyop.floordiv, "%": pyop.mod, "**": pyop.pow}
PY_UFUNC = {"+": pyop.pos, "-": pyop.neg}

SANDBOXED = z3.Bool("environment.sandboxed")


def intercepted(kind, op):
    arr = z3.Const("intercepted_binops" if kind == "bin" else "intercepted_unops", z3.ArraySort(z3.StringSort(), z3.BoolSort()))
    return z3.Select(arr, z3.StringVal(op))


def is_hole(n, ph, path):
    return isinstance(n, ast.Name) and n.id in ph and isinstance(ph[n.id], emit.Hole) and ph[n.id].path == path


def routed_predicate(kind, op):
    hook = "environment.call_binop" if kind == "bin" else "environment.call_unop"
    paths = ["node.left", "node.right"] if kind == "bin" else ["node.node"]

    def pred(sc, tree, ph, txt):
        if sc.outcome == "raise":
            return [f"visitor raises {sc.value!r}"]
        cond = z3.And(SANDBOXED, intercepted(kind, op))
        must_route = sc.holds(cond)
        must_not = sc.holds(z3.Not(cond))
        if not (must_route or must_not):
            return ["path does not decide the interception condition"]
        fails = []
        calls = [n for n in ast.walk(tree) if isinstance(n, ast.Call) and emit.call_name(n) in ("environment.call_binop", "environment.call_unop")]
        if must_route:
            t = tree
            if not (isinstance(t, ast.Call) and emit.call_name(t) == hook):
                return [f"intercepted operator {op!r} is not emitted as a call of {hook}: {txt!r}"]
            a = t.args
            if len(a) != 2 + len(paths) or t.keywords:
                return [f"{hook} called with {len(a)} positional arguments"]
            if not (isinstance(a[0], ast.Name) and a[0].id == "context"):
                fails.append("first argument is not the context")
            if not (isinstance(a[1], ast.Constant) and a[1].value == op):
                fails.append(f"operator argument is {ast.unparse(a[1])}, expected {op!r}")
            for i, p in enumerate(paths):
                if not is_hole(a[2 + i], ph, p):
                    fails.append(f"operand {i} of the hook call is not ⟦{p}⟧ (operands must be passed in source order)")
        else:
            if calls:
                fails.append(f"operator {op!r} is routed through the hook although it is not intercepted: {txt!r}")
            if kind == "bin":
                if not (isinstance(tree, ast.BinOp) and isinstance(tree.op, PY_BIN[op]) and is_hole(tree.left, ph, paths[0]) and is_hole(tree.right, ph, paths[1])):
                    fails.append(f"native form is not ⟦left⟧ {op} ⟦right⟧: {txt!r}")
            else:
                if not (isinstance(tree, ast.UnaryOp) and isinstance(tree.op, PY_UN[op]) and is_hole(tree.operand, ph, paths[0])):
                    fails.append(f"native form is not {op}⟦node⟧: {txt!r}")
        return fails

    return pred


# ---------------------------------------------------------------- native oracle (replay)

def native_interception(w=None):
    """Render templates on a real sandbox that intercepts one operator at a time; the hook must see
    every application (also on constants) with the same operands, others are never routed, and the
    rendered value is the hook's result."""
    from jinja2.sandbox import SandboxedEnvironment
    problems = []
    vals = {"a": 7, "b": 2}
    for kind, table in (("bin", BIN), ("un", UN)):
        for cls, op in table.items():
            for other_cls, other in table.items():
                calls = []

                class Env(SandboxedEnvironment):
                    intercepted_binops = frozenset([op]) if kind == "bin" else frozenset()
                    intercepted_unops = frozenset([op]) if kind == "un" else frozenset()

                    def call_binop(self, context, operator, left, right):
                        calls.append((operator, left, right))
                        return ("HOOK", operator, left, right)

                    def call_unop(self, context, operator, arg):
                        calls.append((operator, arg))
                        return ("HOOK", operator, arg)

                env = Env()
                for operands in (("a", "b"), ("7", "2")):
                    src = "{{ %s %s %s }}" % (operands[0], other, operands[1]) if kind == "bin" else "{{ %s%s }}" % (other, operands[0])
                    del calls[:]
                    try:
                        outp = env.from_string(src).render(**vals)
                    except Exception as ex:
                        problems.append(f"{src} with intercepted {op!r}: raised {type(ex).__name__}: {ex}")
                        continue
                    if other == op:
                        want_call = (op, 7, 2) if kind == "bin" else (op, 7)
                        if calls != [want_call]:
                            problems.append(f"{src} with intercepted {op!r}: hook calls {calls} expected [{want_call}]")
                        elif outp != str(("HOOK",) + want_call):
                            problems.append(f"{src}: rendered {outp!r}, not the hook's result")
                    elif calls:
                        problems.append(f"{src} with intercepted {op!r} only: operator {other!r} was routed: {calls}")
    # default hooks (tables): intercepted result must equal the plain operator's result, also when folded
    for kind, table in (("bin", BIN), ("un", UN)):
        for cls, op in table.items():
            class Env2(SandboxedEnvironment):
                intercepted_binops = frozenset([op]) if kind == "bin" else frozenset()
                intercepted_unops = frozenset([op]) if kind == "un" else frozenset()
            for a, b in ((7, 2), (2, 7), (9, 4)):
                src = "{{ a %s b }}|{{ %d %s %d }}" % (op, a, op, b) if kind == "bin" else "{{ %sa }}|{{ %s%d }}" % (op, op, a)
                want = PY_FUNC[op](a, b) if kind == "bin" else PY_UFUNC[op](a)
                try:
                    got = Env2().from_string(src).render(a=a, b=b)
                    plain = SandboxedEnvironment().from_string(src).render(a=a, b=b)
                except Exception as ex:
                    problems.append(f"{src}: raised {type(ex).__name__}")
                    continue
                if got != f"{want}|{want}" or plain != got:
                    problems.append(f"{src} with a={a}, b={b}: intercepted={got!r} plain={plain!r} python={want!r}")
    return (bool(problems), "; ".join(problems[:3]) or "interception agrees with the property on the template family {a op b, const op const} x all single-operator interception sets")


# ---------------------------------------------------------------- nofold

class NoFold(VC):
    """as_const of an arithmetic node raises Impossible iff (sandboxed and op intercepted), before
    evaluating any operand; otherwise it evaluates the operands and applies the Python operator."""
    prop = "C20"

    def __init__(self, cls_name, kind):
        self.cls_name, self.opkind = cls_name, kind
        self.op = (BIN if kind == "bin" else UN)[cls_name]
        # the as_const the node class actually resolves (an override in the subclass is what runs)
        self.target = f"jinja2.nodes:{cls_name}.as_const"
        super().__init__("C20", f"C20.nofold.{cls_name}")

    def configure(self, I):
        I.inline.add("jinja2.nodes:get_eval_context")
        A.opaque_arithmetic(I)
        I.specs["Expr.as_const"] = A.abstract_fn("child.as_const", returns="obj", raises=[N.Impossible, ("any", Exception)])
        for fn in list(N._binop_to_func.values()) + list(N._uaop_to_func.values()):
            I.specs[("fn", id(fn))] = A.abstract_fn("operator." + fn.__name__, returns="obj", raises=[("any", Exception)])

    def setup(self, I, st):
        g = emit.Gen(st)
        self.g = g
        self.node = emit.make_node(st, getattr(N, self.cls_name), "node")
        return [self.node, g.eval_ctx], {}

    def cond(self):
        return z3.And(SANDBOXED, intercepted(self.opkind, self.op))

    def p_impossible(self, pre, out):
        c = self.cond()
        child_calls = A.calls(out, "child.as_const")
        if out.raised and out.value.cls is N.Impossible and not child_calls:
            # raised before any operand was evaluated: allowed only when intercepted
            return c
        # operands were evaluated (or folded): must not be intercepted
        return z3.Not(c)

    def p_only_impossible(self, pre, out):
        if out.raised:
            return out.value.cls is N.Impossible
        return None

    def p_value(self, pre, out):
        """not intercepted and operands constant => value is the Python operator applied to the
        operand constants in source order"""
        if out.raised:
            return None
        fn = (N._binop_to_func if self.opkind == "bin" else N._uaop_to_func)[self.op]
        evs = A.calls(out, "operator." + fn.__name__)
        kids = A.calls(out, "child.as_const")
        if len(evs) != 1 or out.value is not evs[0].result:
            return False
        fields = ["left", "right"] if self.opkind == "bin" else ["node"]
        if len(kids) != len(fields):
            return False
        nf = out.st.get(self.node).fields
        for i, f in enumerate(fields):
            # operand i of the Python operator is the constant of the i-th child in SOURCE order
            ev = [k for k in kids if k.args and k.args[0] == nf.get(f)]
            if len(ev) != 1 or evs[0].args[i] is not ev[0].result:
                return False
        return True

    posts = [("impossible_iff_intercepted_before_operands", p_impossible), ("raises_only_Impossible", p_only_impossible), ("value", p_value)]

    def replay(self, w):
        return native_interception(w)

    def concretize(self, model, pre, out):
        return {"class": self.cls_name}


# ---------------------------------------------------------------- hook result

class HookResult(VC):
    prop = "C20"

    def __init__(self, which):
        self.which = which
        self.target = f"jinja2.sandbox:SandboxedEnvironment.{which}"
        super().__init__("C20", f"C20.hook.result.{which}")

    def configure(self, I):
        def call_obj(I_, st, args, kwargs, node):
            return A.abstract_fn("table_entry", returns="obj")(I_, st, args, kwargs, node)
        I.specs["call_obj"] = call_obj

    def setup(self, I, st):
        self.opname = sym("operator", "str")
        tbl = A.adict(st, "table", "str", "obj")
        self.tbl = st.get(tbl)
        self.env = A.obj(st, SB.SandboxedEnvironment, "env", fields={"binop_table": tbl, "unop_table": tbl})
        self.l, self.r = sym("left", "obj"), sym("right", "obj")
        self.ctx = sym("context", "obj")
        args = [self.env, self.ctx, self.opname, self.l] + ([self.r] if self.which == "call_binop" else [])
        return args, {}

    def p_result(self, pre, out):
        present = z3.Select(self.tbl.dom, self.opname.t)
        if out.raised:
            return z3.And(z3.Not(present), out.value.cls is KeyError)
        evs = A.calls(out, "table_entry")
        if len(evs) != 1 or out.value is not evs[0].result:
            return False
        a = evs[0].args
        ok = a[1] is self.l and (self.which == "call_unop" or a[2] is self.r) and len(a) == (3 if self.which == "call_binop" else 2)
        return z3.And(present, to_term(a[0], "obj") == z3.Select(self.tbl.val, self.opname.t)) if ok else False

    posts = [("returns_table_entry_applied_to_operands", p_result)]

    def replay(self, w):
        return native_interception(w)

    def concretize(self, model, pre, out):
        return {"hook": self.which}


# ---------------------------------------------------------------- optimizeconst / optimizer

class OptimizeConst(VC):
    """compiler.optimizeconst.new_func: folds only when the frame is not volatile and an optimizer exists; when the
    optimizer returns the node unchanged (as_const Impossible) the real visitor runs."""
    prop = "C20"
    target = "jinja2.compiler:optimizeconst"

    def __init__(self):
        super().__init__("C20", "C20.optimizeconst.new_func")

    def closure(self, I):
        from pyvc import extract
        node, module = extract.nested_function_ast("jinja2.compiler:optimizeconst", "new_func")
        from pyvc.values import Closure
        c = Closure(node, module, [], "optimizeconst.<locals>.new_func")
        self._f = A.abstract_fn("wrapped_visitor", returns=None)
        return c

    def configure(self, I):
        I.specs["CodeGenerator.visit"] = A.abstract_fn("self.visit", returns=None)
        I.specs["Optimizer.visit"] = A.abstract_fn("optimizer.visit", returns="obj")

    def setup(self, I, st):
        g = emit.Gen(st, gen_fields={})
        self.g = g
        self.has_opt = sym("has_optimizer", "bool")
        self.node = emit.make_node(st, N.Add, "node")
        self.opt = A.obj(st, Optimizer, "optimizer")
        return "locals", {"self": g.gen, "node": self.node, "frame": g.frame, "kwargs": st.alloc(HDict(items={})),
                          "f": _Callee("wrapped_visitor")}

    def paths(self, I):
        # two runs: with and without optimizer (self.optimizer is None / an Optimizer)
        from pyvc.values import State
        from pyvc.contract import Outcome
        from pyvc.interp import Raised
        outs = []
        pre0 = None
        for has in (False, True):
            st = State()
            self.configure(I)
            args, local = self.setup(I, st)
            st.get(self.g.gen).fields["optimizer"] = self.opt if has else None
            I.specs[("fn", id(local["f"]))] = A.abstract_fn("wrapped_visitor", returns=None)
            pre = st.fork()
            pre0 = pre0 or pre
            clo = self.closure(I)
            for s, v in I.run_body(st, clo, local):
                o = Outcome(s, "raise" if isinstance(v, Raised) else "return", v.exc if isinstance(v, Raised) else v, len(outs))
                o.has_opt = has
                outs.append(o)
        return pre0, outs

    def p_fold_gate(self, pre, out):
        volatile = z3.Bool("eval_ctx.volatile")
        opt_calls = A.calls(out, "optimizer.visit")
        direct = A.calls(out, "wrapped_visitor")
        revisit = A.calls(out, "self.visit")
        if out.raised:
            return False
        if not out.has_opt:
            return len(opt_calls) == 0 and len(direct) == 1 and not revisit
        if opt_calls:
            # folding attempted: frame must not be volatile; exactly one of {visit(new_node), f(node)} follows
            if len(direct) + len(revisit) != 1:
                return False
            new_node = opt_calls[0].result
            same = to_term(new_node, "obj") == to_term(self.node, "obj")
            if direct:
                return z3.And(z3.Not(volatile), same, direct[0].args[1] == self.node)
            return z3.And(z3.Not(volatile), z3.Not(same), revisit[0].args[1] is new_node)
        return z3.And(volatile, len(direct) == 1 and not revisit)

    posts = [("folds_only_when_not_volatile_and_falls_through", p_fold_gate)]

    def replay(self, w):
        return native_interception(w)

    def concretize(self, model, pre, out):
        return {"optimizeconst": True}


class _Callee:
    def __init__(self, name):
        self.__name__ = name

    def __call__(self, *a, **k):
        raise RuntimeError("abstract")


# ---------------------------------------------------------------- tables

def tables(task, tier, seed):
    rs = []

    def row(name, ok, detail=""):
        rs.append(Res(f"C20.tables.{name}", "discharged" if ok else "refuted", "table", 0, detail, "table", None if ok else {"table": name}))

    for kind, table, sbt, ntab, pyf in (("bin", BIN, SB.SandboxedEnvironment.default_binop_table, N._binop_to_func, PY_FUNC),
                                        ("un", UN, SB.SandboxedEnvironment.default_unop_table, N._uaop_to_func, PY_UFUNC)):
        for cls, op in table.items():
            ncls = getattr(N, cls)
            row(f"{cls}.operator", ncls.operator == op, f"nodes.{cls}.operator = {ncls.operator!r}, documented symbol {op!r}")
            vis = getattr(C.CodeGenerator, f"visit_{cls}")
            inner = getattr(vis, "__wrapped__", vis)
            cell = dict(zip(inner.__code__.co_freevars, [c.cell_contents for c in (inner.__closure__ or ())]))
            row(f"{cls}.visitor_closure", cell.get("op", "").strip() == op, f"CodeGenerator.visit_{cls} closes over op={cell.get('op')!r}")
            row(f"{cls}.sandbox_table", sbt.get(op) is pyf[op], f"default table[{op!r}] = {sbt.get(op)!r}")
            row(f"{cls}.fold_table", ntab.get(op) is pyf[op], f"nodes table[{op!r}] = {ntab.get(op)!r}")
    row("interceptable_sets", set(SB.SandboxedEnvironment.default_binop_table) == set(BIN.values()) and set(SB.SandboxedEnvironment.default_unop_table) == set(UN.values()),
        "the sandbox tables list exactly the documented interceptable operators")
    # logical operators are not interceptable: their as_const must not consult the interception sets
    for cls in ("And", "Or", "Not"):
        ncls = getattr(N, cls)
        row(f"{cls}.not_interceptable", ncls.operator not in SB.SandboxedEnvironment.default_binop_table or cls in ("And", "Or") and "as_const" in ncls.__dict__,
            f"{cls} overrides as_const / is not in the tables")
    return rs


# ---------------------------------------------------------------- the parser step of the lemma (bounded)

OPERAND_FORMS = ["5", "2.5", "'s'", "a", "(5)", "(a)", "a.x", "a[0]", "f(5)", "5|abs", "-5", "+5", "not a", "[5]", "5 if a else 6", "5 ** 2"]


def parser_operator_nodes(task, tier, seed):
    """Every operator application written in a template becomes the operator's node class with the written operands as
    children (the parser neither drops nor pre-evaluates an application): the step between the template text and the
    visitors / as_const methods the proved obligations are about.  Bounded: operators x OPERAND_FORMS (x OPERAND_FORMS)."""
    import jinja2
    t0 = time.time()
    env = jinja2.Environment()
    n, rs = 0, []

    def expr_of(src):
        return env.parse("{{ " + src + " }}").body[0].nodes[0]

    def same(a, b):
        return type(a) is type(b) and a == b

    for cls, op in UN.items():
        for x in OPERAND_FORMS:
            n += 1
            # the operand is written bare where that is one primary expression (so `+5` itself is covered), parenthesised otherwise
            bare = x in ("5", "2.5", "'s'", "a", "(5)", "(a)", "[5]")
            src = f"{op}{x}" if bare else f"{op}({x})"
            got, want_child = expr_of(src), expr_of(f"({x})")
            inner = got.node if type(got) is getattr(N, cls) else None
            ok = inner is not None and same(inner, want_child)
            if not ok:
                rs.append(Res(f"{task.name}.{cls}", "refuted", "bounded", time.time() - t0,
                              f"`{{{{ {src} }}}}` is parsed as {got!r}, not as nodes.{cls} applied to the operand {want_child!r}: the application never reaches visit_{cls} / call_unop",
                              "bounded", {"table": "parser", "source": src}))
                return rs
    for cls, op in BIN.items():
        for x in OPERAND_FORMS[:9]:
            for y in OPERAND_FORMS[:9]:
                n += 1
                src = f"({x}) {op} ({y})"
                got = expr_of(src)
                ok = type(got) is getattr(N, cls) and same(got.left, expr_of(f"({x})")) and same(got.right, expr_of(f"({y})"))
                if not ok:
                    rs.append(Res(f"{task.name}.{cls}", "refuted", "bounded", time.time() - t0,
                                  f"`{{{{ {src} }}}}` is parsed as {got!r}, not as nodes.{cls} of the two written operands", "bounded", {"table": "parser", "source": src}))
                    return rs
    task.stats = {"cases": n}
    rs.append(Res(f"{task.name}.all", "bounded-ok", "bounded", time.time() - t0, f"{n} written applications become their operator node", "bounded"))
    return rs


def native_applications(task, tier, seed):
    """the native oracle of the replays as a bounded check of its own (hook log == applications written)"""
    t0 = time.time()
    bad, msg = native_interception()
    if bad:
        return [Res(f"{task.name}.diverges", "refuted", "bounded", time.time() - t0, msg, "bounded", {"table": "native"})]
    return [Res(f"{task.name}.all", "bounded-ok", "bounded", time.time() - t0, msg, "bounded")]


def shared_bytecode_cache(task, tier, seed):
    """'for every sandboxed environment': also one whose generated code comes out of a bytecode cache that another
    environment (different interception sets) filled - the cache key covers name, filename and source only (C27 finding F19)"""
    from jinja2 import DictLoader
    from jinja2.bccache import BytecodeCache
    t0 = time.time()

    class MemoryCache(BytecodeCache):
        def __init__(self):
            self.store = {}

        def load_bytecode(self, bucket):
            if bucket.key in self.store:
                bucket.bytecode_from_string(self.store[bucket.key])

        def dump_bytecode(self, bucket):
            self.store[bucket.key] = bucket.bytecode_to_string()

    bad = []
    for kind, table in (("bin", BIN), ("un", UN)):
        for cls, op in table.items():
            calls = []

            class Env(SB.SandboxedEnvironment):
                intercepted_binops = frozenset([op]) if kind == "bin" else frozenset()
                intercepted_unops = frozenset([op]) if kind == "un" else frozenset()

                def call_binop(self, context, operator, left, right):
                    calls.append(operator)
                    return "HOOK"

                def call_unop(self, context, operator, arg):
                    calls.append(operator)
                    return "HOOK"

            src = "{{ a %s b }}" % op if kind == "bin" else "{{ %sa }}" % op
            loader, cache = DictLoader({"t": src}), MemoryCache()
            SB.SandboxedEnvironment(loader=loader, bytecode_cache=cache).get_template("t").render(a=7, b=2)
            out = Env(loader=loader, bytecode_cache=cache).get_template("t").render(a=7, b=2)
            if out != "HOOK" or calls != [op]:
                bad.append(f"{src} (intercepting {op!r}) rendered {out!r} with hook calls {calls}")
    if bad:
        return [Res(f"{task.name}.diverges", "refuted", "bounded", time.time() - t0,
                    f"code cached by a sandboxed environment WITHOUT interception is executed by one that intercepts the operator: {bad[0]} ({len(bad)} of {len(BIN) + len(UN)} operators)",
                    "bounded", {"table": "shared_bytecode_cache"})]
    return [Res(f"{task.name}.all", "bounded-ok", "bounded", time.time() - t0, "interception also holds for code taken from a shared bytecode cache", "bounded")]


def replay_shared_cache(w=None):
    rs = shared_bytecode_cache(type("T", (), {"name": "C20.bounded.shared_bytecode_cache"})(), "quick", 0)
    return (rs[0].status == "refuted", rs[0].detail)


shared_cache = FnTask("C20", "C20.bounded.shared_bytecode_cache", shared_bytecode_cache, "bounded", replay_shared_cache)
shared_cache.bound_text = "every interceptable operator: template first loaded by a non-intercepting sandboxed environment, then by an intercepting one sharing the bytecode cache"
shared_cache.finding_key = lambda res: "F19:cache-key-ignores-interception-sets"

parser_nodes = FnTask("C20", "C20.bounded.parser_operator_nodes", parser_operator_nodes, "bounded", native_interception)
parser_nodes.bound_text = ("16 operand forms per unary operator, 9 x 9 parenthesised operand forms per binary operator, parsed by the real Parser: "
                           "the node is the operator's class with the written operands (stands in for a contract on Parser.parse_unary / parse_math* / "
                           "parse_pow, which C02.parser.precedence proves for precedence but not for 'no application is dropped')")
applications = FnTask("C20", "C20.bounded.applications", native_applications, "bounded", native_interception)
applications.bound_text = ("every interceptable operator x every single-operator interception set x operands {variables, literals}: the hooks see exactly the "
                           "applications written, with the written operands, and the rendered value is the hook's result")

TASKS = (
    [parser_nodes, applications, shared_cache] +
    [EmitTask("C20", f"C20.emit.routed.{cls}", f"jinja2.compiler:CodeGenerator.visit_{cls}", getattr(N, cls), routed_predicate("bin", op), replay_fn=native_interception, min_paths=2) for cls, op in BIN.items()]
    + [EmitTask("C20", f"C20.emit.routed.{cls}", f"jinja2.compiler:CodeGenerator.visit_{cls}", getattr(N, cls), routed_predicate("un", op), replay_fn=native_interception, min_paths=2) for cls, op in UN.items()]
    + [NoFold(cls, "bin") for cls in BIN] + [NoFold(cls, "un") for cls in UN]
    + [HookResult("call_binop"), HookResult("call_unop"), OptimizeConst()]
    + [FnTask("C20", "C20.tables", tables, "table", native_interception)]
)

META = {
    "level": "proof",
    "explanation": "Emission contracts on the real visitors of all interceptable operators (symbolic sandboxed / intercepted flags), "
                   "VCs on BinExpr/UnaryExpr.as_const (no folding of intercepted operators, Impossible raised before operands are "
                   "evaluated), on the folding wrapper and the hook methods, plus exhaustive table agreement. Lemma: every application "
                   "that the parser turned into its operator node reaches its visitor unfolded and is emitted as a hook call whose value is "
                   "the expression's value. The parser step (a written application becomes that node, none is dropped or pre-evaluated) is "
                   "NOT proved: it is the bounded stand-in C20.bounded.parser_operator_nodes (added after seed C20_SEED_3, which folded `+literal` "
                   "in Parser.parse_unary); C20.bounded.applications runs the native oracle end to end.",
    "assumptions": ["A6 subclasses overriding call_binop/call_unop are called through this contract",
                    "parser: operator applications become operator nodes - bounded check only (operators x operand forms), not a proof",
                    "the emitted Python operator form means Python's operator (trusted)",
                    "children's as_const / visit are used through abstract contracts (modular)"],
    "trusted_base": ["pyvc emission engine (symbolic execution of CodeGenerator methods)", "z3 5.1"],
}
