"""C06 compiler side: the emitted macro function takes its parameters in the order Macro.__call__ builds them,
and the parser aligns defaults with the trailing parameters.

Functions under contract (real source, run symbolically): CodeGenerator.macro_body, macro_def, visit_Macro,
visit_CallBlock, Parser.parse_signature.

Shape bound of the macro_body runs (stated): the macro node has a CONCRETE list of n <= 3 parameters (CallBlock: n <= 2)
and d <= n defaults; parameter names, body, defaults and the read-sets of the body are symbolic; is_async is fixed per
task.  (macro_body appends to local lists inside its loops, which the star-summarisation of the emission engine cannot
abstract; hence the bound on n.)  parse_signature is proved for parameter lists of arbitrary length (loop invariant).

  C06.emit.order      (macro_body) def macro(<declared params in order>, [caller], [kwargs], [varargs]) and the MacroRef flags:
                      accesses_caller iff `caller` is read undeclared in the body; the implicit caller parameter is declared
                      iff that holds and no explicit `caller` parameter exists; kwargs/varargs declared (and flagged) iff read
                      undeclared and not shadowed by a declared parameter of that name -- exactly the list Macro.__call__
                      builds from (arguments, caller, catch_kwargs, catch_varargs)
  C06.emit.defaults   (macro_body) default k of d belongs to parameter n-d+k, emitted as `if p is missing: p = <default>` in
                      parameter order, evaluated in the macro's own frame after the earlier parameters are stored; a
                      parameter without default becomes undefined(..., name=<its name>); an explicit caller without default
                      is rejected
  C06.emit.macro_def  Macro(environment, macro, name, (names...), accesses_kwargs, accesses_varargs, accesses_caller, autoescape)
                      matches the parameter order of runtime.Macro.__init__
  C06.emit.visit_Macro / visit_CallBlock   the Macro object built from macro_body's (frame, macro_ref) is bound to the
                      macro's name (exported at top level unless private) / to `caller`, which the call block forwards
  C06.parse_signature defaults align with the trailing parameters; a non-default after a default is rejected
"""
from __future__ import annotations

import ast
import inspect
import itertools
import time
import z3

from pyvc.contract import Res, FnTask, Task, VC
from pyvc.emitcheck import EmitTask
from pyvc import emit
from pyvc.values import HList, HObj, Unsupported, Sym, Ref, Event, Exc, State, fresh, fresh_name, sym, Obj
from pyvc.interp import Raised
from pyvc.stmts import LoopSpec
from pyvc.smt import to_term, model_value, check_sat
from pyvc import abstract as A

import jinja2.nodes as N
import jinja2.compiler as C
import jinja2.runtime as R
import jinja2.lexer as L
import jinja2.parser as P
from jinja2.exceptions import TemplateAssertionError, TemplateSyntaxError


# ------------------------------------------------------------------------------------------- native oracle

def native_macros(w=None):
    """Native oracle: macro calling rules on a family of real templates (defaults referring to earlier
    parameters, implicit caller/kwargs/varargs, explicit caller, call blocks with parameters, module calls)."""
    import jinja2
    problems = []
    cases = [
        ("{% macro m(a, b=a, c=b) %}{{ a }}|{{ b }}|{{ c }}{% endmacro %}{{ m(1) }};{{ m(1, 2) }};{{ m(1, c=3) }}", "1|1|1;1|2|2;1|1|3"),
        ("{% macro m(a, b, c=3, d=4) %}{{ a }}{{ b }}{{ c }}{{ d }}{% endmacro %}{{ m(1, 2) }};{{ m(1, 2, 5) }};{{ m(1, 2, d=6) }}", "1234;1254;1236"),
        ("{% macro m(a, b=2) %}{{ a }}{{ b }}{% endmacro %}{{ m(b=1, a=0) }}", "01"),
        ("{% macro m(a) %}{{ a }}{{ varargs }}{{ kwargs }}{% endmacro %}{{ m(1, 2, 3, x=4) }}", "1(2, 3){'x': 4}"),
        ("{% macro m(a) %}{{ a }}{{ kwargs }}{{ varargs }}{% endmacro %}{{ m(1, 2, 3, x=4) }}", "1{'x': 4}(2, 3)"),
        ("{% macro m(a) %}{{ a }}{% endmacro %}{{ m() }}|", "|"),
        ("{% macro m(a, b=2) %}{{ caller() }}{{ a }}{{ b }}{% endmacro %}{% call m(1) %}C{% endcall %}", "C12"),
        ("{% macro m(a) %}{{ caller() }}{{ kwargs }}{{ varargs }}{% endmacro %}{% call m(1, 2, k=3) %}C{% endcall %}", "C{'k': 3}(2,)"),
        ("{% macro m(a) %}{{ caller(a, 5) }}{% endmacro %}{% call(x, y=7, z=8) m(1) %}{{ x }}{{ y }}{{ z }}{% endcall %}", "158"),
        ("{% macro m(a, caller=none) %}{{ a }}{{ caller }}{% endmacro %}{{ m(1) }}", "1None"),
        ("{% macro m(caller=None, b=1) %}{{ caller }}|{{ b }}{% endmacro %}{{ m(5) }}", "5|1"),
        ("{% macro m(kwargs) %}{{ kwargs }}{% endmacro %}{{ m(7) }}", "7"),
        ("{% macro m(varargs) %}{{ varargs }}{% endmacro %}{{ m(7) }}", "7"),
        ("{% set o = 9 %}{% macro m(a=o) %}{{ a }}{% endmacro %}{{ m() }}{{ m(1) }}", "91"),
        ("{% macro m(a, b=a ~ 'x') %}{{ b }}{% endmacro %}{{ m('q') }}", "qx"),
    ]
    for is_async in (False, True):
        env = jinja2.Environment(enable_async=is_async)
        for src, want in cases:
            try:
                got = env.from_string(src).render()
            except Exception as ex:
                got = f"{type(ex).__name__}: {ex}"
            if got != want:
                problems.append(f"{src!r} (async={is_async}): got {got!r}, documented {want!r}")
        for src, exc in [("{% macro m(a) %}{{ a }}{% endmacro %}{{ m(1, 2) }}", TypeError), ("{% macro m(a) %}{{ a }}{% endmacro %}{{ m(1, x=2) }}", TypeError),
                         ("{% macro m(a) %}{{ a }}{{ kwargs }}{% endmacro %}{{ m(1, 2) }}", TypeError), ("{% macro m(a) %}{{ a }}{{ varargs }}{% endmacro %}{{ m(1, x=2) }}", TypeError),
                         ("{% macro m(caller) %}{{ caller() }}{% endmacro %}", jinja2.TemplateAssertionError),
                         ("{% macro m(a=1, b) %}{% endmacro %}", jinja2.TemplateSyntaxError)]:
            try:
                env.from_string(src).render()
                problems.append(f"{src!r} (async={is_async}): no {exc.__name__}")
            except exc:
                pass
            except Exception as ex:
                problems.append(f"{src!r} (async={is_async}): {type(ex).__name__} instead of {exc.__name__}")
    # the flags the runtime object carries
    env = jinja2.Environment()
    try:
        problems += _module_flags(env)
    except Exception as ex:  # noqa
        problems.append(f"module with macros p/k/v/c/s cannot be built: {type(ex).__name__}: {ex}")
    return (bool(problems), "; ".join(problems[:3]) or "macro calling template family agrees with the documented rules")


def _module_flags(env):
    problems = []
    mod = env.from_string("{% macro p(a) %}{{ a }}{% endmacro %}{% macro k(a) %}{{ kwargs }}{% endmacro %}{% macro v(a) %}{{ varargs }}{% endmacro %}"
                          "{% macro c(a) %}{{ caller() }}{% endmacro %}{% macro s(kwargs, varargs) %}{{ kwargs }}{{ varargs }}{% endmacro %}").module
    flags = {nm: (getattr(mod, nm).catch_kwargs, getattr(mod, nm).catch_varargs, getattr(mod, nm).caller) for nm in "pkvcs"}
    want = {"p": (False, False, False), "k": (True, False, False), "v": (False, True, False), "c": (False, False, True), "s": (False, False, False)}
    if flags != want:
        problems.append(f"(catch_kwargs, catch_varargs, caller) of module macros: {flags}, documented {want}")
    try:
        if mod.p(1) != "1" or mod.k(1, x=2) != "{'x': 2}" or mod.v(1, 2) != "(2,)":
            problems.append("calling module macros from Python differs from template calls")
    except Exception as ex:
        problems.append(f"calling module macros from Python: {type(ex).__name__}: {ex}")
    priv = env.from_string("{% macro _p() %}x{% endmacro %}{% macro q() %}y{% endmacro %}").module
    if hasattr(priv, "_p") or not hasattr(priv, "q"):
        problems.append("module exports: private macro exported / public macro missing")
    return problems


# ------------------------------------------------------------------------------------------- engine configuration

def _marker(name):
    def h(I_, st, args, kwargs, node):
        st.trace.append(Event("call", name, args[1:], kwargs, None, lineno=getattr(node, "lineno", None)))
        return [(st, None)]
    return h


def configure_macro_body(I):
    """push/pop_parameter_definitions and mark_parameter_stored only keep the book for visit_Name's
    "parameter not yet stored" check (their effect on what visit_Name emits is C02's concern): abstract
    callees that leave an event; every self.visit(child, frame) additionally records the frame it was given."""
    for nm in ("push_parameter_definitions", "pop_parameter_definitions", "mark_parameter_stored"):
        I.specs[f"CodeGenerator.{nm}"] = _marker(nm)
    base_visit = I.specs["CodeGenerator.visit"]

    def visit_spec(I_, st, args, kwargs, node):
        st.trace.append(Event("call", "visit", list(args[1:]), kwargs, None, lineno=getattr(node, "lineno", None)))
        return base_visit(I_, st, args, kwargs, node)

    I.specs["CodeGenerator.visit"] = visit_spec


SPECIAL = ("caller", "kwargs", "varargs")


class MacroBody(Task):
    kind = "emission"

    def __init__(self, n, d, node_cls_name="Macro", is_async=False, body="abstract", thorough_only=False):
        self.n, self.d, self.cls_name, self.is_async, self.body_mode = n, d, node_cls_name, is_async, body
        self.thorough_only = thorough_only
        self.prop = "C06"
        self.tag = f"[{node_cls_name},n={n},d={d},{'async' if is_async else 'sync'}{',body=1' if body == 'one' else ''}]"
        self.name = "C06.emit.macro_body" + self.tag
        self.bound_text = "parameter list length n <= 3 (concrete list; CallBlock n <= 2), names/defaults/body/read-sets symbolic"

    def replay(self, w):
        return native_macros(w)

    def finding_key(self, res):
        return (res.detail or "").split(": ", 1)[-1][:80]

    def run(self, tier, seed):
        t0 = time.time()
        n, d = self.n, self.d
        cls = getattr(N, self.cls_name)

        def fields(st):
            args = [emit.make_node(st, N.Name, f"node.args[{i}]") for i in range(n)]
            defs = [emit.make_node(st, N.Expr, f"node.defaults[{i}]", kind="expr") for i in range(d)]
            self.arg_refs, self.def_refs = args, defs
            f = {"args": st.alloc(HList(items=args), initial=True), "defaults": st.alloc(HList(items=defs), initial=True)}
            if self.body_mode == "one":
                # a body of exactly one (arbitrary) statement instead of an abstract statement list: halves the paths
                f["body"] = st.alloc(HList(items=[emit.make_node(st, N.Stmt, "node.body[0]", kind="stmt")]), initial=True)
            return f

        def pre(st, g, nd):
            # requires: parameter names pairwise distinct (the parser's obligation, C01)
            nms = [st.get(r) for r in self.arg_refs]
            terms = []
            for h in nms:
                v = h.lazy["name"](st, f"{h.path}.name")
                h.fields["name"] = v
                terms.append(v.t)
            for i in range(n):
                for j in range(i + 1, n):
                    st.assume(terms[i] != terms[j])

        try:
            scs, I = emit.run_visitor("jinja2.compiler:CodeGenerator.macro_body", cls, buffer=None, node_fields=fields,
                                      configure=configure_macro_body, env_fields={"is_async": self.is_async}, pre=pre)
        except Unsupported as ex:
            return [Res(self.name + ".engine", "unknown", "pyvc-emit", time.time() - t0, f"unsupported: {ex}", self.kind)]
        res = []
        for i, sc in enumerate(scs):
            t1 = time.time()
            allf = self.check(sc)
            split = {"order": [f_ for f_ in allf if not f_.startswith("[defaults] ")], "defaults": [f_[11:] for f_ in allf if f_.startswith("[defaults] ")]}
            for clause, fails in split.items():
                nm = f"C06.emit.{clause}{self.tag}#p{i}"
                if fails:
                    res.append(Res(nm, "refuted", "pyvc-emit", time.time() - t1, f"schema `{sc.describe()[:260]}`: " + "; ".join(fails[:3]), self.kind,
                                   witness={"schema": sc.describe()[:400], "n": n, "d": d, "path_condition": [str(c)[:80] for c in sc.pc][:12]}))
                else:
                    res.append(Res(nm, "discharged", "pyvc-emit", time.time() - t1, "", self.kind))
        if not res:
            res.append(Res(self.name + ".paths", "error", "pyvc-emit", 0, "no paths", self.kind))
        return res

    # ---- the predicate ---------------------------------------------------------------------------------
    def check(self, sc):
        n, d = self.n, self.d
        st = sc.st
        names = [st.get(r).fields.get("name") for r in self.arg_refs]

        def class_term(i, c_):
            t = names[i].t
            return t == z3.StringVal(c_) if c_ != "other" else z3.And(*[t != z3.StringVal(s) for s in SPECIAL])

        def feasible_classes(i):
            """the classes 'caller' | 'kwargs' | 'varargs' | 'other' parameter i can have on this path"""
            for c_ in SPECIAL + ("other",):
                if sc.holds(class_term(i, c_)):
                    return [c_]
            return [c_ for c_ in SPECIAL + ("other",) if not sc.holds(z3.Not(class_term(i, c_)))]

        # a path that does not look at a name's class (e.g. kwargs-or-varargs when the body reads neither) is checked
        # under every class assignment it admits
        options = [feasible_classes(i) for i in range(n)]
        if all(len(o) == 1 for o in options):
            return self.check_classes(sc, names, [o[0] for o in options])
        fails = []
        for combo in itertools.product(*options):
            extra = [class_term(i, c_) for i, c_ in enumerate(combo)]
            if check_sat(sc.pc + extra, 2000, 0, use_cvc5=False).status == "unsat":
                continue
            sub = emit.Schema(sc.pieces, sc.pc + extra, sc.notes, sc.outcome, sc.st)
            sub.value, sub.node, sub.gen = sc.value, sc.node, sc.gen
            fails += self.check_classes(sub, names, list(combo))
        return fails

    def check_classes(self, sc, names, classes):
        n, d = self.n, self.d
        st = sc.st
        und = [e for e in st.trace if e.kind == "call" and e.name == "find_undeclared"]
        if len(und) != 1:
            return [f"the body is analysed {len(und)} times for undeclared special names"]
        body = st.get(sc.node).fields.get("body")
        if not (und[0].args and und[0].args[0] == body and sorted(und[0].args[1]) == sorted(SPECIAL)):
            return ["find_undeclared is not asked for exactly (caller, kwargs, varargs) in node.body"]
        undeclared = st.get(und[0].result)

        def reads(s):
            t = z3.Select(undeclared.dom, z3.StringVal(s))
            if sc.holds(t):
                return True
            if sc.holds(z3.Not(t)):
                return False
            return None

        r_caller = reads("caller")
        explicit = [i for i in range(n) if classes[i] == "caller"]
        if sc.outcome == "raise":
            # the only rejection: an explicit caller parameter without default while caller is read in the body
            if sc.value.cls is not TemplateAssertionError:
                return [f"macro_body raises {sc.value!r}"]
            ok = r_caller is True and explicit and explicit[0] < n - d
            return [] if ok else ["rejected a macro although its explicit caller has a default / caller is not used"]
        r_kwargs, r_varargs = reads("kwargs"), reads("varargs")
        if None in (r_caller, r_kwargs, r_varargs):
            return ["path does not decide which special names the body reads"]
        if r_caller and explicit and explicit[0] < n - d:
            return ["explicit `caller` parameter without default accepted although the body calls caller()"]
        fails = []
        txt, ph = sc.texts()[0]
        try:
            tree = emit.parse_stmts(txt)
        except SyntaxError as ex:
            return [f"emitted macro function does not parse: {ex.msg}: {txt[:200]!r}"]
        top = tree.body
        if not (top and isinstance(top[0], (ast.FunctionDef, ast.AsyncFunctionDef)) and top[0].name == "macro"):
            return ["no `def macro` emitted"]
        fn = top[0]
        if isinstance(fn, ast.AsyncFunctionDef) is not bool(self.is_async):
            fails.append("macro function is async iff the environment is")
        params = [a.arg for a in fn.args.args]
        if fn.args.vararg or fn.args.kwarg or fn.args.kwonlyargs or fn.args.defaults or fn.args.posonlyargs:
            fails.append("macro function must take plain positional parameters")
        ref_events = [e for e in st.trace if e.kind == "call" and e.name == "symbols.ref"]
        decl_events = [e for e in st.trace if e.kind == "call" and e.name == "symbols.declare_parameter"]
        inner = [e for e in st.trace if e.kind == "call" and e.name == "frame.inner"]
        term_of = {k: str(v[1]) for k, v in ph.items() if isinstance(v, tuple) and v[0] == "ident"}
        got = [term_of.get(p, p) for p in params]
        # expected: refs of the declared parameters in order (first n ref events), then the special parameters
        if len(ref_events) != 2 * n:
            fails.append(f"{len(ref_events)} symbol references for {n} parameters (expected one per parameter in the signature and one per default block)")
            return fails
        want = [str(e.result.t) for e in ref_events[:n]]
        for i, e in enumerate(ref_events[:n]):
            if e.args[0] is not names[i]:
                fails.append(f"parameter {i} of the function is not the reference of node.args[{i}].name")
        flags = sc.value  # (frame, macro_ref)
        if not (isinstance(flags, tuple) and len(flags) == 2 and isinstance(flags[1], Ref) and st.get(flags[1]).cls is C.MacroRef):
            return ["macro_body does not return (frame, MacroRef)"]
        if len(inner) != 1 or flags[0] != inner[0].result:
            fails.append("the frame returned is not the macro's own inner frame")
        mref = st.get(flags[1]).fields
        if mref.get("node") != sc.node:
            fails.append("MacroRef does not refer to the macro node")
        want_caller_param = bool(r_caller) and not explicit
        want_kwargs = bool(r_kwargs) and "kwargs" not in classes
        want_varargs = bool(r_varargs) and "varargs" not in classes
        wanted = [nm for w_, nm in ((want_caller_param, "caller"), (want_kwargs, "kwargs"), (want_varargs, "varargs")) if w_]
        specials = []
        for nm in wanted:
            ev = [e for e in decl_events if e.args and e.args[0] == nm]
            if len(ev) != 1:
                fails.append(f"special parameter {nm} should be declared exactly once")
            else:
                specials.append(str(ev[0].result.t))
        extra_decl = [e.args[0] for e in decl_events if e.args[0] not in wanted]
        if extra_decl:
            fails.append(f"special parameters declared although not wanted: {extra_decl}")
        if got != want + specials:
            fails.append(f"parameter order {got} differs from declared params + [caller][kwargs][varargs] = {want + specials}")
        if mref.get("accesses_caller", False) is not bool(r_caller):
            fails.append(f"accesses_caller={mref.get('accesses_caller')} but body reads caller undeclared: {r_caller}")
        if mref.get("accesses_kwargs", False) is not want_kwargs:
            fails.append(f"accesses_kwargs={mref.get('accesses_kwargs')} expected {want_kwargs}")
        if mref.get("accesses_varargs", False) is not want_varargs:
            fails.append(f"accesses_varargs={mref.get('accesses_varargs')} expected {want_varargs}")
        n_order = len(fails)
        # defaults: `if p is missing: p = <default>` in parameter order, first thing in the function body
        ifs = [s for s in fn.body if isinstance(s, ast.If) and isinstance(s.test, ast.Compare) and isinstance(s.test.ops[0], ast.Is)
               and isinstance(s.test.comparators[0], ast.Name) and s.test.comparators[0].id == "missing"]
        first_hole = next((k for k, s in enumerate(fn.body) if isinstance(s, ast.Expr) and emit.is_hole_name(s.value)), len(fn.body))
        if len(ifs) != n:
            fails.append(f"{len(ifs)} `if p is missing` blocks for {n} parameters")
            return fails[:n_order] + ["[defaults] " + f_ for f_ in fails[n_order:]]
        if any(fn.body.index(s) > first_hole for s in ifs):
            fails.append("a default block comes after the macro body")
        visits = {id(e): e for e in st.trace if e.kind == "call" and e.name == "visit"}
        order = [e for e in st.trace if e.kind == "call" and e.name in ("visit", "mark_parameter_stored", "push_parameter_definitions", "pop_parameter_definitions")]
        for i, s in enumerate(ifs):
            tgt = term_of.get(getattr(s.test.left, "id", None))
            ev = ref_events[n + i]
            if str(ev.result.t) != tgt or ev.args[0] is not names[i]:
                fails.append(f"default block {i} does not test parameter {i}")
            if s.orelse or len(s.body) != 1 or not isinstance(s.body[0], ast.Assign):
                fails.append(f"default block {i} is not a single assignment")
                continue
            asg = s.body[0]
            if not (len(asg.targets) == 1 and isinstance(asg.targets[0], ast.Name) and term_of.get(asg.targets[0].id) == tgt):
                fails.append(f"default block {i} does not assign the parameter it tests")
            if i >= n - d:
                k = i - (n - d)
                v = asg.value
                if not (isinstance(v, ast.Name) and v.id in ph and isinstance(ph[v.id], emit.Hole) and ph[v.id].path == f"node.defaults[{k}]"):
                    fails.append(f"parameter {i} should take default {k} (defaults align with the trailing parameters)")
            else:
                v = asg.value
                if not (isinstance(v, ast.Call) and emit.call_name(v) == "undefined"):
                    fails.append(f"parameter {i} has no default and should become undefined(...)")
                else:
                    kw = {k_.arg: k_.value for k_ in v.keywords}
                    nmv = kw.get("name")
                    key = f"'{nmv.value}'" if isinstance(nmv, ast.Constant) and isinstance(nmv.value, str) else None
                    if not (key in ph and ph[key][0] == "repr" and str(ph[key][1]) == str(names[i].t)):
                        fails.append(f"undefined value of parameter {i} does not carry the parameter's name")
        # defaults are evaluated in the macro's frame, each after the earlier parameters were marked stored
        seq = []
        for e in order:
            if e.name == "visit" and e.args and e.args[0] in self.def_refs:
                seq.append(("default", self.def_refs.index(e.args[0]), e.args[1] if len(e.args) > 1 else None))
            elif e.name == "mark_parameter_stored":
                seq.append(("stored", str(e.args[0].t) if isinstance(e.args[0], Sym) else None, None))
            elif e.name != "visit":
                seq.append((e.name, None, None))
        exp = [("push_parameter_definitions", None, None)]
        for i in range(n):
            if i >= n - d:
                exp.append(("default", i - (n - d), flags[0]))
            exp.append(("stored", str(ref_events[n + i].result.t), None))
        exp.append(("pop_parameter_definitions", None, None))
        if seq != exp:
            fails.append("defaults are not evaluated in parameter order in the macro's frame with each earlier parameter marked stored "
                         f"(got {[(a, b) for a, b, _ in seq]}, expected {[(a, b) for a, b, _ in exp]}; frames {'agree' if [c for _, _, c in seq] == [c for _, _, c in exp] else 'differ'})")
        fails = fails[:n_order] + ["[defaults] " + f_ for f_ in fails[n_order:]]
        # the body is visited in the macro's frame after the defaults, and its buffer is returned unescaped
        rets = [s for s in fn.body if isinstance(s, ast.Return)]
        if not (len(rets) == 1 and isinstance(rets[0].value, ast.Call) and emit.call_name(rets[0].value) == "concat"):
            fails.append("macro function does not return concat(<buffer>) (Macro._invoke applies the escaping)")
        return fails


# ------------------------------------------------------------------------------------------- macro_def

def macro_def_table(task, tier, seed):
    """macro_def passes (accesses_kwargs, accesses_varargs, accesses_caller) in the positions of
    Macro.__init__'s (catch_kwargs, catch_varargs, caller)."""
    rs = []
    sig = list(inspect.signature(R.Macro.__init__).parameters)
    ok_sig = sig[:9] == ["self", "environment", "func", "name", "arguments", "catch_kwargs", "catch_varargs", "caller", "default_autoescape"]
    rs.append(Res("C06.emit.macro_def.init_signature", "discharged" if ok_sig else "refuted", "table", 0, f"Macro.__init__ parameters: {sig}", "table", None if ok_sig else {"table": "Macro.__init__"}))
    from pyvc.engine import Interp
    from pyvc import extract
    for cls in (N.Macro, N.CallBlock):
        for n in (0, 1, 2, 3):
            I = Interp()
            emit.install(I)
            st = State()
            g = emit.Gen(st)
            margs = [emit.make_node(st, N.Name, f"node.args[{i}]") for i in range(n)]
            node = emit.make_node(st, cls, "node", fields={"args": st.alloc(HList(items=margs), initial=True)})
            flags = {k: emit.sym(k, "bool") for k in ("accesses_caller", "accesses_kwargs", "accesses_varargs")}
            mref = st.alloc(HObj(C.MacroRef, fields=dict(flags, node=node)), initial=True)
            clo = I.closure_of_function(extract.resolve("jinja2.compiler:CodeGenerator.macro_def"))
            tag = f"C06.emit.macro_def[{cls.__name__},n={n}]"
            try:
                results = I.call_closure(st, clo, [g.gen, mref, g.frame], {})
            except Unsupported as ex:
                rs.append(Res(f"{tag}.engine", "unknown", "pyvc-emit", 0, str(ex), "emission"))
                continue
            for i, (s, v) in enumerate(results):
                sc = emit.Schema(list(s.ghost.get("out", [])), list(s.pc), [], "raise" if isinstance(v, Raised) else "return", s)
                txt, ph = sc.texts()[0]
                fails = []
                t = None
                if isinstance(v, Raised):
                    fails.append(f"raises {v.exc!r}")
                else:
                    try:
                        t = emit.parse_expr(txt)
                    except SyntaxError:
                        fails.append(f"does not parse: {txt!r}")
                if t is not None:
                    if not (isinstance(t, ast.Call) and emit.call_name(t) == "Macro" and len(t.args) == 8 and not t.keywords):
                        fails.append(f"not Macro(...) with 8 positional arguments: {txt!r}")
                    else:
                        a = t.args
                        if not (isinstance(a[0], ast.Name) and a[0].id == "environment" and isinstance(a[1], ast.Name) and a[1].id == "macro"):
                            fails.append("first arguments are not (environment, macro)")
                        # the name: repr(node.name) for a Macro, None for a call block
                        if cls is N.Macro:
                            key = f"'{a[2].value}'" if isinstance(a[2], ast.Constant) and isinstance(a[2].value, str) else None
                            if not (key in ph and ph[key][0] == "repr" and str(ph[key][1]) == "node.name"):
                                fails.append("argument 2 is not the macro's name")
                        elif not (isinstance(a[2], ast.Constant) and a[2].value is None):
                            fails.append("a call block's macro has no name (None)")
                        if not (isinstance(a[3], ast.Tuple) and len(a[3].elts) == n):
                            fails.append(f"argument tuple has {len(getattr(a[3], 'elts', []))} names for {n} parameters")
                        else:
                            for j, el in enumerate(a[3].elts):
                                key = f"'{el.value}'" if isinstance(el, ast.Constant) and isinstance(el.value, str) else None
                                if not (key in ph and ph[key][0] == "repr" and str(ph[key][1]) == f"node.args[{j}].name"):
                                    fails.append(f"element {j} of the argument tuple is not the name of parameter {j}")
                        # flags are rendered through repr(): symbolic bools show as If(flag,'True','False') placeholders
                        order = [str(ph.get(x.id, ("", ""))[1]) if isinstance(x, ast.Name) else ast.unparse(x) for x in a[4:7]]
                        want = ["accesses_kwargs", "accesses_varargs", "accesses_caller"]
                        if not all(w in o and not any(w2 in o for w2 in want if w2 != w) for w, o in zip(want, order)):
                            fails.append(f"flag arguments {order} are not (accesses_kwargs, accesses_varargs, accesses_caller)")
                        if ast.unparse(a[7]) != "context.eval_ctx.autoescape":
                            fails.append("default autoescape argument is not context.eval_ctx.autoescape")
                rs.append(Res(f"{tag}#p{i}", "refuted" if fails else "discharged", "pyvc-emit", 0, "; ".join(fails), "emission",
                              {"schema": txt} if fails else None))
    return rs


# ------------------------------------------------------------------------------------------- visit_Macro / visit_CallBlock

def configure_modular(I):
    """macro_body / macro_def through their contracts (proved above): macro_body writes the function `macro` and
    returns (its frame, a MacroRef of the node); macro_def writes the Macro(...) expression for that MacroRef."""
    def macro_body(I_, st, args, kwargs, node):
        self, nd, frame = args[0], args[1], args[2]
        fr = st.alloc(HObj(C.Frame, fields=dict(st.get(frame).fields), path="macro_frame"))
        mr = st.alloc(HObj(C.MacroRef, fields={"node": nd}, path="macro_ref"))
        st.trace.append(Event("call", "macro_body", [nd, frame], {}, (fr, mr)))
        out = []
        for s, _ in I_.call_method(st, self, "writeline", ["__macro_body__()"], {}, node):
            out.append((s, (fr, mr)))
        return out

    def macro_def(I_, st, args, kwargs, node):
        self = args[0]
        st.trace.append(Event("call", "macro_def", list(args[1:]), {}, None))
        return [(s, None) for s, _ in I_.call_method(st, self, "write", ["__macro_def__()"], {}, node)]

    I.specs["CodeGenerator.macro_body"] = macro_body
    I.specs["CodeGenerator.macro_def"] = macro_def


def _def_follows_body(sc):
    body = [e for e in sc.st.trace if e.kind == "call" and e.name == "macro_body"]
    mdef = [e for e in sc.st.trace if e.kind == "call" and e.name == "macro_def"]
    if len(body) != 1 or len(mdef) != 1:
        return ["macro_body and macro_def are not each called exactly once"]
    fr, mr = body[0].result
    if body[0].args[0] != sc.node or body[0].args[1] != sc.gen.frame:
        return ["macro_body is not run on the node in the enclosing frame"]
    if list(mdef[0].args) != [mr, fr]:
        return ["macro_def is not given the (macro_ref, frame) macro_body returned"]
    return []


def visit_macro_pred(sc, tree, ph, txt):
    if sc.outcome == "raise":
        return [f"raises {sc.value!r}"]
    fails = _def_follows_body(sc)
    body = tree.body
    if not (body and isinstance(body[0], ast.Expr) and ast.unparse(body[0]) == "__macro_body__()"):
        return fails + ["the macro function is not emitted first"]
    asg = [s for s in body if isinstance(s, ast.Assign)]
    if len(asg) != 1 or body[-1] is not asg[0] or ast.unparse(asg[0].value) != "__macro_def__()":
        return fails + [f"the Macro object is not assigned last: {txt!r}"]
    refs = [e for e in sc.st.trace if e.kind == "call" and e.name == "symbols.ref"]
    name = sc.st.get(sc.node).fields.get("name")
    tg = asg[0].targets
    local = [t for t in tg if isinstance(t, ast.Name)]
    if not (len(local) == 1 and len(refs) == 1 and refs[0].args[0] is name and ph.get(local[0].id, (None, None))[0] == "ident"
            and str(ph[local[0].id][1]) == str(refs[0].result.t)):
        fails.append("the Macro object is not bound to the local reference of the macro's name")
    top = sc.holds(z3.Bool("frame.toplevel"))
    ctxv = [t for t in tg if isinstance(t, ast.Subscript) and ast.unparse(t.value) == "context.vars"]
    if top:
        key = [f"'{t.slice.value}'" for t in ctxv if isinstance(t.slice, ast.Constant)]
        if not (len(ctxv) == 1 and key and key[0] in ph and str(ph[key[0]][1]) == "node.name"):
            fails.append("a top-level macro is not stored in context.vars[<name>] (it must be importable / callable from Python)")
        exported = [s for s in body if isinstance(s, ast.Expr) and isinstance(s.value, ast.Call) and emit.call_name(s.value) == "context.exported_vars.add"]
        pref = z3.PrefixOf(z3.StringVal("_"), name.t)
        is_private = True if sc.holds(pref) else (False if sc.holds(z3.Not(pref)) else None)
        if is_private is None or bool(exported) == is_private:
            fails.append("a top-level macro is exported iff its name does not start with an underscore")
        for ex in exported:
            a0 = ex.value.args[0] if ex.value.args else None
            key = f"'{a0.value}'" if isinstance(a0, ast.Constant) and isinstance(a0.value, str) else None
            if not (key in ph and str(ph[key][1]) == "node.name"):
                fails.append("the exported name is not the macro's name")
    elif ctxv or len(tg) != 1:
        fails.append("a nested macro must only be bound locally")
    return fails


def visit_callblock_pred(sc, tree, ph, txt):
    if sc.outcome == "raise":
        return [f"raises {sc.value!r}"]
    fails = _def_follows_body(sc)
    body = tree.body
    if not (len(body) == 3 and ast.unparse(body[0]) == "__macro_body__()" and isinstance(body[1], ast.Assign)
            and ast.unparse(body[1]) == "caller = __macro_def__()"):
        return fails + [f"call block is not `<macro function>; caller = Macro(...); <call>`: {txt!r}"]
    holes = [n for n in ast.walk(body[2]) if isinstance(n, ast.Name) and n.id in ph and isinstance(ph[n.id], emit.Hole)]
    if not (len(holes) == 1 and holes[0].id in ph and ph[holes[0].id].path == "node.call" and getattr(ph[holes[0].id], "via", None) == "visit_Call"
            and ph[holes[0].id].kwargs.get("forward_caller") is True):
        fails.append("the call is not emitted by visit_Call(node.call, frame, forward_caller=True)")
    return fails


# ------------------------------------------------------------------------------------------- Parser.parse_signature

class _Stream:
    """abstract TokenStream: `current.type`, expect(type), skip_if(type) over an arbitrary token sequence"""


class _Tok:
    pass


class _Scan:
    """opaque iterable: a generator expression over the (abstract) list of parameters parsed so far"""
    is_abstract_iterable = True

    def __init__(self, desc):
        self.desc = desc


def loop_locals(fn, ordinal=0):
    """names bound inside the `ordinal`-th while loop of fn's real source (comprehension / lambda / nested def scopes excluded)"""
    import textwrap
    tree = ast.parse(textwrap.dedent(inspect.getsource(fn)))
    loops = [n for n in ast.walk(tree.body[0]) if isinstance(n, ast.While)]
    if len(loops) <= ordinal:
        raise Unsupported(f"{fn.__qualname__} has no while loop #{ordinal}")
    names = set()

    def walk(n):
        if isinstance(n, (ast.ListComp, ast.SetComp, ast.DictComp, ast.GeneratorExp, ast.Lambda, ast.FunctionDef, ast.AsyncFunctionDef, ast.ClassDef)):
            # their targets live in a scope of their own; a walrus inside would leak, handle it
            for sub in ast.walk(n):
                if isinstance(sub, ast.NamedExpr) and isinstance(sub.target, ast.Name):
                    names.add(sub.target.id)
            return
        if isinstance(n, ast.Name) and isinstance(n.ctx, (ast.Store, ast.Del)):
            names.add(n.id)
        for c in ast.iter_child_nodes(n):
            walk(c)

    for stmt in loops[ordinal].body + loops[ordinal].orelse:
        walk(stmt)
    return sorted(names)


class ParseSignature(VC):
    """Parser.parse_signature over an arbitrary token stream (unbounded number of parameters).

    Ghost (written by the abstract callees, independent of the lists the code builds): k = number of parameter
    targets parsed so far, param(i) = the i-th target parse_assign_target returned, has_default(i) = the answer of the
    skip_if('assign') that followed it, dexpr(i) = the expression parse_expression returned after that.
    Postcondition (statement: "unfilled parameters take their default"; the compiler and Macro.__call__ pair default j
    of d with parameter n-d+j): on return node.args = [param(0..n)], d = len(node.defaults) <= n,
    has_default(i) <=> i >= n-d, node.defaults[j] = dexpr(n-d+j), and every param(i) was put into the `param` context.  Hence a parameter without default after one with
    default never returns normally; every exception is a TemplateSyntaxError."""
    prop = "C06"
    target = "jinja2.parser:Parser.parse_signature"
    timeout_quick = 20000

    def __init__(self):
        super().__init__("C06", "C06.parse_signature")

    # ---- ghost helpers
    @staticmethod
    def _g(st):
        return st.ghost["sig"]

    @staticmethod
    def _set(st, **kw):
        st.ghost = dict(st.ghost)
        st.ghost["sig"] = dict(st.ghost["sig"], **kw)

    def configure(self, I):
        c = self
        I.inline.add("jinja2.parser:Parser.fail")
        ln = lambda node: getattr(node, "lineno", None)  # noqa: E731

        def syntax_error(st, node, what):
            e = Exc(TemplateSyntaxError, (what,), origin=ln(node))
            e.from_call = what
            return Raised(e)

        def cur_type(st):
            return z3.Select(c.types, to_term(st.get(c.stream).fields["pos"], "int"))

        def advance(st, by=1):
            h = st.get(c.stream)
            h.fields["pos"] = Sym(to_term(h.fields["pos"], "int") + by, "int")

        def expect(I_, st, args, kwargs, node):
            out = []
            for s, b in I_.fork_bool(st, cur_type(st) == z3.StringVal(args[1])):
                if b:
                    advance(s)
                    out.append((s, None))
                else:
                    out.append((s, syntax_error(s, node, "expect")))
            return out

        def skip_if(I_, st, args, kwargs, node):
            out = []
            for s, b in I_.fork_bool(st, cur_type(st) == z3.StringVal(args[1])):
                if b:
                    advance(s)
                if args[1] == "assign":
                    g = c._g(s)
                    c._set(s, HD=z3.Store(g["HD"], g["k"] - 1, z3.BoolVal(b)))
                out.append((s, b))
            return out

        I.specs["_Stream.expect"] = expect
        I.specs["_Stream.skip_if"] = skip_if

        def getattr_stream(I_, st, obj, name, node):
            if isinstance(obj, Ref) and isinstance(st.heap.get(obj.id), HObj) and st.get(obj).cls is _Stream and name == "current":
                t = st.alloc(HObj(_Tok, fields={"type": Sym(cur_type(st), "str"), "lineno": fresh("tok_lineno", "int")}))
                return [(st, t)]
            return None

        I.attr_hook = getattr_stream

        def parse_assign_target(I_, st, args, kwargs, node):
            # contract (C01): a Name node or TemplateSyntaxError; consumes tokens
            if kwargs.get("name_only") is not True:
                raise Unsupported("parse_assign_target without name_only in a signature", node)
            s_err = st.fork()
            out = [(s_err, syntax_error(s_err, node, "parse_assign_target"))]
            advance(st)
            r = st.alloc(HObj(N.Name, fields={"name": fresh("pname", "str"), "ctx": "store", "lineno": fresh("plineno", "int")}, path="param"))
            st.get(r).plain_setattr = True
            g = c._g(st)
            c._set(st, P=z3.Store(g["P"], g["k"], to_term(r, "obj")), CT=z3.Store(g["CT"], g["k"], z3.BoolVal(False)), k=g["k"] + 1)
            st.get(r).fields["ghost_index"] = g["k"]
            st.trace.append(Event("call", "parse_assign_target", [], dict(kwargs), r))
            out.append((st, r))
            return out

        def parse_expression(I_, st, args, kwargs, node):
            s_err = st.fork()
            out = [(s_err, syntax_error(s_err, node, "parse_expression"))]
            adv = fresh("consumed", "int")
            st.assume(adv.t >= 1)
            advance(st, adv.t)
            r = fresh("default_expr", "obj")
            g = c._g(st)
            c._set(st, DE=z3.Store(g["DE"], g["k"] - 1, r.t))
            st.trace.append(Event("call", "parse_expression", [], dict(kwargs), r))
            out.append((st, r))
            return out

        def set_ctx(I_, st, args, kwargs, node):
            h = st.get(args[0])
            h.fields["ctx"] = args[1]
            if "ghost_index" in h.fields:
                c._set(st, CT=z3.Store(c._g(st)["CT"], h.fields["ghost_index"], z3.BoolVal(args[1] == "param")))
            return [(st, args[0])]

        I.specs["Parser.parse_assign_target"] = parse_assign_target
        I.specs["Parser.parse_expression"] = parse_expression
        I.specs["Name.set_ctx"] = set_ctx

        # a scan of the parameters parsed so far (e.g. the duplicate-name check `any(a.name == arg.name for a in args)`):
        # an opaque iterable whose any()/all() is an arbitrary boolean (distinctness of the names is C01's obligation)
        def comp_abstract(I_, e, g, st, cfr, itv, elt_fn):
            return [(st, _Scan(ast.unparse(e)[:60]))]

        I.specs["comp_abstract"] = comp_abstract
        for fn_ in (any, all):
            base = I.specs.get(("fn", id(fn_)))

            def scan_bool(I_, st, args, kwargs, node, base=base, nm=fn_.__name__):
                if args and isinstance(args[0], _Scan):
                    return [(st, fresh(f"{nm}_scan", "bool"))]
                if base is None:
                    raise Unsupported(f"{nm}() of a concrete iterable in parse_signature", node)
                return base(I_, st, args, kwargs, node)

            I.specs[("fn", id(fn_))] = scan_bool

        def inv(ctx):
            return c.aligned(ctx.st, loop_head=True)

        def heap(st, local):
            I_s, B = z3.IntSort(), z3.BoolSort()
            c._set(st, HD=z3.Const(fresh_name("HD"), z3.ArraySort(I_s, B)), DE=z3.Const(fresh_name("DE"), z3.ArraySort(I_s, Obj)),
                   P=z3.Const(fresh_name("P"), z3.ArraySort(I_s, Obj)), CT=z3.Const(fresh_name("CT"), z3.ArraySort(I_s, B)), k=z3.Int(fresh_name("k")))
            for f in ("args", "defaults"):
                r = st.get(c.node).fields[f]
                st.heap[r.id] = HList(arr=z3.Const(fresh_name(f + "_arr"), z3.ArraySort(I_s, Obj)), n=z3.Int(fresh_name(f + "_n")), k="obj")
            st.get(c.stream).fields["pos"] = fresh("pos", "int")

        # the invariant only talks about node.args / node.defaults (heap) and the ghost; every local the loop body binds
        # (read off the real AST, so that a new temporary in the body is a harmless edit) is havoced as an arbitrary value
        I.loops[("Parser.parse_signature", 0)] = LoopSpec(inv, havoc={nm: "obj" for nm in loop_locals(P.Parser.parse_signature)}, heap=heap,
                                                          name="signature_loop")
        # unicodedata.normalize: an opaque pure function of its arguments (only used to compare names for the duplicate check)
        import unicodedata
        I.specs[("fn", id(unicodedata.normalize))] = A.abstract_fn("unicodedata.normalize", returns="str")

    def aligned(self, st, loop_head=False):
        """args = param[0..n), defaults = [dexpr(i) | has_default(i)] = dexpr[n-d..n), has_default(i) <=> i >= n-d"""
        f = st.get(self.node).fields
        if not (isinstance(f.get("args"), Ref) and isinstance(f.get("defaults"), Ref)):
            return [z3.BoolVal(False)]
        (aA, n, _), (aD, d, _) = A.list_terms(st, f["args"]), A.list_terms(st, f["defaults"])
        g = self._g(st)
        i = z3.Int(fresh_name("i"))
        return [
            g["k"] == n, 0 <= d, d <= n,
            z3.ForAll([i], z3.Implies(z3.And(0 <= i, i < n), z3.Select(g["HD"], i) == (i >= n - d))),
            z3.ForAll([i], z3.Implies(z3.And(0 <= i, i < d), z3.Select(aD, i) == z3.Select(g["DE"], n - d + i))),
            z3.ForAll([i], z3.Implies(z3.And(0 <= i, i < n), z3.Select(aA, i) == z3.Select(g["P"], i))),
            # every parameter node was put into the `param` context (ghost CT[i] = set_ctx("param") was the last set_ctx on param i)
            z3.ForAll([i], z3.Implies(z3.And(0 <= i, i < n), z3.Select(g["CT"], i))),
        ]

    def setup(self, I, st):
        I_s = z3.IntSort()
        self.types = z3.Const("token_types", z3.ArraySort(I_s, z3.StringSort()))
        self.stream = st.alloc(HObj(_Stream, fields={"pos": sym("pos0", "int")}, path="stream"), initial=True)
        self.parser = st.alloc(HObj(P.Parser, fields={"stream": self.stream, "name": sym("template_name", "obj"), "filename": sym("template_filename", "obj")},
                                    path="self"), initial=True)
        self.node = st.alloc(HObj(N.Macro, fields={"lineno": sym("lineno", "int")}, path="node"), initial=True)
        st.get(self.node).plain_setattr = True
        st.ghost = dict(st.ghost)
        st.ghost["sig"] = {"HD": z3.Const("HD0", z3.ArraySort(I_s, z3.BoolSort())), "DE": z3.Const("DE0", z3.ArraySort(I_s, Obj)),
                           "P": z3.Const("P0", z3.ArraySort(I_s, Obj)), "CT": z3.Const("CT0", z3.ArraySort(I_s, z3.BoolSort())), "k": z3.IntVal(0)}
        return [self.parser, self.node], {}

    def p_aligned(self, pre, out):
        if out.raised:
            return None
        return z3.And(*self.aligned(out.st))

    def p_raises(self, pre, out):
        if not out.raised:
            return None
        cls = out.value.cls
        return cls is not None and issubclass(cls, TemplateSyntaxError)

    posts = [("defaults_belong_to_trailing_parameters", p_aligned), ("only_TemplateSyntaxError", p_raises)]

    def concretize(self, model, pre, out):
        return {"parse_signature": True}

    def replay(self, w):
        return native_signatures(w)


def native_signatures(w=None):
    """Native oracle for parse_signature: all signatures of up to 4 parameters with any default pattern."""
    import itertools
    import jinja2
    env = jinja2.Environment()
    problems = []
    for n in range(0, 5):
        for pat in itertools.product((False, True), repeat=n):
            sig = ", ".join(f"p{i}" + (f"={10 + i}" if pat[i] else "") for i in range(n))
            src = "{% macro m(" + sig + ") %}{% endmacro %}"
            legal = all(pat[i] or not any(pat[:i]) for i in range(n))
            try:
                node = env.parse(src).body[0]
            except jinja2.TemplateSyntaxError:
                if legal:
                    problems.append(f"{sig!r} rejected")
                continue
            except Exception as ex:
                problems.append(f"{sig!r}: {type(ex).__name__}")
                continue
            if not legal:
                problems.append(f"{sig!r} accepted although a non-default parameter follows a default")
                continue
            names = [a.name for a in node.args]
            d = len(node.defaults)
            want_defaults = [10 + i for i in range(n) if pat[i]]
            got_defaults = [getattr(x, "value", None) for x in node.defaults]
            if names != [f"p{i}" for i in range(n)] or got_defaults != want_defaults or [i >= n - d for i in range(n)] != list(pat):
                problems.append(f"{sig!r}: args={names} defaults={got_defaults}")
            if any(a.ctx != "param" for a in node.args):
                problems.append(f"{sig!r}: parameter context {[a.ctx for a in node.args]}")
    return (bool(problems), "; ".join(problems[:3]) or "parse_signature aligns defaults with the trailing parameters on all signatures up to 4 parameters")


# ------------------------------------------------------------------------------------------- tasks

def _macro_body_tasks():
    """quick tier: Macro n <= 2 (n = 2: sync, one-statement body), CallBlock n <= 1; the remaining shapes (n = 3, async and
    abstract-body variants of the larger ones, CallBlock n = 2) run in the thorough tier only"""
    out = []
    for cls in ("Macro", "CallBlock"):
        for n in range(0, 4):
            if cls == "CallBlock" and n > 2:
                continue
            for d in range(0, n + 1):
                for is_async in (False, True):
                    quick_body = "abstract" if n == 0 else "one"
                    quick = (n <= 1 and (cls == "Macro" or not is_async)) or (n == 2 and cls == "Macro" and not is_async)
                    if quick:
                        out.append(MacroBody(n, d, cls, is_async, body=quick_body))
                    if n >= 1 and not (is_async and n == 3):
                        out.append(MacroBody(n, d, cls, is_async, body="abstract" if quick else ("one" if n == 3 else "abstract"), thorough_only=True))
    # longest first (process pool)
    return sorted(out, key=lambda t: -t.n)


TASKS = _macro_body_tasks() + [
    FnTask("C06", "C06.emit.macro_def", macro_def_table, "emission", native_macros),
    EmitTask("C06", "C06.emit.visit_Macro", "jinja2.compiler:CodeGenerator.visit_Macro", N.Macro, visit_macro_pred, mode="stmts",
             buffers=(None, "t_buf"), replay_fn=native_macros, configure=configure_modular, min_paths=3),
    EmitTask("C06", "C06.emit.visit_CallBlock", "jinja2.compiler:CodeGenerator.visit_CallBlock", N.CallBlock, visit_callblock_pred, mode="stmts",
             buffers=(None, "t_buf"), replay_fn=native_macros, configure=configure_modular, min_paths=2),
    ParseSignature(),
]


# the call path from a template to the macro and the "body uses varargs / kwargs / caller" analysis (hunt round)
from contracts import c06_callpath as _cp  # noqa: E402
TASKS = list(TASKS) + list(_cp.TASKS)
