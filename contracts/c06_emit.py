"""C06 compiler side: the emitted macro function takes its parameters in the order Macro.__call__ builds them.

Shape bound (stated): the macro node has a CONCRETE list of n <= 3 parameters and d <= n defaults; parameter names,
bodies, defaults and every flag are symbolic.  (macro_body appends to local lists inside its loops, which the
star-summarisation of the emission engine cannot abstract; hence the bound on n.)

  C06.emit.order      def macro(<declared params in order>, [caller], [kwargs], [varargs]) and the MacroRef flags:
                      accesses_caller iff `caller` is read undeclared in the body; the implicit caller parameter is declared
                      iff that holds and no explicit `caller` parameter exists; kwargs/varargs declared (and flagged) iff read
                      undeclared and not shadowed by a declared parameter of that name
  C06.emit.defaults   default k of d belongs to parameter n-d+k, emitted as `if p is missing: p = <default>` in parameter
                      order; a parameter without default becomes undefined(...); an explicit caller without default is rejected
  C06.emit.macro_def  Macro(environment, macro, name, (names...), accesses_kwargs, accesses_varargs, accesses_caller, autoescape)
                      matches the parameter order of runtime.Macro.__init__
"""
from __future__ import annotations

import ast
import inspect
import itertools
import z3

from pyvc.contract import Res, FnTask, Task
from pyvc import emit
from pyvc.values import HList, Unsupported, Sym
from pyvc.interp import Raised
from pyvc import abstract as A

import jinja2.nodes as N
import jinja2.compiler as C
import jinja2.runtime as R


def native_macros(w=None):
    """Native oracle: macro calling rules on a family of real templates (defaults referring to earlier
    parameters, implicit caller/kwargs/varargs, explicit caller)."""
    import jinja2
    env = jinja2.Environment()
    cases = [
        ("{% macro m(a, b=a, c=b) %}{{ a }}|{{ b }}|{{ c }}{% endmacro %}{{ m(1) }};{{ m(1, 2) }};{{ m(1, c=3) }}", "1|1|1;1|2|2;1|1|3"),
        ("{% macro m(a) %}{{ a }}{{ varargs }}{{ kwargs }}{% endmacro %}{{ m(1, 2, 3, x=4) }}", "1(2, 3){'x': 4}"),
        ("{% macro m(a) %}{{ a }}{% endmacro %}{{ m() }}|", "|"),
        ("{% macro m(a, b=2) %}{{ caller() }}{{ a }}{{ b }}{% endmacro %}{% call m(1) %}C{% endcall %}", "C12"),
        ("{% macro m(a, caller=none) %}{{ a }}{{ caller }}{% endmacro %}{{ m(1) }}", "1None"),
        ("{% macro m(caller=None, b=1) %}{{ caller }}|{{ b }}{% endmacro %}{{ m(5) }}", "5|1"),
        ("{% macro m(kwargs) %}{{ kwargs }}{% endmacro %}{{ m(7) }}", "7"),
        ("{% set o = 9 %}{% macro m(a=o) %}{{ a }}{% endmacro %}{{ m() }}{{ m(1) }}", "91"),
    ]
    problems = []
    for src, want in cases:
        try:
            got = env.from_string(src).render()
        except Exception as ex:
            got = f"{type(ex).__name__}: {ex}"
        if got != want:
            problems.append(f"{src!r}: got {got!r}, documented {want!r}")
    for src, exc in [("{% macro m(a) %}{{ a }}{% endmacro %}{{ m(1, 2) }}", TypeError), ("{% macro m(a) %}{{ a }}{% endmacro %}{{ m(1, x=2) }}", TypeError)]:
        try:
            env.from_string(src).render()
            problems.append(f"{src!r}: no {exc.__name__}")
        except exc:
            pass
        except Exception as ex:
            problems.append(f"{src!r}: {type(ex).__name__} instead of {exc.__name__}")
    return (bool(problems), "; ".join(problems[:3]) or "macro calling template family agrees with the documented rules")


class MacroBody(Task):
    kind = "emission"

    def __init__(self, n, d, node_cls_name="Macro"):
        self.n, self.d, self.cls_name = n, d, node_cls_name
        self.prop = "C06"
        self.name = f"C06.emit.macro_body[{node_cls_name},n={n},d={d}]"
        self.bound_text = "parameter list length n <= 3 (concrete), names/defaults/body/flags symbolic"

    def replay(self, w):
        return native_macros(w)

    def run(self, tier, seed):
        import time
        t0 = time.time()
        n, d = self.n, self.d
        cls = getattr(N, self.cls_name)

        def fields(st):
            args = [emit.make_node(st, N.Name, f"node.args[{i}]") for i in range(n)]
            defs = [emit.make_node(st, N.Expr, f"node.defaults[{i}]", kind="expr") for i in range(d)]
            self.arg_refs, self.def_refs = args, defs
            return {"args": st.alloc(HList(items=args), initial=True), "defaults": st.alloc(HList(items=defs), initial=True)}

        try:
            scs, I = emit.run_visitor("jinja2.compiler:CodeGenerator.macro_body", cls, buffer=None, node_fields=fields)
        except Unsupported as ex:
            return [Res(self.name + ".engine", "unknown", "pyvc-emit", time.time() - t0, f"unsupported: {ex}", self.kind)]
        res = []
        for i, sc in enumerate(scs):
            fails = self.check(sc)
            nm = f"{self.name}#p{i}"
            if fails:
                res.append(Res(nm, "refuted", "pyvc-emit", 0, f"schema `{sc.describe()[:260]}`: " + "; ".join(fails[:3]), self.kind,
                               witness={"schema": sc.describe()[:400], "n": n, "d": d}))
            else:
                res.append(Res(nm, "discharged", "pyvc-emit", 0, "", self.kind))
        if not res:
            res.append(Res(self.name + ".paths", "error", "pyvc-emit", 0, "no paths", self.kind))
        return res

    def check(self, sc):
        n, d = self.n, self.d
        st = sc.st
        names = [st.get(r).fields.get("name") for r in self.arg_refs]

        def name_is(i, s):
            nm = names[i]
            if nm is None:
                return False
            return sc.holds(nm.t == z3.StringVal(s)) if isinstance(nm, Sym) else nm == s

        def name_isnt(i, s):
            nm = names[i]
            if nm is None:
                return True
            return sc.holds(nm.t != z3.StringVal(s)) if isinstance(nm, Sym) else nm != s

        und = [e for e in st.trace if e.kind == "call" and e.name == "find_undeclared"]
        undeclared = st.get(und[0].result) if und else None

        def reads(s):
            if undeclared is None:
                return None
            t = z3.Select(undeclared.dom, z3.StringVal(s))
            if sc.holds(t):
                return True
            if sc.holds(z3.Not(t)):
                return False
            return None

        explicit = [i for i in range(n) if name_is(i, "caller")]
        no_explicit = all(name_isnt(i, "caller") for i in range(n))
        if sc.outcome == "raise":
            # the only rejection: an explicit caller parameter without default while caller() is used in the body
            from jinja2.exceptions import TemplateAssertionError
            if sc.value.cls is not TemplateAssertionError:
                return [f"macro_body raises {sc.value!r}"]
            ok = reads("caller") is True and explicit and all(i < n - d for i in explicit[:1])
            return [] if ok else ["rejected a macro although its explicit caller has a default / caller is not used"]
        fails = []
        try:
            txt, ph = sc.texts()[0]
            tree = emit.parse_stmts(txt)
        except SyntaxError as ex:
            return [f"emitted macro function does not parse: {ex.msg}: {txt[:200]!r}"]
        fn = next((x for x in ast.walk(tree) if isinstance(x, (ast.FunctionDef, ast.AsyncFunctionDef)) and x.name == "macro"), None)
        if fn is None:
            return ["no `def macro` emitted"]
        params = [a.arg for a in fn.args.args]
        if fn.args.vararg or fn.args.kwarg or fn.args.kwonlyargs or fn.args.defaults:
            fails.append("macro function must take plain positional parameters")
        ref_events = [e for e in st.trace if e.kind == "call" and e.name == "symbols.ref"]
        decl_events = [e for e in st.trace if e.kind == "call" and e.name == "symbols.declare_parameter"]
        term_of = {k: str(v[1]) for k, v in ph.items() if isinstance(v, tuple) and v[0] == "ident"}
        got = [term_of.get(p, p) for p in params]
        # expected: refs of the declared parameters in order (first n ref events), then special parameters
        want = [str(e.result.t) for e in ref_events[:n]]
        for i, e in enumerate(ref_events[:n]):
            if e.args[0] is not names[i]:
                fails.append(f"parameter {i} of the function is not the reference of node.args[{i}].name")
        flags = sc.value  # (frame, macro_ref)
        mref = st.get(flags[1]).fields if isinstance(flags, tuple) else {}
        specials = []
        r_caller, r_kwargs, r_varargs = reads("caller"), reads("kwargs"), reads("varargs")
        if None in (r_caller, r_kwargs, r_varargs):
            return ["path does not decide which special names the body reads"]
        shadow_kw = any(name_is(i, "kwargs") for i in range(n))
        shadow_va = any(name_is(i, "varargs") for i in range(n))
        if (shadow_kw is False and not all(name_isnt(i, "kwargs") for i in range(n))) or (shadow_va is False and not all(name_isnt(i, "varargs") for i in range(n))) or (not explicit and not no_explicit):
            return ["path does not decide whether a declared parameter shadows a special name"]
        want_caller_param = r_caller and no_explicit
        want_kwargs = r_kwargs and not shadow_kw
        want_varargs = r_varargs and not shadow_va
        for want_it, nm in ((want_caller_param, "caller"), (want_kwargs, "kwargs"), (want_varargs, "varargs")):
            if want_it:
                ev = [e for e in decl_events if e.args and e.args[0] == nm]
                if len(ev) != 1:
                    fails.append(f"special parameter {nm} should be declared exactly once")
                else:
                    specials.append(str(ev[0].result.t))
        extra_decl = [e.args[0] for e in decl_events if e.args[0] not in [nm for w_, nm in ((want_caller_param, "caller"), (want_kwargs, "kwargs"), (want_varargs, "varargs")) if w_]]
        if extra_decl:
            fails.append(f"special parameters declared although not wanted: {extra_decl}")
        if got != want + specials:
            fails.append(f"parameter order {got} differs from declared params + [caller][kwargs][varargs] = {want + specials}")
        if mref.get("accesses_caller", False) is not bool(r_caller):
            fails.append(f"accesses_caller={mref.get('accesses_caller')} but body reads caller undeclared: {r_caller}")
        if mref.get("accesses_kwargs", False) is not bool(want_kwargs):
            fails.append(f"accesses_kwargs={mref.get('accesses_kwargs')} expected {want_kwargs}")
        if mref.get("accesses_varargs", False) is not bool(want_varargs):
            fails.append(f"accesses_varargs={mref.get('accesses_varargs')} expected {want_varargs}")
        # defaults: `if p is missing: p = <default>` in parameter order
        ifs = [s for s in fn.body if isinstance(s, ast.If) and isinstance(s.test, ast.Compare) and isinstance(s.test.ops[0], ast.Is)
               and isinstance(s.test.comparators[0], ast.Name) and s.test.comparators[0].id == "missing"]
        if len(ifs) != n:
            fails.append(f"{len(ifs)} `if p is missing` blocks for {n} parameters")
        else:
            for i, s in enumerate(ifs):
                tgt = term_of.get(getattr(s.test.left, "id", None))
                ev = [e for e in ref_events[n:] if str(e.result.t) == tgt]
                if not ev or ev[0].args[0] is not names[i]:
                    fails.append(f"default block {i} does not test parameter {i}")
                body = s.body[0] if s.body else None
                if not isinstance(body, ast.Assign):
                    fails.append(f"default block {i} does not assign")
                    continue
                if i >= n - d:
                    k = i - (n - d)
                    v = body.value
                    if not (isinstance(v, ast.Name) and v.id in ph and isinstance(ph[v.id], emit.Hole) and ph[v.id].path == f"node.defaults[{k}]"):
                        fails.append(f"parameter {i} should take default {k} (defaults align with the trailing parameters)")
                else:
                    if not (isinstance(body.value, ast.Call) and emit.call_name(body.value) == "undefined"):
                        fails.append(f"parameter {i} has no default and should become undefined(...)")
        return fails


def macro_def_table(task, tier, seed):
    """macro_def passes (accesses_kwargs, accesses_varargs, accesses_caller) in the positions of
    Macro.__init__'s (catch_kwargs, catch_varargs, caller)."""
    import time
    rs = []
    sig = list(inspect.signature(R.Macro.__init__).parameters)
    ok_sig = sig[:9] == ["self", "environment", "func", "name", "arguments", "catch_kwargs", "catch_varargs", "caller", "default_autoescape"]
    rs.append(Res("C06.emit.macro_def.init_signature", "discharged" if ok_sig else "refuted", "table", 0, f"Macro.__init__ parameters: {sig}", "table", None if ok_sig else {"table": "Macro.__init__"}))
    for n in (0, 1, 2):
        def fields(st):
            return {}
        from pyvc.values import State
        from pyvc.engine import Interp
        I = Interp()
        emit.install(I)
        st = State()
        g = emit.Gen(st)
        margs = [emit.make_node(st, N.Name, f"node.args[{i}]") for i in range(n)]
        node = emit.make_node(st, N.Macro, "node", fields={"args": st.alloc(HList(items=margs), initial=True)})
        flags = {k: emit.sym(k, "bool") for k in ("accesses_caller", "accesses_kwargs", "accesses_varargs")}
        from pyvc.values import HObj
        mref = st.alloc(HObj(C.MacroRef, fields=dict(flags, node=node)), initial=True)
        from pyvc import extract
        clo = I.closure_of_function(extract.resolve("jinja2.compiler:CodeGenerator.macro_def"))
        try:
            results = I.call_closure(st, clo, [g.gen, mref, g.frame], {})
        except Unsupported as ex:
            rs.append(Res(f"C06.emit.macro_def[n={n}].engine", "unknown", "pyvc-emit", 0, str(ex), "emission"))
            continue
        for i, (s, v) in enumerate(results):
            sc = emit.Schema(list(s.ghost.get("out", [])), list(s.pc), [], "raise" if isinstance(v, Raised) else "return", s)
            txt, ph = sc.texts()[0]
            fails = []
            try:
                t = emit.parse_expr(txt)
            except SyntaxError as ex:
                fails.append(f"does not parse: {txt!r}")
                t = None
            if t is not None:
                if not (isinstance(t, ast.Call) and emit.call_name(t) == "Macro" and len(t.args) == 8):
                    fails.append(f"not Macro(...) with 8 arguments: {txt!r}")
                else:
                    a = t.args
                    if not (isinstance(a[0], ast.Name) and a[0].id == "environment" and isinstance(a[1], ast.Name) and a[1].id == "macro"):
                        fails.append("first arguments are not (environment, macro)")
                    if not (isinstance(a[3], ast.Tuple) and len(a[3].elts) == n):
                        fails.append(f"argument tuple has {len(getattr(a[3], 'elts', []))} names for {n} parameters")
                    # flags are rendered through repr(): symbolic bools show as If(flag,'True','False') placeholders
                    order = [str(ph.get(x.id, ("", ""))[1]) if isinstance(x, ast.Name) else ast.unparse(x) for x in a[4:7]]
                    want = ["accesses_kwargs", "accesses_varargs", "accesses_caller"]
                    if not all(w in o for w, o in zip(want, order)):
                        fails.append(f"flag arguments {order} are not (accesses_kwargs, accesses_varargs, accesses_caller)")
                    if ast.unparse(a[7]) != "context.eval_ctx.autoescape":
                        fails.append("default autoescape argument is not context.eval_ctx.autoescape")
            rs.append(Res(f"C06.emit.macro_def[n={n}]#p{i}", "refuted" if fails else "discharged", "pyvc-emit", 0, "; ".join(fails), "emission",
                          {"schema": txt} if fails else None))
    return rs


TASKS = [MacroBody(n, d, cls) for cls in ("Macro", "CallBlock") for n in range(0, 4) for d in range(0, n + 1) if not (cls == "CallBlock" and n > 2)] + \
        [FnTask("C06", "C06.emit.macro_def", macro_def_table, "emission", native_macros)]
