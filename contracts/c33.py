"""C33  Translation blocks render like their source text and are fully extractable.

Mechanism contracts on jinja2.ext (real source, symbolic inputs) + bounded stand-ins (contracts/c33_native.py).

  C33.parse_block            InternationalizationExtension._parse_block over a token script of up to 6 tokens (thorough: 8 and 10)
                             whose types and values are symbolic: returns the referenced names in order and the block text
                             with `%` doubled and every `{{ name }}` replaced by `%(name)s`, stops before the name token of
                             `endtrans` / (when allowed) `pluralize`; every other shape (nested or unknown tag, second
                             pluralize, expression in a variable tag, end of template) is a TemplateSyntaxError.
  C33.parse_block.inductive  the same, unbounded: the loop is cut at an invariant (one generic iteration from an arbitrary
                             accumulated text / name list); .buf_usage is the table obligation behind the list abstraction.
  C33.make_node              _make_node with symbolic flags newstyle / vars_referenced / num_called_num and symbolic texts, for
                             every (plural?, context?) and six variable shapes: callee gettext/ngettext/pgettext/npgettext,
                             constant arguments (context, singular, plural) in that order then the count expression; new
                             style: variables as keywords (minus `num` when it is the count); old style:
                             MarkSafeIfAutoescape, `% {vars}`; `%%` is un-doubled exactly when no formatting step follows.
  C33.parse[...]             InternationalizationExtension.parse over scripted tag heads with symbolic names:
                             .meaning = count expression (C33.plural: first variable / named pluralize variable / first
                             referenced name), trimming (C33.trim: trimmed / notrimmed / policy ext.i18n.trimmed), context
                             string, the variables map, the temporary for a call-valued count, line number, error cases;
                             .make_node_requires = the preconditions C33.make_node assumes.
  C33.extract[...]           extract_from_ast on call nodes of bounded arity with symbolic strings, names and line numbers.
  C33.extract.covers[...]    real _make_node + real extract_from_ast: exactly the constant strings the call passes at run
                             time are reported, under the callee's name which is one of GETTEXT_FUNCTIONS.
  C33.newstyle.*             the four wrapper closures of _make_new_*gettext (translation function called with the given
                             strings, Markup iff autoescape, `% variables` with num / context defaulted).
  C33.install.*              _install_callables / _install / _install_null / _uninstall.
  C33.bounded.* , C33.babel_extract.options     see contracts/c33_native.py.

Known finding rediscovered here (not in DESIGN section 7): old-style gettext, variables bound in the tag but none referenced
in the body: the text is un-doubled although `% {vars}` is still applied (known_findings.d/c33.json).
F21 (set iteration order of the free names, owned by C30) is outside this module: the variables are compared as a map.
"""
from __future__ import annotations

import inspect
import itertools

import z3

from pyvc.contract import VC, Res, FnTask, Outcome
from pyvc.values import (State, Sym, Ref, HObj, HList, HDict, HSet, SSeq, Exc, Event, Unsupported, sym, fresh, fresh_name,
                         BoundMethod, Closure)
from pyvc.interp import Raised
from pyvc.smt import to_term, model_value
from pyvc import abstract as A

import jinja2
import jinja2.ext as E
import jinja2.lexer as L
import jinja2.nodes as N
import jinja2.parser as P
from jinja2.exceptions import TemplateSyntaxError, TemplateAssertionError

from contracts import c01_parser as CP
from contracts import c33_native as NAT

PROP = "C33"
S = z3.StringVal


def sv(x):
    return to_term(x, "str")


def dbl(t):
    """`%` doubled (z3 str.replace_all)"""
    a0, a1 = S("%"), S("%%")
    return z3.SeqRef(z3.Z3_mk_seq_replace_all(t.ctx_ref(), t.as_ast(), a0.as_ast(), a1.as_ast()), t.ctx)


def undbl(t, spell_out_empty=True):
    """`%%` -> `%`.  spell_out_empty: the empty string is its own image, written as an explicit case because the solvers
    do not unfold replace_all on a symbolic empty string (needed where the code skips the replacement for an empty text)"""
    a0, a1 = S("%%"), S("%")
    r = z3.SeqRef(z3.Z3_mk_seq_replace_all(t.ctx_ref(), t.as_ast(), a0.as_ast(), a1.as_ast()), t.ctx)
    return z3.If(z3.Length(t) == 0, t, r) if spell_out_empty else r


def cat(parts):
    parts = [p for p in parts]
    if not parts:
        return S("")
    if len(parts) == 1:
        return parts[0]
    return z3.Concat(*parts)


def is_tse(out):
    if not out.raised:
        return False
    e = out.value
    cls = e.cls if e.cls is not None else e.within
    return inspect.isclass(cls) and issubclass(cls, TemplateSyntaxError)


# ------------------------------------------------------------------------------------------------
# scripted token stream: a list of tokens (types / values concrete or symbolic) followed by eof
# ------------------------------------------------------------------------------------------------

class Script:
    def __init__(self, st, toks, world):
        """toks: list of (type, value) with host strings or Sym"""
        self.world = world
        self.refs = []
        for i, (t, v) in enumerate(toks):
            self.refs.append(st.alloc(HObj(L.Token, fields={"lineno": 1, "type": t, "value": v}, path=f"script[{i}]"), initial=True))
        self.eof = st.alloc(HObj(L.Token, fields={"lineno": 1, "type": "eof", "value": ""}, path="eof"), initial=True)
        h = st.get(world.stream)
        h.fields["_idx"] = 0
        h.fields["current"] = self.tok(0)
        st.ghost = dict(st.ghost)
        st.ghost["tokens"] = list(self.refs)

    def tok(self, i):
        return self.refs[i] if i < len(self.refs) else self.eof

    def idx(self, st):
        return st.get(self.world.stream).fields["_idx"]

    def install(self, I):
        c = self

        def s_next(I_, st, args, kwargs, node):
            h = st.get(c.world.stream)
            i = h.fields["_idx"]
            old = h.fields["current"]
            h.fields["_idx"] = i + 1
            h.fields["current"] = c.tok(i + 1)
            st.trace.append(Event("call", "TokenStream.__next__", [], {}, old))
            return [(st, old)]

        def test_now(st, expr):
            f = st.get(st.get(c.world.stream).fields["current"]).fields
            t = CP.token_test_term(f["type"], f["value"], expr)
            if t is None:
                raise Unsupported("token expression is not a constant string")
            return t

        def s_expect(I_, st, args, kwargs, node):
            out = []
            for s, b in I_.fork_bool(st, test_now(st, args[1])):
                out += s_next(I_, s, args, kwargs, node) if b else [(s, CP.tse("expect", node, s))]
            return out

        def s_next_if(I_, st, args, kwargs, node):
            out = []
            for s, b in I_.fork_bool(st, test_now(st, args[1])):
                out += s_next(I_, s, args, kwargs, node) if b else [(s, None)]
            return out

        def s_skip_if(I_, st, args, kwargs, node):
            return [(s, v is not None) for s, v in s_next_if(I_, st, args, kwargs, node)]

        def s_bool(I_, st, args, kwargs, node):
            f = st.get(st.get(c.world.stream).fields["current"]).fields
            return [(st, Sym(sv(f["type"]) != S("eof"), "bool"))]

        I.specs["TokenStream.__next__"] = s_next
        I.specs["TokenStream.expect"] = s_expect
        I.specs["TokenStream.next_if"] = s_next_if
        I.specs["TokenStream.skip_if"] = s_skip_if
        I.specs["TokenStream.__bool__"] = s_bool
        # TokenStream.eos: "Are we at the end of the stream?" = not bool(stream)
        I.specs["jinja2.lexer:TokenStream.eos"] = lambda I_, st, args, kwargs, node: [(s, Sym(z3.Not(to_term(v, "bool")), "bool")) for s, v in s_bool(I_, st, args, kwargs, node)]
        I.specs.pop("TokenStream.look", None)
        I.specs.pop("TokenStream.skip", None)


class HintVC(VC):
    """VC whose `unknown` verdicts (z3's string solver gives up on `replace_all` disequalities) are retried with the
    symbolic strings pinned to candidate values: a model of pc /\\ not post /\\ hint is a model of pc /\\ not post."""

    def hints(self):
        return []

    def discharge(self, name, pc, cond, timeout, seed, pre, out):
        r = VC.discharge(self, name, pc, cond, timeout, seed, pre, out)
        if r.status != "unknown" or cond is True or cond is False:
            return r
        from pyvc.smt import check_sat
        for hint in self.hints():
            rr = check_sat(list(pc) + [z3.Not(cond)] + list(hint), min(timeout, 5000), seed, use_cvc5=False)
            if rr.status == "sat":
                wit = None
                if pre is not None:
                    try:
                        wit = self.concretize(rr.model, pre, out)
                    except Exception as ex:  # noqa
                        wit = {"concretize_error": repr(ex)}
                return Res(name, "refuted", rr.backend + "+hint", r.seconds + rr.seconds, self.describe(out) + " (model found with candidate strings)", self.kind, wit)
        return r


def make_ext(st, env_fields=None, lazy=None):
    env = st.alloc(HObj(jinja2.Environment, fields=dict(env_fields or {}), lazy=dict(lazy or {}), path="environment"), initial=True)
    st.get(env).plain_setattr = True
    ext = st.alloc(HObj(E.InternationalizationExtension, fields={"environment": env}, path="self"), initial=True)
    return ext, env


# ------------------------------------------------------------------------------------------------
# C33.parse_block
# ------------------------------------------------------------------------------------------------
N_TOKENS = 6  # quick tier; the 8- and 10-token scripts are thorough-only (the inductive VC is the unbounded form)


def parse_block_spec(toks, allow_pluralize):
    """The statement's description of a translatable section as a decision tree over the token script:
    -> list of (conditions, outcome) with outcome = ("error",) | ("return", names, text_parts, index_of_current_token)."""
    cases = []
    n = len(toks)

    def go(i, cond, names, text):
        if i >= n:
            cases.append((cond, ("error",)))  # end of template inside the block
            return
        t, v = toks[i]
        # literal text: `%` doubled
        go(i + 1, cond + [t == S("data")], names, text + [dbl(v)])
        # {{ name }}
        c_vb = cond + [t == S("variable_begin")]
        if i + 2 < n:
            (t1, v1), (t2, _v2) = toks[i + 1], toks[i + 2]
            go(i + 3, c_vb + [t1 == S("name"), t2 == S("variable_end")], names + [v1], text + [S("%("), v1, S(")s")])
            cases.append((c_vb + [z3.Not(z3.And(t1 == S("name"), t2 == S("variable_end")))], ("error",)))
        else:
            if i + 1 < n:
                t1, v1 = toks[i + 1]
                cases.append((c_vb + [t1 == S("name")], ("error",)))  # the script ends (eof) where `}}` is required
                cases.append((c_vb + [t1 != S("name")], ("error",)))
            else:
                cases.append((c_vb, ("error",)))
        # {% endtrans / {% pluralize / any other tag
        c_bb = cond + [t == S("block_begin")]
        if i + 1 < n:
            t1, v1 = toks[i + 1]
            isname = t1 == S("name")
            cases.append((c_bb + [isname, v1 == S("endtrans")], ("return", names, text, i + 1)))
            cases.append((c_bb + [isname, v1 == S("pluralize")], ("return", names, text, i + 1) if allow_pluralize else ("error",)))
            cases.append((c_bb + [z3.Not(z3.And(isname, z3.Or(v1 == S("endtrans"), v1 == S("pluralize"))))], ("error",)))
        else:
            cases.append((c_bb, ("error",)))
        cases.append((cond + [t == S("eof")], ("error",)))

    go(0, [], [], [])
    return cases


class ParseBlock(HintVC):
    prop = PROP
    target = "jinja2.ext:InternationalizationExtension._parse_block"
    timeout_quick = 20000

    def __init__(self, allow_pluralize, n_tokens=N_TOKENS):
        self.allow = allow_pluralize
        self.n_tokens = n_tokens
        VC.__init__(self, PROP, f"C33.parse_block[allow_pluralize={allow_pluralize}]" + ("" if n_tokens == N_TOKENS else f"[{n_tokens} tokens]"))
        self.thorough_only = n_tokens > N_TOKENS
        self.bound_text = f"token scripts of up to {n_tokens} tokens (types and values symbolic) followed by the end of the template"
        self.world = None

    def configure(self, I):
        CP.install(I, lambda: self.world, summarise_loops=False)
        self.I = I

    def setup(self, I, st):
        self.world = w = CP.World(st)
        self.types = [sym(f"type{i}", "str") for i in range(self.n_tokens)]
        self.values = [sym(f"value{i}", "str") for i in range(self.n_tokens)]
        # lexer token-order fact (C01.tokeniter.states): the block body starts after a `block_end`; after data /
        # variable_end / block_end the lexer yields data, variable_begin, block_begin or eof
        prev = S("block_end")
        for t in self.types:
            st.assume(z3.Implies(CP.type_in(prev, CP.AFTER_OUTSIDE), CP.type_in(t.t, CP.OUTSIDE)))
            prev = t.t
        self.script = Script(st, list(zip(self.types, self.values)), w)
        self.script.install(I)
        self.ext, self.env = make_ext(st)
        self.cases = parse_block_spec([(t.t, v.t) for t, v in zip(self.types, self.values)], self.allow)
        return [self.ext, w.parser, self.allow], {}

    def match(self, out, outcome):
        if outcome[0] == "error":
            return z3.BoolVal(is_tse(out))
        if out.raised:
            return z3.BoolVal(False)
        _, names, text, idx = outcome
        v = out.value
        st = out.st
        if not (isinstance(v, tuple) and len(v) == 2 and isinstance(v[0], Ref) and isinstance(st.get(v[0]), HList) and st.get(v[0]).concrete):
            return z3.BoolVal(False)
        items = st.get(v[0]).items
        if len(items) != len(names) or self.script.idx(st) != idx:
            return z3.BoolVal(False)
        try:
            conds = [sv(x) == nm for x, nm in zip(items, names)]
            conds.append(sv(v[1]) == cat(text))
        except Exception:
            return z3.BoolVal(False)
        return z3.And(*conds) if conds else z3.BoolVal(True)

    def p_spec(self, pre, out):
        return z3.And(*[z3.Implies(z3.And(*cond) if cond else z3.BoolVal(True), self.match(out, oc)) for cond, oc in self.cases])

    def p_only_tse(self, pre, out):
        return True if not out.raised else is_tse(out)

    posts = [("names_and_text", p_spec), ("only_TemplateSyntaxError", p_only_tse)]

    def hints(self):
        data = lambda t: t.t == S("data")  # noqa: E731
        return [[z3.Implies(data(t), v.t == S(c)) for t, v in zip(self.types, self.values)] for c in ("%", "a%%b", "a")]

    def concretize(self, model, pre, out):
        toks = []
        for t, v in zip(self.types, self.values):
            toks.append([model_value(model, t.t), model_value(model, v.t)])
        return {"tokens": toks, "allow_pluralize": self.allow}

    def replay(self, w):
        return replay_parse_block(w)

    def finding_key(self, res):
        w = res.witness or {}
        return "tokens:" + ",".join(t for t, _ in w.get("tokens", []))


def parse_block_roles():
    """names of the two accumulators of _parse_block, read off its return statement `return <names>, concat(<buf>)`,
    and the names assigned inside its loop (so that renaming a local does not matter)"""
    import ast as _a
    from pyvc import extract as X
    node, _mod = X.function_ast(E.InternationalizationExtension._parse_block)
    rets = [n for n in _a.walk(node) if isinstance(n, _a.Return)]
    loops = [n for n in _a.walk(node) if isinstance(n, _a.While)]
    if len(rets) != 1 or len(loops) != 1:
        raise Unsupported("_parse_block no longer has one loop and one return statement")
    v = rets[0].value
    if not (isinstance(v, _a.Tuple) and len(v.elts) == 2 and isinstance(v.elts[0], _a.Name) and isinstance(v.elts[1], _a.Call)
            and isinstance(v.elts[1].func, _a.Name) and v.elts[1].func.id == "concat" and len(v.elts[1].args) == 1 and isinstance(v.elts[1].args[0], _a.Name)):
        raise Unsupported("_parse_block does not end in `return <names>, concat(<buf>)`")
    assigned = sorted({n.id for n in _a.walk(loops[0]) if isinstance(n, _a.Name) and isinstance(n.ctx, _a.Store)})
    return v.elts[0].id, v.elts[1].args[0].id, assigned, node


class ParseBlockInductive(HintVC):
    """Unbounded form of C33.parse_block: the `while True` loop of the real _parse_block is cut at an invariant.
    Generic loop head: `buf` joined is an arbitrary string B, `referenced` an arbitrary sequence R (what the statement's
    fold over the tokens consumed so far has produced), the stream stands before an arbitrary window of tokens whose first
    one the lexer can produce outside a tag.  One iteration from there either
      * consumes one data token and appends its value with `%` doubled,
      * consumes `{{ name }}` and appends `%(name)s` to the text and the name to R,
      * returns (R, B) before the name token of `endtrans` / an allowed `pluralize`, or
      * fails with a TemplateSyntaxError - exactly in the remaining cases.
    By induction over the iterations (base: both empty) the result is the fold of these steps over the whole block.
    `buf` is represented by its join (the only uses of `buf` are append and the final concat: table obligation)."""
    prop = PROP
    target = "jinja2.ext:InternationalizationExtension._parse_block"
    timeout_quick = 20000
    W = 4

    def __init__(self, allow_pluralize):
        self.allow = allow_pluralize
        VC.__init__(self, PROP, f"C33.parse_block.inductive[allow_pluralize={allow_pluralize}]")
        self.world = None

    def configure(self, I):
        from pyvc.stmts import LoopSpec
        CP.install(I, lambda: self.world, summarise_loops=False)
        c = self
        v_names, v_buf, assigned, _node = parse_block_roles()

        def heap(st, local):
            st.ghost = dict(st.ghost)
            st.ghost["c33_phase"] = "generic"
            hs = st.get(c.world.stream)
            hs.fields["_idx"] = 0
            hs.fields["current"] = c.script.tok(0)
            hb = st.get(local[v_buf])
            hb.items, hb.arr, hb.n = [c.B], None, None
            hr = st.get(local[v_names])
            hr.items, hr.arr, hr.n, hr.k = None, c.R_arr, c.R_n, "str"

        def inv(ctx):
            st = ctx.st
            hs = st.get(c.world.stream)
            idx = hs.fields["_idx"]
            cur = st.get(hs.fields["current"]).fields
            facts = [CP.type_in(sv(cur["type"]), CP.OUTSIDE)]
            hb, hr = st.get(ctx.local(v_buf)), st.get(ctx.local(v_names))
            if st.ghost.get("c33_phase") != "generic":
                return facts + [z3.BoolVal(hb.concrete and hb.items == []), z3.BoolVal(hr.concrete and hr.items == [])]
            if idx == 0:
                return facts
            joined = cat([sv(x) for x in hb.items]) if hb.concrete else None
            data, varok, _closing = c.step_conds()
            if hr.concrete or joined is None:
                return facts + [z3.BoolVal(False)]
            same_r = z3.And(hr.n == c.R_n, hr.arr == c.R_arr)
            more_r = z3.And(hr.n == c.R_n + 1, hr.arr == z3.Store(c.R_arr, c.R_n, c.values[1].t))
            step = z3.And(
                z3.Implies(data, z3.And(z3.BoolVal(idx == 1), joined == z3.Concat(c.B.t, dbl(c.values[0].t)), same_r)),
                z3.Implies(varok, z3.And(z3.BoolVal(idx == 3), joined == z3.Concat(c.B.t, S("%("), c.values[1].t, S(")s")), more_r)),
                z3.Or(data, varok))
            return facts + [step]

        I.loops[("InternationalizationExtension._parse_block", 0)] = LoopSpec(inv, havoc={a: "str" for a in assigned}, heap=heap, name="block_loop")

    def step_conds(self):
        t, v = [x.t for x in self.types], [x.t for x in self.values]
        data = t[0] == S("data")
        varok = z3.And(t[0] == S("variable_begin"), t[1] == S("name"), t[2] == S("variable_end"))
        closing = z3.And(t[0] == S("block_begin"), t[1] == S("name"),
                         z3.Or(v[1] == S("endtrans"), z3.And(v[1] == S("pluralize"), z3.BoolVal(bool(self.allow)))))
        return data, varok, closing

    def setup(self, I, st):
        self.world = w = CP.World(st)
        self.types = [sym(f"wtype{i}", "str") for i in range(self.W)]
        self.values = [sym(f"wvalue{i}", "str") for i in range(self.W)]
        prev = S("block_end")  # at every loop head the previous token is block_end, data or variable_end
        for t in self.types:
            st.assume(z3.Implies(CP.type_in(prev, CP.AFTER_OUTSIDE), CP.type_in(t.t, CP.OUTSIDE)))
            prev = t.t
        self.script = Script(st, list(zip(self.types, self.values)), w)
        self.script.install(I)
        self.ext, self.env = make_ext(st)
        self.B = sym("text_so_far", "str")
        self.R_arr = z3.Const("names_so_far", z3.ArraySort(z3.IntSort(), z3.StringSort()))
        self.R_n = z3.Int("n_names_so_far")
        st.assume(self.R_n >= 0)
        return [self.ext, w.parser, self.allow], {}

    def p_exit(self, pre, out):
        data, varok, closing = self.step_conds()
        if out.raised:
            return z3.And(z3.BoolVal(is_tse(out)), z3.Not(z3.Or(data, varok, closing)))
        st = out.st
        v = out.value
        if not (isinstance(v, tuple) and len(v) == 2 and isinstance(v[0], Ref) and isinstance(st.get(v[0]), HList) and not st.get(v[0]).concrete):
            return False
        hr = st.get(v[0])
        if self.script.idx(st) != 1:
            return False
        try:
            text_ok = sv(v[1]) == self.B.t
        except Exception:
            return False
        return z3.And(closing, text_ok, hr.n == self.R_n, hr.arr == self.R_arr)

    posts = [("exit", p_exit)]

    def discharge(self, name, pc, cond, timeout, seed, pre, out):
        # the loop obligations (invariant at entry / preserved) get a concrete window as witness as well; a counterexample
        # with two names already accumulated is preferred (it shows ordering mistakes when replayed)
        if cond is not True and cond is not False:
            from pyvc.smt import check_sat
            rr = check_sat(list(pc) + [z3.Not(cond), self.R_n == 2], min(timeout, 4000), seed, use_cvc5=False)
            if rr.status == "sat":
                try:
                    wit = self.concretize(rr.model, pre, out)
                except Exception as ex:  # noqa
                    wit = {"concretize_error": repr(ex)}
                return Res(name, "refuted", rr.backend, rr.seconds, self.describe(out) + " (counterexample with two names accumulated)", self.kind, wit)
        return HintVC.discharge(self, name, pc, cond, timeout, seed, pre if pre is not None else "side", out)

    def hints(self):
        return [[self.values[0].t == S(c), self.B.t == S("")] for c in ("%", "a%%b")] + [[self.R_n == 1]]

    def concretize(self, model, pre, out):
        toks = [[model_value(model, t.t), model_value(model, v.t)] for t, v in zip(self.types, self.values)]
        # the accumulated names are replayed as that many `{{ p_i }}` in front of the window
        k = model_value(model, self.R_n)
        k = max(0, min(3, k)) if isinstance(k, int) else 0
        pre_toks = []
        for i in range(k):
            pre_toks += [["variable_begin", "{{"], ["name", f"p{i}"], ["variable_end", "}}"]]
        if out is None:
            # a loop obligation: replay the one iteration, then close the block so that the accumulated result is returned
            used = 1 if toks[0][0] == "data" else 3
            toks = toks[:used] + [["block_begin", "{%"], ["name", "endtrans"]]
        return {"tokens": pre_toks + toks, "allow_pluralize": self.allow, "text_so_far": model_value(model, self.B.t), "names_so_far": k}

    def replay(self, w):
        return replay_parse_block(w)

    def finding_key(self, res):
        w = res.witness or {}
        return "tokens:" + ",".join(t for t, _ in w.get("tokens", []))


def parse_block_buf_usage(task, tier, seed):
    """table obligation behind the abstraction of `buf` by its join: in the live source of _parse_block `buf` is only
    created empty, appended to and joined; `referenced` only created empty, appended to and returned; concat is "".join"""
    import ast as _a
    from pyvc import extract as X
    v_names, v_buf, _assigned, node = parse_block_roles()
    bad = []
    parents = {}
    for n in _a.walk(node):
        for ch in _a.iter_child_nodes(n):
            parents[ch] = n
    for n in _a.walk(node):
        if isinstance(n, _a.Name) and n.id in (v_buf, v_names):
            p = parents.get(n)
            ok = False
            if isinstance(n.ctx, _a.Store) and isinstance(p, _a.Assign) and isinstance(p.value, _a.List) and not p.value.elts:
                ok = True
            elif isinstance(p, _a.Attribute) and p.attr == "append" and isinstance(parents.get(p), _a.Call) and parents[p].func is p:
                ok = True
            elif n.id == v_buf and isinstance(p, _a.Call) and isinstance(p.func, _a.Name) and p.func.id == "concat" and p.args == [n]:
                ok = True
            elif n.id == v_names and isinstance(p, _a.Tuple) and isinstance(parents.get(p), _a.Return):
                ok = True
            if not ok:
                bad.append(f"{n.id} at line {n.lineno}")
    import jinja2.utils as U
    join_ok = getattr(U.concat, "__self__", None) == "" and getattr(U.concat, "__name__", "") == "join" and E.concat is U.concat
    if not join_ok:
        bad.append("concat is not ''.join")
    return [Res("C33.parse_block.inductive.buf_usage", "discharged" if not bad else "refuted", "table", 0,
                "buf / referenced are only created empty, appended to, joined / returned" if not bad else "other use of " + ", ".join(bad), "table",
                None if not bad else {"uses": bad})]


def ref_parse_block(tokens, allow_pluralize):
    """executable form of the statement: -> ("error",) | ("return", names, text, index)"""
    names, text, i = [], "", 0
    n = len(tokens)

    def typ(j):
        return tokens[j][0] if j < n else "eof"

    def val(j):
        return tokens[j][1] if j < n else ""

    while True:
        t = typ(i)
        if t == "data":
            text += val(i).replace("%", "%%")
            i += 1
        elif t == "variable_begin":
            if typ(i + 1) == "name" and typ(i + 2) == "variable_end":
                names.append(val(i + 1))
                text += "%(" + val(i + 1) + ")s"
                i += 3
            else:
                return ("error",)
        elif t == "block_begin":
            if typ(i + 1) == "name" and val(i + 1) == "endtrans":
                return ("return", names, text, i + 1)
            if typ(i + 1) == "name" and val(i + 1) == "pluralize" and allow_pluralize:
                return ("return", names, text, i + 1)
            return ("error",)
        else:
            return ("error",)


def replay_parse_block(w):
    toks = [(str(t), str(v)) for t, v in w["tokens"]]
    # cut at the first eof: the script is followed by the end of the template
    for k, (t, _) in enumerate(toks):
        if t == "eof":
            toks = toks[:k]
            break
    env = jinja2.Environment(extensions=["jinja2.ext.i18n"])
    ext = env.extensions["jinja2.ext.InternationalizationExtension"]
    parser = P.Parser(env, "")
    parser.stream = L.TokenStream(iter([L.Token(1, t, v) for t, v in toks]), "<replay>", None)
    want = ref_parse_block(toks, w["allow_pluralize"])
    try:
        names, text = ext._parse_block(parser, w["allow_pluralize"])
        consumed = None
        # position: the current token must be the name token after the closing block_begin
        cur = parser.stream.current
        got = ("return", list(names), text, (cur.type, cur.value))
    except TemplateSyntaxError:
        got = ("error",)
    except Exception as ex:  # noqa
        got = ("raised", type(ex).__name__, str(ex))
    if want[0] == "return":
        want = ("return", want[1], want[2], toks[want[3]])
    return got != want, f"_parse_block over tokens {toks!r} (allow_pluralize={w['allow_pluralize']}): real={got!r} statement={want!r}"



# ------------------------------------------------------------------------------------------------
# tree matching: the node built on a path against an expected shape
#   ("node", cls, {field: exp}) | ("list", [exp, ...]) | ("str", z3 string term) | ("is", value) | ("none",)
# ------------------------------------------------------------------------------------------------

def match_tree(st, v, exp, conds, where="node"):
    """False on a structural mismatch (self.mismatch says where), else True with the string equalities added to conds"""
    k = exp[0]
    if k == "none":
        return v is None or (where, "expected None")
    if k == "is":
        return v == exp[1] or (where, f"expected the given object {exp[1]!r}, got {v!r}")
    if k == "str":
        if isinstance(v, str) or (isinstance(v, Sym) and v.k == "str"):
            conds.append(sv(v) == exp[1])
            return True
        return (where, f"expected a string, got {v!r}")
    if k == "list":
        if not (isinstance(v, Ref) and isinstance(st.get(v), HList) and st.get(v).concrete):
            return (where, f"expected a list, got {v!r}")
        items = st.get(v).items
        if len(items) != len(exp[1]):
            return (where, f"expected {len(exp[1])} elements, got {len(items)}")
        for i, (x, e) in enumerate(zip(items, exp[1])):
            r = match_tree(st, x, e, conds, f"{where}[{i}]")
            if r is not True:
                return r
        return True
    if k == "node":
        if not (isinstance(v, Ref) and isinstance(st.get(v), HObj)):
            return (where, f"expected a {exp[1].__name__} node, got {v!r}")
        h = st.get(v)
        if h.cls is not exp[1]:
            return (where, f"expected a {exp[1].__name__} node, got {getattr(h.cls, '__name__', h.cls)}")
        for f, e in exp[2].items():
            if f not in h.fields:
                return (f"{where}.{f}", "field not set")
            r = match_tree(st, h.fields[f], e, conds, f"{where}.{f}")
            if r is not True:
                return r
        return True
    raise ValueError(exp)


def n_(cls, **fields):
    return ("node", cls, fields)


def l_(*items):
    return ("list", list(items))


def s_(t):
    return ("str", t if not isinstance(t, str) else S(t))


# ------------------------------------------------------------------------------------------------
# C33.make_node
# ------------------------------------------------------------------------------------------------
VAR_SHAPES = [(), ("a",), ("num",), ("a", "num"), ("num", "a"), ("a", "b", "num")]


def gettext_name(has_context, has_plural):
    """documented functions: gettext(message), ngettext(singular, plural, n), pgettext(context, message),
    npgettext(context, singular, plural, n)"""
    return ("n" if has_plural else "") + ("p" if has_context else "") + "gettext"


class MakeNode(HintVC):
    prop = PROP
    target = "jinja2.ext:InternationalizationExtension._make_node"
    timeout_quick = 15000

    def __init__(self, keys, has_plural, has_context):
        self.keys, self.has_plural, self.has_context = tuple(keys), has_plural, has_context
        VC.__init__(self, PROP, f"C33.make_node[vars={','.join(keys) or '-'};plural={int(has_plural)};context={int(has_context)}]")
        self.world = None

    def configure(self, I):
        CP.install(I, lambda: self.world, summarise_loops=False)

    def setup(self, I, st):
        self.world = CP.World(st)
        self.newstyle = sym("newstyle", "bool")
        self.ext, self.env = make_ext(st, {"newstyle_gettext": self.newstyle})
        self.singular = sym("singular", "str")
        self.plural = sym("plural", "str") if self.has_plural else None
        self.context = sym("context", "str") if self.has_context else None
        self.values = [CP.abstract_node(st, N.Expr, f"variables[{k}]") for k in self.keys]
        self.variables = st.alloc(HDict(items=dict(zip(self.keys, self.values))), initial=True)
        self.plural_expr = CP.abstract_node(st, N.Expr, "plural_expr") if self.has_plural else None
        self.vars_referenced = sym("vars_referenced", "bool")
        self.num_called_num = sym("num_called_num", "bool")
        # requires (established by parse, see C33.parse.*.make_node_requires): referenced names are registered in
        # `variables`; the count is called `num` only in a pluralized block whose variables contain `num`
        if not self.keys:
            st.assume(z3.Not(self.vars_referenced.t))
        if not (self.has_plural and "num" in self.keys):
            st.assume(z3.Not(self.num_called_num.t))
        return [self.ext, self.singular, self.plural, self.context, self.variables, self.plural_expr, self.vars_referenced, self.num_called_num], {}

    # ---- expected shapes
    def call_shape(self, sing_t, plur_t, kwargs):
        args = []
        if self.has_context:
            args.append(n_(N.Const, value=s_(self.context.t)))
        args.append(n_(N.Const, value=s_(sing_t)))
        if self.has_plural:
            args.append(n_(N.Const, value=s_(plur_t)))
            args.append(("is", self.plural_expr))
        return n_(N.Call, node=n_(N.Name, name=s_(gettext_name(self.has_context, self.has_plural)), ctx=s_("load")),
                  args=l_(*args), kwargs=l_(*kwargs), dyn_args=("none",), dyn_kwargs=("none",))

    def p_shape(self, pre, out):
        if out.raised:
            return False
        st = out.st
        v = out.value
        self.mismatch = None
        if not (isinstance(v, Ref) and isinstance(st.get(v), HObj) and st.get(v).cls is N.Output):
            self.mismatch = [("result", "not an Output node")]
            return False
        nodes = st.get(v).fields.get("nodes")
        if not (isinstance(nodes, Ref) and isinstance(st.get(nodes), HList) and st.get(nodes).concrete and len(st.get(nodes).items) == 1):
            self.mismatch = [("Output.nodes", "not a list of one node")]
            return False
        top = st.get(nodes).items[0]
        htop = st.get(top) if isinstance(top, Ref) else None
        top_cls = htop.cls if isinstance(htop, HObj) else None
        sing, plur = self.singular.t, (self.plural.t if self.has_plural else None)
        cases = []  # (condition on the flags, expected shape)
        # new style: the function formats and escapes itself; variables are keywords, the count is not repeated as `num`
        kw_all = [n_(N.Keyword, key=s_(k), value=("is", x)) for k, x in zip(self.keys, self.values)]
        kw_nonum = [n_(N.Keyword, key=s_(k), value=("is", x)) for k, x in zip(self.keys, self.values) if k != "num"]
        cases.append(([self.newstyle.t, z3.Not(self.num_called_num.t)], self.call_shape(sing, plur, kw_all)))
        cases.append(([self.newstyle.t, self.num_called_num.t], self.call_shape(sing, plur, kw_nonum)))
        # old style: MarkSafeIfAutoescape(call); the `% {vars}` step and the doubled `%` go together
        pairs = [n_(N.Pair, key=n_(N.Const, value=s_(k)), value=("is", x)) for k, x in zip(self.keys, self.values)]
        if top_cls is N.Mod:
            old = n_(N.Mod, left=n_(N.MarkSafeIfAutoescape, expr=self.call_shape(sing, plur, [])), right=n_(N.Dict, items=l_(*pairs)))
            cases.append(([z3.Not(self.newstyle.t)], old))
        else:
            # no formatting step: only correct when nothing has to be substituted; the text must then be un-doubled
            old = n_(N.MarkSafeIfAutoescape, expr=self.call_shape(undbl(sing, False), undbl(plur) if plur is not None else None, []))
            cases.append(([z3.Not(self.newstyle.t), z3.Not(self.vars_referenced.t)], old))
            cases.append(([z3.Not(self.newstyle.t), self.vars_referenced.t], None))
        out_conds = []
        self.mismatch = []
        self.case_info = []  # (cond, structural mismatch or None) for concretize
        for cond, shape in cases:
            if shape is None:
                self.mismatch.append((str(cond), "no `%` step although variables are referenced"))
                self.case_info.append((cond, "shape:no-format-step"))
                out_conds.append(z3.Not(z3.And(*cond)))
                continue
            conds = []
            r = match_tree(st, top, shape, conds, "Output.nodes[0]")
            self.case_info.append((cond, None if r is True else "shape:" + r[0]))
            if r is not True:
                self.mismatch.append((str(cond),) + tuple(r))
                out_conds.append(z3.Not(z3.And(*cond)))
            else:
                out_conds.append(z3.Implies(z3.And(*cond), z3.And(*conds) if conds else z3.BoolVal(True)))
        return z3.And(*out_conds)

    posts = [("shape", p_shape)]

    def hints(self):
        hs = []
        for c in ("%%", "a%%b%", "a"):
            hs.append([self.singular.t == S(c)])
            if self.has_plural:
                hs.append([self.singular.t == S(c), self.plural.t == S(c + c)])
                hs.append([self.plural.t == S(c + c)])
        return hs

    def describe(self, out):
        extra = f" structural mismatches per case: {self.mismatch}" if getattr(self, "mismatch", None) else ""
        return VC.describe(self, out) + extra[:300]

    def concretize(self, model, pre, out):
        mv = lambda t: model_value(model, t)  # noqa: E731
        symptom = "text"  # the shape is right, a string differs (doubling of `%`)
        for cond, sm in getattr(self, "case_info", []):
            if all(z3.is_true(model.eval(c, model_completion=True)) for c in cond) and sm is not None:
                symptom = sm
        return {"symptom": symptom,
                "keys": list(self.keys), "singular": mv(self.singular.t), "plural": mv(self.plural.t) if self.has_plural else None,
                "context": mv(self.context.t) if self.has_context else None, "newstyle": bool(mv(self.newstyle.t)),
                "vars_referenced": bool(mv(self.vars_referenced.t)), "num_called_num": bool(mv(self.num_called_num.t))}

    def replay(self, w):
        return replay_make_node(w)

    def finding_key(self, res):
        w = res.witness or {}
        return "%s:%s:%s:%s" % ("newstyle" if w.get("newstyle") else "oldstyle",
                                "vars-referenced" if w.get("vars_referenced") else "no-vars-referenced",
                                "vars" if w.get("keys") else "no-vars", w.get("symptom"))


def replay_make_node(w):
    """the real _make_node on the witness; the oracle is the property's: compile the node, render it with identity
    translations and compare with what the (doubled) message text denotes, plus the extractability of the message"""
    env = jinja2.Environment(extensions=["jinja2.ext.i18n"])
    env.newstyle_gettext = bool(w["newstyle"])
    ext = env.extensions["jinja2.ext.InternationalizationExtension"]
    keys = list(w["keys"])
    variables = {k: N.Name("x_" + k, "load") for k in keys}
    has_plural = w["plural"] is not None
    plural_expr = N.Name("count", "load") if has_plural else None
    sing, plur = w["singular"], w["plural"]
    desc = f"_make_node({sing!r}, {plur!r}, {w['context']!r}, variables={keys}, vars_referenced={w['vars_referenced']}, num_called_num={w['num_called_num']}) newstyle={w['newstyle']}"
    if w["num_called_num"] and "num" in variables:
        plural_expr = variables["num"]
    try:
        node = ext._make_node(sing, plur, w["context"], dict(variables), plural_expr, w["vars_referenced"], w["num_called_num"])
    except Exception as ex:  # noqa
        return True, f"{desc} raised {type(ex).__name__}: {ex}"
    if not (isinstance(node, N.Output) and len(node.nodes) == 1):
        return True, f"{desc} -> {node!r}: not an Output of one node"
    calls = list(node.find_all(N.Call))
    if len(calls) != 1 or not isinstance(calls[0].node, N.Name) or calls[0].node.name != gettext_name(w["context"] is not None, has_plural):
        return True, f"{desc} -> {node!r}: the callee is not {gettext_name(w['context'] is not None, has_plural)}"
    # documented shape of the old-style expression: the call is marked safe (when autoescaping), then formatted
    top = node.nodes[0]
    if not w["newstyle"]:
        inner = top.left if isinstance(top, N.Mod) else top
        if not (isinstance(inner, N.MarkSafeIfAutoescape) and isinstance(inner.expr, N.Call)):
            return True, f"{desc} -> {node!r}: the old-style call is not wrapped in MarkSafeIfAutoescape"
        if isinstance(top, N.Mod):
            pk = [(p.key.value if isinstance(p.key, N.Const) else None) for p in getattr(top.right, "items", [])]
            if not isinstance(top.right, N.Dict) or pk != keys:
                return True, f"{desc} -> {node!r}: formatted with {pk!r}, the variables are {keys!r}"
    elif not isinstance(top, N.Call):
        return True, f"{desc} -> {node!r}: the new-style expression is not the plain call"
    consts = [a.value for a in calls[0].args if isinstance(a, N.Const)]
    want_consts = ([w["context"]] if w["context"] is not None else []) + [None] + ([None] if has_plural else [])
    if len(consts) != len(want_consts) or (w["context"] is not None and consts[0] != w["context"]):
        return True, f"{desc} -> {node!r}: constant arguments {consts!r} (context first, then singular, then plural expected)"
    if has_plural and (not calls[0].args or calls[0].args[-1] is not plural_expr):
        return True, f"{desc} -> {node!r}: the count expression is not the last argument"
    # render it (as is, and with markup characters appended to the texts; autoescape off and on)
    for count, extra, autoescape in [(c, x, ae) for c in ((1, 2) if has_plural else (1,)) for x in ("", " <&>") for ae in (False, True)]:
        if extra:
            sing, plur = w["singular"] + extra, (w["plural"] + extra if has_plural else None)
            node = ext._make_node(sing, plur, w["context"], dict(variables), plural_expr, w["vars_referenced"], w["num_called_num"])
        else:
            sing, plur = w["singular"], w["plural"]
            node = ext._make_node(sing, plur, w["context"], dict(variables), plural_expr, w["vars_referenced"], w["num_called_num"])
        env.autoescape = autoescape
        rec = NAT._Recorder()
        env.install_gettext_callables(rec.gettext, rec.ngettext, newstyle=bool(w["newstyle"]), pgettext=rec.pgettext, npgettext=rec.npgettext)
        tree = N.Template([node], lineno=1)
        tree.set_environment(env)
        for n in tree.find_all(N.Node):
            if n.lineno is None:
                n.lineno = 1
        ctx = {"x_" + k: f"<{k}>" for k in keys}
        ctx["count"] = count
        if "num" in keys:
            ctx["x_num"] = count
        vals = {k: ctx["x_" + k] for k in keys}
        if has_plural and w["newstyle"]:
            vals.setdefault("num", count)
        if w["context"] is not None and w["newstyle"]:
            vals.setdefault("context", w["context"])
        form = sing if (not has_plural or count == 1) else plur
        try:
            want = str((markupsafe.Markup(form) if autoescape else form) % vals)  # what the doubled message denotes
        except Exception:
            return False, f"{desc}: the witness text {form!r} is not a doubled message (outside the precondition)"
        try:
            code = env.compile(tree, "<replay>", "<replay>")
            out = jinja2.Template.from_code(env, code, env.make_globals(None)).render(ctx)
        except Exception as ex:  # noqa
            return True, f"{desc}: rendering the node raised {type(ex).__name__}: {ex}; the message {form!r} denotes {want!r}"
        if out != want:
            return True, f"{desc} autoescape={autoescape}: the node renders {out!r}; the message {form!r} denotes {want!r}"
        msgs = {(f, NAT.norm_extracted(m)) for (_l, f, m) in E.extract_from_ast(tree)}
        for c in rec.calls:
            if c not in msgs:
                return True, f"{desc}: {c!r} passed at run time, extracted only {sorted(msgs)!r}"
    # structure: keywords / dict pairs in the order of the variables
    ks = [k.key for k in calls[0].kwargs]
    if w["newstyle"]:
        wantk = [k for k in keys if not (w["num_called_num"] and k == "num")]
        if ks != wantk:
            return True, f"{desc}: keywords {ks!r}, expected {wantk!r}"
    elif ks:
        return True, f"{desc}: old-style call has keywords {ks!r}"
    return False, f"{desc}: renders like its text"


def make_node_tasks():
    return [MultiTask(f"C33.make_node[vars={','.join(keys) or '-'}]", [MakeNode(keys, hp, hc) for hp in (False, True) for hc in (False, True)], strip_variant=True)
            for keys in VAR_SHAPES]



# ------------------------------------------------------------------------------------------------
# small "case enumeration" helper: a reference function written with branch(cond) is run once per decision vector
# ------------------------------------------------------------------------------------------------

def enumerate_cases(spec_fn):
    """spec_fn(branch) -> outcome; branch(c) takes a z3 Bool or a Python bool.  -> [(conds, outcome)]"""
    results = []
    stack = [[]]
    while stack:
        decisions = stack.pop()
        conds = []
        pos = [0]

        def branch(c, decisions=decisions, conds=conds, pos=pos):
            if isinstance(c, bool):
                return c
            c = z3.simplify(c)
            if z3.is_true(c):
                return True
            if z3.is_false(c):
                return False
            i = pos[0]
            pos[0] += 1
            if i < len(decisions):
                d = decisions[i]
            else:
                d = True
                stack.append(decisions[:i] + [False])
                decisions.append(True)
            conds.append(c if d else z3.Not(c))
            return d

        outcome = spec_fn(branch)
        results.append((conds, outcome))
    return results


class MultiTask:
    """several VCs run in one worker (the obligations keep the names of the VCs)"""

    def __init__(self, name, vcs, strip_variant=False):
        self.prop, self.name, self.kind = PROP, name, "vc"
        self.vcs = vcs
        self.strip_variant = strip_variant  # obligations named without the [variant] (it goes into the detail)
        bt = [getattr(v, "bound_text", None) for v in vcs]
        self.bound_text = "; ".join(sorted({b for b in bt if b})) or None

    def run(self, tier, seed):
        out = []
        for v in self.vcs:
            if tier == "quick" and getattr(v, "thorough_only", False):
                continue
            rs = v.run(tier, seed)
            for r in rs:
                if r.witness is not None and isinstance(r.witness, dict):
                    r.witness = dict(r.witness, vc=v.name)
                r.detail = (r.detail or "") + (f" [{v.name}]" if (self.strip_variant or v.name not in (r.name or "")) else "")
                if self.strip_variant:
                    import re as _re
                    r.name = _re.sub(r"\[[^\]]*\]", "", r.name, count=1)
            out += rs
        return out

    def _vc(self, w):
        for v in self.vcs:
            if v.name == (w or {}).get("vc"):
                return v
        return self.vcs[0]

    def replay(self, w):
        return self._vc(w).replay(w)

    def finding_key(self, res):
        v = self._vc(res.witness)
        fk = getattr(v, "finding_key", None)
        return fk(res) if fk else None


# ------------------------------------------------------------------------------------------------
# C33.parse  (count expression = C33.plural, trimming = C33.trim, context string, variables, errors)
# ------------------------------------------------------------------------------------------------
TRIM = z3.Function("i18n_trim_whitespace", z3.StringSort(), z3.StringSort())

# head items: ("mod",) a trimmed/notrimmed modifier | ("var", i) bare name i | ("bind", i) name i = expression | ("colon",)
HEADS = {
    "empty": [],
    "bind": [("bind", 0)],
    "var": [("var", 0)],
    "mod": [("mod",)],
    "mod_bind": [("mod",), ("bind", 0)],
    "bind_bind": [("bind", 0), ("comma",), ("bind", 1)],
    "bind_var": [("bind", 0), ("comma",), ("var", 1)],
    "var_mod": [("var", 0), ("comma",), ("mod",)],
    "bind_nocomma_bind": [("bind", 0), ("bind", 1)],
    "colon": [("colon",)],
    "var_var_var": [("var", 0), ("comma",), ("var", 1), ("comma",), ("var", 2)],
}


def trimmed_text(t):
    return TRIM(t)


class ParseTrans(VC):
    """InternationalizationExtension.parse over a scripted tag: `trans` [string] <head> `%}` BODY (`pluralize` [name] `%}`
    BODY)? `endtrans`; names and texts are symbolic, _parse_block / _make_node / _trim_whitespace / parse_expression
    are abstract callees with the contracts proved in C33.parse_block / C33.make_node / C33.bounded.trim / C01."""
    prop = PROP
    target = "jinja2.ext:InternationalizationExtension.parse"
    timeout_quick = 15000

    def __init__(self, head, tail="A", k1=1, k2=1, ctx=False):
        self.head_name, self.head, self.tail, self.k1, self.k2, self.ctx = head, HEADS[head], tail, k1, k2, ctx
        VC.__init__(self, PROP, f"C33.parse[{head};tail={tail};names={k1},{k2};context={int(ctx)}]")
        self.bound_text = "tag heads of up to 3 items (bindings, bare names, trimmed/notrimmed, colon) with symbolic names, up to 2 referenced names per form"
        self.world = None

    # ---- script
    def build_script(self, st):
        toks = [("name", "trans")]
        self.ctx_t = sym("context_string", "str") if self.ctx else None
        if self.ctx:
            toks.append(("string", self.ctx_t))
        self.names = [sym(f"n{i}", "str") for i in range(3)]
        self.mod = sym("modifier", "str")
        st.assume(z3.Or(self.mod.t == S("trimmed"), self.mod.t == S("notrimmed")))
        self.expr_at = {}
        for it in self.head:
            if it[0] == "mod":
                toks.append(("name", self.mod))
            elif it[0] == "var":
                toks.append(("name", self.names[it[1]]))
                # a bare name that is a modifier word is a modifier (while none was given): kept apart by `requires`
                st.assume(self.names[it[1]].t != S("trimmed"), self.names[it[1]].t != S("notrimmed"))
            elif it[0] == "bind":
                toks += [("name", self.names[it[1]]), ("assign", "=")]
                self.expr_at[len(toks)] = it[1]
                toks.append(("integer", sym(f"expr_token{it[1]}", "str")))
            elif it[0] == "comma":
                toks.append(("comma", ","))
            elif it[0] == "colon":
                toks.append(("colon", ":"))
        toks.append(("block_end", "%}"))
        self.close1 = sym("closing_tag1", "str")
        self.pv = sym("pluralize_arg", "str")
        if self.tail == "A":
            st.assume(z3.Or(self.close1.t == S("pluralize"), self.close1.t == S("endtrans")))
            toks += [("name", self.close1), ("block_end", "%}"), ("name", "endtrans"), ("block_end", "%}")]
        else:
            st.assume(self.close1.t == S("pluralize"))
            toks += [("name", self.close1), ("name", self.pv), ("block_end", "%}"), ("name", "endtrans"), ("block_end", "%}")]
        return toks

    def configure(self, I):
        CP.install(I, lambda: self.world, summarise_loops=False)
        c = self

        # a dict that receives a symbolic string key becomes an abstract map (domain / value arrays)
        base_setitem = I.setitem

        def setitem(st, obj, idx, v, node=None):
            if isinstance(obj, Ref):
                h = st.get(obj)
                if isinstance(h, HDict) and h.concrete and isinstance(idx, Sym) and idx.k == "str" and all(isinstance(k, str) for k in h.items):
                    dom = z3.K(z3.StringSort(), z3.BoolVal(False))
                    val = z3.K(z3.StringSort(), to_term(None, "obj"))
                    for k, x in h.items.items():
                        dom = z3.Store(dom, S(k), True)
                        val = z3.Store(val, S(k), to_term(x, "obj"))
                    h.size = z3.IntVal(len(h.items))
                    h.items, h.dom, h.val, h.kk, h.vk = None, dom, val, "str", "obj"
            return base_setitem(st, obj, idx, v, node)

        I.setitem = setitem
        base_truth = I.truth_term

        def truth_term(st, v):
            if isinstance(v, Ref) and isinstance(st.get(v), HDict) and not st.get(v).concrete:
                return z3.simplify(st.get(v).size > 0)
            return base_truth(st, v)

        I.truth_term = truth_term
        def parse_expression(I_, st, args, kwargs, node):
            h = st.get(c.world.stream)
            i = h.fields["_idx"]
            if i not in c.expr_at:
                raise Unsupported("parse_expression called where the script has no expression", node)
            s_err = st.fork()
            s_err.trace.append(Event("call", "Parser.parse_expression", [], {}, "raise"))
            h.fields["_idx"] = i + 1
            h.fields["current"] = c.script.tok(i + 1)
            r = CP.abstract_node(st, N.Expr, f"expr{c.expr_at[i]}")
            st.ghost = dict(st.ghost)
            st.ghost[f"expr{c.expr_at[i]}"] = r
            st.trace.append(Event("call", "Parser.parse_expression", [], {}, r))
            return [(s_err, CP.tse("Parser.parse_expression", node, s_err)), (st, r)]

        def parse_block(I_, st, args, kwargs, node):
            allow = args[2]
            cur = st.get(st.get(c.world.stream).fields["current"]).fields
            if cur["type"] != "name":
                raise Unsupported("_parse_block called where the script has no body", node)
            which = len([e for e in st.trace if e.kind == "call" and e.name == "_parse_block" and e.result != "raise"])
            k = c.k1 if which == 0 else c.k2
            s_err = st.fork()
            s_err.trace.append(Event("call", "_parse_block", [allow], {}, "raise"))
            names = [sym(f"ref{which}_{j}", "str") for j in range(k)]
            text = sym("singular_text" if which == 0 else "plural_text", "str")
            # postcondition of C33.parse_block: the current token is the closing name token
            if allow is not True:
                st.assume(sv(cur["value"]) == S("endtrans"))
            lst = st.alloc(HList(items=list(names)))
            st.trace.append(Event("call", "_parse_block", [allow], {}, (lst, text)))
            return [(s_err, CP.tse("_parse_block", node, s_err)), (st, (lst, text))]

        def trim(I_, st, args, kwargs, node):
            r = Sym(TRIM(sv(args[1])), "str")
            st.trace.append(Event("call", "_trim_whitespace", [args[1]], {}, r))
            return [(st, r)]

        def make_node(I_, st, args, kwargs, node):
            r = st.alloc(HObj(N.Output, fields={"nodes": None, "lineno": None, "environment": None}, path="made_node"))
            st.get(r).plain_setattr = True
            st.trace.append(Event("call", "_make_node", list(args[1:]), dict(kwargs), r))
            return [(st, r)]

        def set_lineno(I_, st, args, kwargs, node):
            st.trace.append(Event("call", "set_lineno", list(args), dict(kwargs), args[0]))
            return [(st, args[0])]

        from pyvc import models as _models
        I.specs[("fn", id(set))] = lambda I_, st, args, kwargs, node: _models.instantiate(I_, st, set, args, kwargs, node)
        def free_identifier(I_, st, args, kwargs, node):
            # Parser.free_identifier: "Return a new free identifier as InternalName" (distinct from every template name)
            n = len(st.ghost.get("free_ids", []))
            r = st.alloc(HObj(N.InternalName, fields={"name": f"fi{n + 1}", "lineno": (list(args[1:]) + [kwargs.get("lineno")])[0], "environment": None}, path="free_identifier"))
            st.get(r).plain_setattr = True
            st.ghost = dict(st.ghost)
            st.ghost["free_ids"] = list(st.ghost.get("free_ids", [])) + [r]
            st.trace.append(Event("call", "Parser.free_identifier", list(args[1:]), dict(kwargs), r))
            return [(st, r)]

        I.specs["Parser.free_identifier"] = free_identifier
        I.specs["Parser.parse_expression"] = parse_expression
        I.specs["InternationalizationExtension._parse_block"] = parse_block
        I.specs["InternationalizationExtension._trim_whitespace"] = trim
        I.specs["InternationalizationExtension._make_node"] = make_node
        I.specs["Output.set_lineno"] = set_lineno
        I.specs["Node.set_lineno"] = set_lineno

    def setup(self, I, st):
        self.world = w = CP.World(st)
        toks = self.build_script(st)
        self.script = Script(st, toks, w)
        self.script.install(I)
        self.lineno = sym("trans_lineno", "int")
        st.get(self.script.refs[0]).fields["lineno"] = self.lineno
        self.policy = sym("policy_trimmed", "bool")
        pol = st.alloc(HDict(items={"ext.i18n.trimmed": self.policy}), initial=True)
        self.ext, self.env = make_ext(st, {"policies": pol})
        st.assume(TRIM(S("")) == S(""))  # the empty text trims to itself (C33.bounded.trim covers it)
        return [self.ext, w.parser], {}

    # ---- the reference: what the documentation says the tag means
    def reference(self, st, branch):
        """-> ("error", cls) | ("ok", {...})"""
        TSE, TAE = TemplateSyntaxError, TemplateAssertionError
        bound = []  # [(name term, ("expr", i) | ("name", term))] in tag order
        modifier = None
        items = list(self.head)
        first = True
        i = 0
        colon = False
        while i < len(items):
            it = items[i]
            if bound:
                # variables are separated by commas
                if it[0] != "comma":
                    return ("error", TSE)
                i += 1
                if i >= len(items):
                    return ("error", TSE)
                it = items[i]
            elif it[0] == "comma":
                return ("error", TSE)
            if it[0] == "colon":
                colon = True
                i += 1
                break
            if it[0] == "mod":
                if modifier is None:
                    modifier = self.mod.t == S("trimmed")
                else:
                    return ("unspecified",)
            elif it[0] in ("var", "bind"):
                nm = self.names[it[1]].t
                for other, _ in bound:
                    if branch(other == nm):
                        return ("error", TAE)  # "defined twice"
                bound.append((nm, ("expr", it[1]) if it[0] == "bind" else ("name", nm)))
            i += 1
        if colon and i < len(items):
            return ("error", TSE)
        names1 = [sym(f"ref0_{j}", "str").t for j in range(self.k1)]
        names2 = [sym(f"ref1_{j}", "str").t for j in range(self.k2)]
        have_plural = branch(self.close1.t == S("pluralize"))
        count = None  # (name term, value)
        temp_assign = None
        # "By default, the first variable in a block is used to determine whether to use singular or plural form"
        if bound:
            count = bound[0]
        elif names1:
            count = (names1[0], ("name", names1[0]))
        if bound and bound[0][1][0] == "expr":
            # a call is evaluated once: bound to a temporary that both the variable and the count use
            e = st.ghost.get(f"expr{bound[0][1][1]}")
            is_call = st.get(e).fields.get("isinst:Call") if e is not None else None
            if is_call is None:
                is_call = fresh("is_call_untested", "bool")
            if branch(to_term(is_call, "bool")):
                temp_assign = e
                bound[0] = (bound[0][0], ("temp",))
                count = bound[0]
        referenced = list(names1)
        if have_plural:
            if self.tail == "B":
                # "specify the variable used for pluralizing as a parameter to pluralize"
                hit = None
                for nm, val in bound:
                    if hit is None and branch(nm == self.pv.t):
                        hit = (nm, val)
                if hit is None:
                    return ("error", TAE)
                count = hit
            referenced += names2
            if count is None:
                return ("error", TSE)  # nothing to choose the form by
        variables = list(bound)
        # free names are looked up in the context
        for r in referenced:
            variables.append((r, ("name", r)))  # later entries only count when the name is not bound before
        trim = modifier if modifier is not None else self.policy.t
        return ("ok", {"variables": variables, "have_plural": have_plural, "count": count if have_plural else None,
                       "trim": trim, "vars_referenced": bool(referenced), "temp_assign": temp_assign,
                       "num_called_num": (count[0] == S("num")) if (have_plural and count is not None) else z3.BoolVal(False)})

    # ---- matching a path against an expected outcome
    def node_is(self, st, term_or_ref, exp, temp_nodes):
        """z3 Bool: the value (a Ref or an opaque term read back from the abstract map) is the expected expression"""
        def eqs(pred):
            if isinstance(term_or_ref, Ref):
                return pred(term_or_ref)
            t = to_term(term_or_ref, "obj")
            alts = []
            for i in sorted(st.heap):
                h = st.heap[i]
                if isinstance(h, HObj) and inspect.isclass(h.cls) and issubclass(h.cls, N.Node):
                    p = pred(Ref(i))
                    if p is not False:
                        alts.append(z3.And(t == to_term(Ref(i), "obj"), p if p is not True else z3.BoolVal(True)))
            return z3.Or(*alts) if alts else z3.BoolVal(False)

        if exp[0] == "expr":
            want = st.ghost.get(f"expr{exp[1]}")
            return eqs(lambda r: True if r == want else False)
        if exp[0] == "temp":
            # the temporary the call was assigned to: the assignment's own target (an internal name), or a load of the
            # same name when the target is an ordinary Name node
            tgt = getattr(self, "_tmp_target", None)
            if not (isinstance(tgt, Ref) and isinstance(st.get(tgt), HObj)):
                return z3.BoolVal(False)
            ht = st.get(tgt)

            def pred_t(r):
                h = st.get(r)
                if getattr(h, "abstract_node", False):
                    return False
                if ht.cls is N.InternalName:
                    return r == tgt
                if h.cls is not N.Name or ht.cls is not N.Name:
                    return False
                try:
                    return z3.And(sv(h.fields["name"]) == sv(ht.fields["name"]), sv(h.fields["ctx"]) == S("load"))
                except Exception:
                    return False
            return eqs(pred_t)
        if exp[0] == "name":
            def pred(r):
                h = st.get(r)
                if h.cls is not N.Name or getattr(h, "abstract_node", False):
                    return False
                try:
                    return z3.And(sv(h.fields["name"]) == exp[1], sv(h.fields["ctx"]) == S("load"))
                except Exception:
                    return False
            return eqs(pred)
        raise ValueError(exp)

    def match(self, out, outcome):
        if outcome[0] == "unspecified":
            return z3.BoolVal(True)
        if out.raised and getattr(out.value, "from_call", None) in ("Parser.parse_expression", "_parse_block"):
            # an abstract callee failed (syntax error inside an expression / a body): not this tag's outcome
            return z3.BoolVal(True)
        if outcome[0] == "error":
            if not out.raised:
                return z3.BoolVal(False)
            e = out.value
            cls = e.cls if e.cls is not None else e.within
            if outcome[1] is TemplateAssertionError:
                return z3.BoolVal(cls is TemplateAssertionError)
            return z3.BoolVal(inspect.isclass(cls) and issubclass(cls, TemplateSyntaxError) and cls is not TemplateAssertionError)
        if out.raised:
            return z3.BoolVal(False)
        exp = outcome[1]
        st = out.st
        self._tmp_target = None
        if exp["temp_assign"] is not None:
            v0 = out.value
            if isinstance(v0, Ref) and isinstance(st.get(v0), HList) and st.get(v0).concrete and len(st.get(v0).items) == 2:
                a0 = st.get(v0).items[0]
                if isinstance(a0, Ref) and isinstance(st.get(a0), HObj) and st.get(a0).cls is N.Assign:
                    self._tmp_target = st.get(a0).fields.get("target")
        mk = [e for e in st.trace if e.kind == "call" and e.name == "_make_node"]
        if len(mk) != 1:
            return z3.BoolVal(False)
        a = mk[0].args
        if len(a) != 7 or mk[0].kwargs:
            return z3.BoolVal(False)
        singular, plural, context, variables, plural_expr, vars_referenced, num_called_num = a
        conds = []
        pb = [e for e in st.trace if e.kind == "call" and e.name == "_parse_block" and e.result != "raise"]
        t1 = pb[0].result[1].t
        # C33.trim: trimmed / notrimmed decide, else the policy
        conds.append(sv(singular) == z3.If(exp["trim"], trimmed_text(t1), t1))
        if exp["have_plural"]:
            if len(pb) != 2 or plural is None:
                return z3.BoolVal(False)
            t2 = pb[1].result[1].t
            conds.append(sv(plural) == z3.If(exp["trim"], trimmed_text(t2), t2))
        else:
            if plural is not None or plural_expr is not None:
                return z3.BoolVal(False)
        # context string
        if self.ctx:
            if context is None:
                return z3.BoolVal(False)
            conds.append(sv(context) == self.ctx_t.t)
        elif context is not None:
            return z3.BoolVal(False)
        # variables: exactly the bound names and the referenced names; bound values win
        hv = st.get(variables)
        kq = z3.Const(fresh_name("any_key"), z3.StringSort())
        if hv.concrete:
            if any(not isinstance(k, str) for k in hv.items):
                return z3.BoolVal(False)
            dom = lambda k: z3.Or(*[k == S(x) for x in hv.items]) if hv.items else z3.BoolVal(False)  # noqa: E731
            if exp["variables"]:
                return z3.BoolVal(False)
        else:
            dom = lambda k: z3.Select(hv.dom, k)  # noqa: E731
        conds.append(dom(kq) == (z3.Or(*[kq == nm for nm, _ in exp["variables"]]) if exp["variables"] else z3.BoolVal(False)))
        seen = []
        for nm, val in exp["variables"]:
            first = z3.And(*[nm != o for o in seen]) if seen else z3.BoolVal(True)
            if not hv.concrete:
                conds.append(z3.Implies(first, self.node_is(st, Sym(z3.Select(hv.val, nm), "obj"), val, None)))
            seen.append(nm)
        # C33.plural: the count expression
        if exp["have_plural"]:
            if plural_expr is None:
                return z3.BoolVal(False)
            conds.append(self.node_is(st, plural_expr, exp["count"][1], None))
        # flags
        conds.append(to_term(vars_referenced, "bool") == z3.BoolVal(exp["vars_referenced"]))
        conds.append(to_term(num_called_num, "bool") == exp["num_called_num"])
        # result: the node (with the tag's line number), preceded by the temporary assignment when the count is a call
        made = mk[0].result
        sl = [e for e in st.trace if e.kind == "call" and e.name == "set_lineno"]
        if len(sl) != 1 or sl[0].args[0] != made or len(sl[0].args) < 2:
            return z3.BoolVal(False)
        conds.append(to_term(sl[0].args[1], "int") == self.lineno.t)
        v = out.value
        if exp["temp_assign"] is not None:
            if not (isinstance(v, Ref) and isinstance(st.get(v), HList) and st.get(v).concrete and len(st.get(v).items) == 2 and st.get(v).items[1] == made):
                return z3.BoolVal(False)
            cs = []
            r = match_tree(st, st.get(v).items[0], n_(N.Assign, node=("is", exp["temp_assign"])), cs, "result[0]")
            tgt = self._tmp_target
            if r is not True or not (isinstance(tgt, Ref) and isinstance(st.get(tgt), HObj)):
                return z3.BoolVal(False)
            ht = st.get(tgt)
            if ht.cls is N.Name:
                conds.append(sv(ht.fields.get("ctx")) == S("store"))
            elif ht.cls is not N.InternalName:
                return z3.BoolVal(False)
            conds += cs
        elif v != made:
            return z3.BoolVal(False)
        return z3.And(*conds)

    def p_spec(self, pre, out):
        cases = enumerate_cases(lambda branch: self.reference(out.st, branch))
        self.last_cases = cases
        return z3.And(*[z3.Implies(z3.And(*cond) if cond else z3.BoolVal(True), self.match(out, oc)) for cond, oc in cases])

    def p_make_node_requires(self, pre, out):
        """the preconditions C33.make_node relies on hold at the call"""
        st = out.st
        mk = [e for e in st.trace if e.kind == "call" and e.name == "_make_node"]
        if not mk:
            return None
        singular, plural, context, variables, plural_expr, vars_referenced, num_called_num = mk[0].args
        hv = st.get(variables)
        nonempty = z3.BoolVal(bool(hv.items)) if hv.concrete else (hv.size > 0)
        has_num = (z3.BoolVal("num" in hv.items) if hv.concrete else z3.Select(hv.dom, S("num")))
        return z3.And(z3.Implies(to_term(vars_referenced, "bool"), nonempty),
                      z3.Implies(to_term(num_called_num, "bool"), z3.And(z3.BoolVal(plural_expr is not None), has_num)),
                      z3.BoolVal((plural is None) == (plural_expr is None)))

    def p_only_tse(self, pre, out):
        return True if not out.raised else is_tse(out)

    def p_temporary(self, pre, out):
        """C33_3 (hunt): the temporary that holds a call-valued count must not be a name a template can read or write
        (a `{{ _trans }}` in or after the block, or a user variable of that name, would see / lose its value): it has to be
        an internal name (Parser.free_identifier)."""
        if out.raised:
            return None
        st, v = out.st, out.value
        if not (isinstance(v, Ref) and isinstance(st.get(v), HList) and st.get(v).concrete):
            return None
        bad = False
        for x in st.get(v).items:
            if isinstance(x, Ref) and isinstance(st.get(x), HObj) and st.get(x).cls is N.Assign:
                t = st.get(x).fields.get("target")
                ok = isinstance(t, Ref) and isinstance(st.get(t), HObj) and st.get(t).cls is N.InternalName and t in st.ghost.get("free_ids", [])
                bad = bad or not ok
        return not bad

    posts = [("meaning", p_spec), ("make_node_requires", p_make_node_requires), ("only_TemplateSyntaxError", p_only_tse),
             ("temporary_is_internal_name", p_temporary)]

    def concretize(self, model, pre, out):
        mv = lambda t: model_value(model, t)  # noqa: E731
        e0 = out.st.ghost.get("expr0")
        is_call = out.st.get(e0).fields.get("isinst:Call") if e0 is not None else None
        return {"head": self.head_name, "tail": self.tail, "k1": self.k1, "k2": self.k2, "ctx": mv(self.ctx_t.t) if self.ctx else None,
                "names": [mv(n.t) for n in self.names], "modifier": mv(self.mod.t), "closing": mv(self.close1.t), "pluralize_arg": mv(self.pv.t),
                "refs": [[mv(sym(f"ref{w}_{j}", "str").t) for j in range(k)] for w, k in ((0, self.k1), (1, self.k2))],
                "policy": bool(mv(self.policy.t)), "expr0_is_call": bool(mv(to_term(is_call, "bool"))) if is_call is not None else False}

    def replay(self, w):
        return replay_parse(w)

    def finding_key(self, res):
        w = res.witness or {}
        if ".temporary_is_internal_name" in (res.name or ""):
            return "call-valued-count:temporary-is-the-template-name-_trans" if w.get("expr0_is_call") else "temporary:other"
        return f"{w.get('head')}:{w.get('closing')}"


def _ident(s, default):
    s = str(s)
    return s if (s.isidentifier() and s not in ("true", "false", "none", "True", "False", "None")) else default


def replay_parse(w):
    """the witness as a real template: parsed by the real extension, rendered with identity translations and compared
    with the documented meaning (count variable, trimming, context string)"""
    names = [_ident(n, f"v{i}") for i, n in enumerate(w["names"])]
    # keep the witness's equalities between names
    for i, n in enumerate(w["names"]):
        for j in range(i):
            if w["names"][j] == n:
                names[i] = names[j]
    refs = [[_ident(r, f"r{a}{b}") for b, r in enumerate(rs)] for a, rs in enumerate(w["refs"])]
    for a, rs in enumerate(w["refs"]):
        for b, r in enumerate(rs):
            for i, n in enumerate(w["names"]):
                if r == n:
                    refs[a][b] = names[i]
    head = []
    values = {}
    for it in HEADS[w["head"]]:
        if it[0] == "mod":
            head.append(w["modifier"])
        elif it[0] == "var":
            head.append(names[it[1]])
        elif it[0] == "bind":
            head.append(f"{names[it[1]]}=" + ("f()" if (it[1] == 0 and w.get("expr0_is_call")) else f"x{it[1]}"))
        elif it[0] == "comma":
            head[-1] += ","
        elif it[0] == "colon":
            head.append(":")
    src = "{% trans " + (repr(str(w["ctx"])).replace("'", '"') + " " if w["ctx"] is not None else "") + " ".join(head) + " %}"
    src += " \n one " + " ".join("{{ %s }}" % r for r in refs[0])
    plural = w["closing"] == "pluralize"
    if plural:
        parg = _ident(w["pluralize_arg"], "pv")
        for i, n in enumerate(w["names"]):
            if w["pluralize_arg"] == n:
                parg = names[i]
        src += "{% pluralize " + (parg + " " if w["tail"] == "B" else "") + "%}" + " \n many " + " ".join("{{ %s }}" % r for r in refs[1])
    src += "{% endtrans %}"
    # a user variable called `_trans` keeps its value after the block (C33_3: the temporary of a call-valued count)
    user_trans = "_trans" not in names and all("_trans" not in rs for rs in refs)
    if user_trans:
        src += "|{{ _trans }}"
    # the variable the documentation designates as the count gets the value `count`, every other variable 5
    bound_items = [it for it in HEADS[w["head"]] if it[0] in ("var", "bind")]
    bound_names = [names[it[1]] for it in bound_items]
    if plural and w["tail"] == "B":
        cv = parg
    elif bound_names:
        cv = bound_names[0]
    else:
        cv = refs[0][0] if refs[0] else None
    out = {}
    for count in (1, 2):
        env = jinja2.Environment(extensions=["jinja2.ext.i18n"])
        env.policies["ext.i18n.trimmed"] = bool(w["policy"])
        rec = NAT._Recorder()
        env.install_gettext_callables(rec.gettext, rec.ngettext, newstyle=True, pgettext=rec.pgettext, npgettext=rec.npgettext)
        try:
            t = env.from_string(src)
        except TemplateSyntaxError as ex:
            out[count] = ("error", type(ex).__name__)
            continue
        except Exception as ex:  # noqa
            return True, f"{src!r}: {type(ex).__name__}: {ex}"
        calls = []
        val = lambda nm: count if nm == cv else 5  # noqa: E731

        def f():
            calls.append(1)
            return val(names[0])
        ctx = {"f": f, "_trans": "USER"}
        for it in bound_items:
            if it[0] == "bind":
                ctx[f"x{it[1]}"] = val(names[it[1]])
        for nm in set(names + [r for rs in refs for r in rs]):
            ctx.setdefault(nm, val(nm) if nm not in [names[it[1]] for it in bound_items if it[0] == "bind"] else "WRONG-SCOPE")
        try:
            out[count] = ("text", t.render(ctx), list(rec.calls), len(calls))
        except Exception as ex:  # noqa
            return True, f"{src!r} rendered with count {count}: {type(ex).__name__}: {ex}"
    detail = f"{src!r} (count variable {cv!r}): {out!r}"
    well_formed = w["head"] not in ("bind_nocomma_bind",)
    expect_error = None
    if well_formed and len(set(bound_names)) < len(bound_names):
        expect_error = "TemplateAssertionError"  # a variable defined twice
    elif well_formed and plural and w["tail"] == "B" and parg not in bound_names:
        expect_error = "TemplateAssertionError"  # unknown variable for pluralization
    elif well_formed and plural and not bound_names and not refs[0]:
        expect_error = "TemplateSyntaxError"  # pluralize without variables
    for count, o in out.items():
        if expect_error and o != ("error", expect_error):
            return True, detail + f": {expect_error} expected"
        if well_formed and not expect_error and o[0] == "error":
            return True, detail + ": a well-formed trans block was rejected"
        if o[0] == "error":
            continue
        text = o[1]
        if plural:
            want_form = "one" if count == 1 else "many"
            if want_form not in text or ("many" if want_form == "one" else "one") in text:
                return True, detail + f": with {cv} = {count} the {want_form!r} form is expected"
            if o[3] > 1:
                return True, detail + ": the count expression was evaluated more than once"
        if user_trans and not text.endswith("|USER"):
            return True, detail + ": the template variable `_trans` was overwritten by the block's temporary"
        if "WRONG-SCOPE" in text:
            return True, detail + ": a variable bound in the tag was looked up in the context"
        trimmed = {"trimmed": True, "notrimmed": False}[w["modifier"]] if any(it[0] == "mod" for it in HEADS[w["head"]]) else bool(w["policy"])
        if trimmed != (not text.startswith(" \n")):
            return True, detail + f": trimming in force = {trimmed}"
        if w["ctx"] is not None and not all(c[0] in ("pgettext", "npgettext") and c[1][0] == str(w["ctx"]) for c in o[2]):
            return True, detail + ": the context string was not passed"
    return False, detail


def parse_tasks():
    vcs = []
    for h in HEADS:
        vcs.append(ParseTrans(h, "A", 1, 1))
    for h in ("empty", "bind", "var", "bind_bind"):
        vcs.append(ParseTrans(h, "B", 1, 0))
    for h in ("empty", "bind"):
        for k1, k2 in ((0, 0), (0, 1), (2, 0)):
            vcs.append(ParseTrans(h, "A", k1, k2))
        vcs.append(ParseTrans(h, "A", 1, 1, ctx=True))
    for v in vcs:
        # the larger variants that no quick-tier breakage needs run in the thorough tier only
        if (v.head_name, v.tail, v.k1, v.k2, v.ctx) in {("bind", "A", 0, 1, False), ("bind", "A", 2, 0, False), ("mod_bind", "A", 1, 1, False),
                                                         ("var_var_var", "A", 1, 1, False), ("bind", "A", 0, 0, False)}:
            v.thorough_only = True
    groups = [vcs[i::4] for i in range(4)]
    return [MultiTask(f"C33.parse[group {i}]", g, strip_variant=True) for i, g in enumerate(groups)]



# ------------------------------------------------------------------------------------------------
# C33.extract: extract_from_ast
# ------------------------------------------------------------------------------------------------

def find_all_model(st, root, cls):
    """dependency spec of Node.find_all: every descendant of the class, in document order (fields in declaration
    order, lists left to right)"""
    out = []

    def walk(v):
        if isinstance(v, Ref):
            h = st.get(v)
            if isinstance(h, HList) and h.concrete:
                for x in h.items:
                    walk(x)
            elif isinstance(h, HObj) and inspect.isclass(h.cls) and issubclass(h.cls, N.Node):
                visit(v)

    def visit(r):
        h = st.get(r)
        if issubclass(h.cls, cls):
            out.append(r)
        for f in h.cls.fields:
            walk(h.fields.get(f))

    h0 = st.get(root)
    for f in h0.cls.fields:
        walk(h0.fields.get(f))
    return out


def install_extract(I, world_of):
    CP.install(I, world_of, summarise_loops=False)

    def find_all(I_, st, args, kwargs, node):
        root, cls = args[0], args[1]
        found = find_all_model(st, root, cls)
        st.trace.append(Event("call", "find_all", [root, cls], {}, tuple(found)))
        return [(st, tuple(found))]

    I.specs["Template.find_all"] = find_all
    I.specs["Node.find_all"] = find_all


def mk_call(st, shape, idx, kk=0, dyn_args=False, dyn_kwargs=False, callee="name"):
    """a Call node with symbolic callee name / line number; argument shape over S (string constant), I (other
    constant), E (any other expression)"""
    args = []
    vals = []
    for j, k in enumerate(shape):
        if k == "S":
            v = sym(f"c{idx}_arg{j}", "str")
            args.append(st.alloc(HObj(N.Const, fields={"value": v, "lineno": 1, "environment": None}), initial=True))
        elif k == "I":
            v = sym(f"c{idx}_arg{j}", "int")
            args.append(st.alloc(HObj(N.Const, fields={"value": v, "lineno": 1, "environment": None}), initial=True))
        else:
            v = None
            args.append(st.alloc(HObj(N.Name, fields={"name": f"e{j}", "ctx": "load", "lineno": 1, "environment": None}), initial=True))
        vals.append(v if k == "S" else None)
    kwargs = [st.alloc(HObj(N.Keyword, fields={"key": f"k{j}", "value": st.alloc(HObj(N.Name, fields={"name": f"kv{j}", "ctx": "load", "lineno": 1, "environment": None}), initial=True),
                                               "lineno": 1, "environment": None}), initial=True) for j in range(kk)]
    name = sym(f"callee{idx}", "str")
    if callee == "name":
        cal = st.alloc(HObj(N.Name, fields={"name": name, "ctx": "load", "lineno": 1, "environment": None}), initial=True)
    else:
        cal = st.alloc(HObj(N.Getattr, fields={"node": st.alloc(HObj(N.Name, fields={"name": "o", "ctx": "load", "lineno": 1, "environment": None}), initial=True),
                                               "attr": name, "ctx": "load", "lineno": 1, "environment": None}), initial=True)
    lineno = sym(f"lineno{idx}", "int")
    extra = lambda b, nm: st.alloc(HObj(N.Name, fields={"name": nm, "ctx": "load", "lineno": 1, "environment": None}), initial=True) if b else None  # noqa: E731
    call = st.alloc(HObj(N.Call, fields={"node": cal, "args": st.alloc(HList(items=args), initial=True), "kwargs": st.alloc(HList(items=kwargs), initial=True),
                                        "dyn_args": extra(dyn_args, "da"), "dyn_kwargs": extra(dyn_kwargs, "dk"), "lineno": lineno, "environment": None}), initial=True)
    return call, {"name": name, "is_name": callee == "name", "lineno": lineno, "strings": vals + [None] * (kk + int(dyn_args) + int(dyn_kwargs))}


def expected_yields(descs, functions, babel_style, branch):
    """docstring of extract_from_ast, executable over the call descriptions"""
    ys = []
    for d in descs:
        if not d["is_name"]:
            continue
        if not branch(z3.Or(*[sv(d["name"]) == S(f) for f in functions])):
            continue
        strings = d["strings"]
        if branch(to_term(babel_style, "bool")):
            out = strings[0] if len(strings) == 1 else tuple(strings)
            ys.append((d["lineno"], d["name"], ("plain", out) if len(strings) == 1 else ("tuple", out)))
        else:
            out = tuple(x for x in strings if x is not None)
            if not out:
                continue
            ys.append((d["lineno"], d["name"], ("tuple", out)))
    return ys


def match_yields(st, got, want):
    if len(got) != len(want):
        return z3.BoolVal(False)
    conds = []
    for g, w in zip(got, want):
        if not (isinstance(g, tuple) and len(g) == 3):
            return z3.BoolVal(False)
        try:
            conds.append(to_term(g[0], "int") == to_term(w[0], "int"))
            conds.append(sv(g[1]) == sv(w[1]))
        except Exception:
            return z3.BoolVal(False)
        kind, val = w[2]
        m = g[2]
        if kind == "plain":
            if val is None:
                if m is not None:
                    return z3.BoolVal(False)
            else:
                if not (isinstance(m, str) or (isinstance(m, Sym) and m.k == "str")):
                    return z3.BoolVal(False)
                conds.append(sv(m) == sv(val))
        else:
            if isinstance(m, Ref) and isinstance(st.get(m), HList) and st.get(m).concrete:
                m = tuple(st.get(m).items)
            if not (isinstance(m, tuple) and len(m) == len(val)):
                return z3.BoolVal(False)
            for a, b in zip(m, val):
                if b is None:
                    if a is not None:
                        return z3.BoolVal(False)
                else:
                    if not (isinstance(a, str) or (isinstance(a, Sym) and a.k == "str")):
                        return z3.BoolVal(False)
                    conds.append(sv(a) == sv(b))
    return z3.And(*conds) if conds else z3.BoolVal(True)


class Extract(VC):
    prop = PROP
    target = "jinja2.ext:extract_from_ast"

    def __init__(self, shapes, kk=0, dyn_args=False, dyn_kwargs=False, callee="name", functions=None):
        self.shapes, self.kk, self.da, self.dk, self.callee, self.functions = list(shapes), kk, dyn_args, dyn_kwargs, callee, functions
        tag = "+".join(x or "-" for x in shapes) + (f";kw={kk}" if kk else "") + (";*a" if dyn_args else "") + (";**k" if dyn_kwargs else "")
        tag += (";callee=" + callee if callee != "name" else "") + (";functions=" + ",".join(functions) if functions else "")
        VC.__init__(self, PROP, f"C33.extract[{tag}]")
        self.bound_text = "call nodes with up to 4 positional arguments (string constant / other constant / other expression), up to 2 keywords"
        self.world = None

    def configure(self, I):
        install_extract(I, lambda: self.world)

    def setup(self, I, st):
        self.world = CP.World(st)
        self.descs, calls = [], []
        for i, sh in enumerate(self.shapes):
            c, d = mk_call(st, sh, i, self.kk, self.da, self.dk, self.callee)
            calls.append(c)
            self.descs.append(d)
        body = st.alloc(HList(items=[st.alloc(HObj(N.Output, fields={"nodes": st.alloc(HList(items=calls), initial=True), "lineno": 1, "environment": None}), initial=True)]), initial=True)
        self.tree = st.alloc(HObj(N.Template, fields={"body": body, "lineno": 1, "environment": None}), initial=True)
        self.babel_style = sym("babel_style", "bool")
        args = [self.tree]
        if self.functions:
            args.append(tuple(self.functions))
        return args, {"babel_style": self.babel_style}

    def p_yields(self, pre, out):
        if out.raised:
            return False
        fns = self.functions or E.GETTEXT_FUNCTIONS
        cases = enumerate_cases(lambda branch: expected_yields(self.descs, fns, self.babel_style, branch))
        return z3.And(*[z3.Implies(z3.And(*cond) if cond else z3.BoolVal(True), match_yields(out.st, list(out.st.yields), want)) for cond, want in cases])

    posts = [("yields", p_yields)]

    def concretize(self, model, pre, out):
        mv = lambda t: model_value(model, t)  # noqa: E731
        calls = []
        for sh, d in zip(self.shapes, self.descs):
            calls.append({"shape": sh, "name": mv(d["name"].t), "lineno": mv(d["lineno"].t),
                          "strings": [None if x is None else mv(x.t) for x in d["strings"][:len(sh)]]})
        return {"calls": calls, "kk": self.kk, "dyn_args": self.da, "dyn_kwargs": self.dk, "callee": self.callee,
                "functions": self.functions, "babel_style": bool(mv(self.babel_style.t))}

    def replay(self, w):
        return replay_extract(w)


def replay_extract(w):
    calls, descs = [], []
    for c in w["calls"]:
        args, strings = [], []
        for k, sval in zip(c["shape"], c["strings"]):
            if k == "S":
                args.append(N.Const(str(sval)))
                strings.append(str(sval))
            elif k == "I":
                args.append(N.Const(7))
                strings.append(None)
            else:
                args.append(N.Name("e", "load"))
                strings.append(None)
        kwargs = [N.Keyword(f"k{j}", N.Name("kv", "load")) for j in range(w["kk"])]
        callee = N.Name(str(c["name"]), "load") if w["callee"] == "name" else N.Getattr(N.Name("o", "load"), str(c["name"]), "load")
        ln = int(c["lineno"]) if str(c["lineno"]).lstrip("-").isdigit() else 1
        calls.append(N.Call(callee, args, kwargs, N.Name("da", "load") if w["dyn_args"] else None, N.Name("dk", "load") if w["dyn_kwargs"] else None, lineno=ln))
        strings += [None] * (w["kk"] + int(w["dyn_args"]) + int(w["dyn_kwargs"]))
        descs.append((ln, str(c["name"]), strings, w["callee"] == "name"))
    tree = N.Template([N.Output(calls)])
    fns = tuple(w["functions"]) if w["functions"] else E.GETTEXT_FUNCTIONS
    got = list(E.extract_from_ast(tree, fns, babel_style=w["babel_style"]))
    want = []
    for ln, name, strings, is_name in descs:
        if not is_name or name not in fns:
            continue
        if w["babel_style"]:
            want.append((ln, name, strings[0] if len(strings) == 1 else tuple(strings)))
        else:
            t = tuple(x for x in strings if x is not None)
            if t:
                want.append((ln, name, t))
    return got != want, f"extract_from_ast over {tree!r} (functions={fns}, babel_style={w['babel_style']}): real={got!r} documented={want!r}"


class ExtractCovers(HintVC):
    """C33.extract.covers: the node built by the real _make_node, handed to the real extract_from_ast: the call is
    reported with the callee name and exactly the constant strings the call passes at run time, in order."""
    prop = PROP
    target = "jinja2.ext:extract_from_ast"
    timeout_quick = 15000

    def __init__(self, keys, has_plural, has_context):
        self.mn = MakeNode(keys, has_plural, has_context)
        VC.__init__(self, PROP, "C33.extract.covers" + self.mn.name[len("C33.make_node"):])
        self.world = None

    def configure(self, I):
        install_extract(I, lambda: self.world)

    def paths(self, I):
        from pyvc import extract as X
        st = State()
        self.configure(I)
        args, kwargs = self.mn.setup(I, st)
        self.world = self.mn.world
        if self.mn.plural_expr is not None:
            # requires: the count expression is not itself a constant (a constant string count would be reported as one
            # more string of the call, which only adds to the extracted messages)
            st.get(self.mn.plural_expr).fields["isinst:Const"] = False
        pre = st.fork()
        mk = I.closure_of_function(X.resolve(self.mn.target))
        ex = self.closure(I)
        self.babel_style = sym("babel_style", "bool")
        self.lineno = sym("trans_lineno", "int")
        outs = []
        for s, node in I.call_closure(st, mk, list(args), dict(kwargs)):
            if isinstance(node, Raised):
                outs.append(Outcome(s, "raise", node.exc, len(outs)))
                continue
            # parse sets the line number of the node (Node.set_lineno: every node without one gets it)
            for r in find_all_model(s, node, N.Node) + [node]:
                if s.get(r).fields.get("lineno") is None:
                    s.get(r).fields["lineno"] = self.lineno
            body = s.alloc(HList(items=[node]), initial=True)
            tree = s.alloc(HObj(N.Template, fields={"body": body, "lineno": 1, "environment": None}), initial=True)
            for s2, v in I.call_closure(s, ex, [tree], {"babel_style": self.babel_style}):
                o = Outcome(s2, "raise" if isinstance(v, Raised) else "return", v.exc if isinstance(v, Raised) else v, len(outs))
                o.made = node
                outs.append(o)
        return pre, outs

    def p_covers(self, pre, out):
        if out.raised:
            return False
        st = out.st
        calls = find_all_model(st, out.made, N.Call)
        if len(calls) != 1:
            return False
        h = st.get(calls[0])
        callee = st.get(h.fields["node"])
        if callee.cls is not N.Name:
            return False
        strings = []
        for a in st.get(h.fields["args"]).items:
            ha = st.get(a)
            v = ha.fields.get("value") if ha.cls is N.Const and not getattr(ha, "abstract_node", False) else None
            strings.append(v if (isinstance(v, str) or (isinstance(v, Sym) and v.k == "str")) else None)
        strings += [None] * len(st.get(h.fields["kwargs"]).items)
        # every constant string argument of the call = every message the call passes to the gettext function
        n_const = (1 if self.mn.has_context else 0) + 1 + (1 if self.mn.has_plural else 0)
        if len([x for x in strings if x is not None]) != n_const:
            return False
        d = {"is_name": True, "name": callee.fields["name"], "lineno": self.lineno, "strings": strings}
        cases = enumerate_cases(lambda branch: expected_yields([d], E.GETTEXT_FUNCTIONS, self.babel_style, branch))
        in_list = z3.Or(*[sv(callee.fields["name"]) == S(f) for f in E.GETTEXT_FUNCTIONS])
        return z3.And(in_list, *[z3.Implies(z3.And(*cond) if cond else z3.BoolVal(True), match_yields(st, list(st.yields), want)) for cond, want in cases])

    posts = [("extracted_is_passed", p_covers)]

    def hints(self):
        return self.mn.hints()

    def concretize(self, model, pre, out):
        w = self.mn.concretize(model, pre, out)
        w["babel_style"] = bool(model_value(model, self.babel_style.t))
        return w

    def replay(self, w):
        return replay_covers(w)


def replay_covers(w):
    """real _make_node, real extract_from_ast; documented output computed from the call node itself"""
    env = jinja2.Environment(extensions=["jinja2.ext.i18n"])
    env.newstyle_gettext = bool(w["newstyle"])
    ext = env.extensions["jinja2.ext.InternationalizationExtension"]
    keys = list(w["keys"])
    variables = {k: N.Name("x_" + k, "load") for k in keys}
    plural_expr = N.Name("count", "load") if w["plural"] is not None else None
    node = ext._make_node(w["singular"], w["plural"], w["context"], dict(variables), plural_expr, w["vars_referenced"], w["num_called_num"])
    node.set_lineno(7)
    tree = N.Template([node], lineno=1)
    calls = list(node.find_all(N.Call))
    if len(calls) != 1 or not isinstance(calls[0].node, N.Name):
        return True, f"_make_node -> {node!r}: not exactly one call of a named function"
    c = calls[0]
    strings = [(a.value if isinstance(a, N.Const) and isinstance(a.value, str) else None) for a in c.args] + [None] * len(c.kwargs)
    if w["babel_style"]:
        want = [(7, c.node.name, strings[0] if len(strings) == 1 else tuple(strings))]
    else:
        want = [(7, c.node.name, tuple(x for x in strings if x is not None))]
    got = list(E.extract_from_ast(tree, babel_style=w["babel_style"]))
    passed = ([w["context"]] if w["context"] is not None else []) + [c.args[1 if w["context"] is not None else 0].value] + ([c.args[2 if w["context"] is not None else 1].value] if w["plural"] is not None else [])
    bad = got != want or [x for x in strings if x is not None] != passed or c.node.name not in E.GETTEXT_FUNCTIONS
    return bad, f"extract_from_ast(babel_style={w['babel_style']}) over the node of _make_node({w['singular']!r}, {w['plural']!r}, {w['context']!r}, vars={keys}) newstyle={w['newstyle']}: real={got!r} documented={want!r}"


def extract_tasks():
    vcs = []
    shapes = [""] + ["".join(t) for n in (1, 2, 3) for t in itertools.product("SIE", repeat=n)] + ["SSSE", "SSSS", "ESSS", "SSEI"]
    for sh in shapes:
        vcs.append(Extract([sh]))
    vcs += [Extract(["S"], kk=2), Extract(["SS"], kk=1, dyn_args=True), Extract(["S"], dyn_kwargs=True), Extract(["SE"], kk=1, dyn_args=True, dyn_kwargs=True),
            Extract(["S", "SSE"]), Extract(["SSE", "", "S"]), Extract(["S"], callee="getattr"), Extract(["S", "S"], functions=["_", "tr"]), Extract([""], kk=1)]
    covers = [ExtractCovers(keys, hp, hc) for keys in ((), ("a",), ("a", "num")) for hp in (False, True) for hc in (False, True)]
    groups = [vcs[i::3] for i in range(3)]
    return [MultiTask(f"C33.extract[group {i}]", g) for i, g in enumerate(groups)] + [MultiTask("C33.extract.covers", covers)]



# ------------------------------------------------------------------------------------------------
# C33.newstyle: the wrapper closures of _make_new_gettext / _ngettext / _pgettext / _npgettext
# ------------------------------------------------------------------------------------------------
import ast as _ast
import markupsafe
from jinja2.runtime import Context as _Context


class _Func:
    """stands for the translation function handed to _make_new_*"""

    def __init__(self, name):
        self.name = name

    def __repr__(self):
        return f"<translation function {self.name}>"


WRAPPERS = {
    # name -> (factory, positional parameters after the context, index of the count, index of the context string)
    "gettext": (E._make_new_gettext, ["string"], None, None),
    "ngettext": (E._make_new_ngettext, ["singular", "plural", "num"], 2, None),
    "pgettext": (E._make_new_pgettext, ["context", "string"], None, 0),
    "npgettext": (E._make_new_npgettext, ["context", "singular", "plural", "num"], 3, 0),
}
KW_SHAPES = [(), ("a",), ("num",), ("context",), ("a", "num", "context")]


class NewStyle(VC):
    prop = PROP
    timeout_quick = 8000

    def __init__(self, which, kw):
        self.which, self.kw = which, tuple(kw)
        self.factory, self.params, self.i_num, self.i_ctx = WRAPPERS[which]
        self.target = f"jinja2.ext:{self.factory.__name__}"
        VC.__init__(self, PROP, f"C33.newstyle.{which}[variables={','.join(kw) or '-'}]")
        self.func = _Func(which)

    def closure(self, I):
        live = self.factory(self.func)  # the real closure, `func` bound to the stand-in
        return I.closure_of_function(live)

    def configure(self, I):
        def ctx_call(I_, st, args, kwargs, node):
            r = fresh("translated", "obj")
            st.trace.append(Event("call", "Context.call", list(args[1:]), dict(kwargs), r))
            return [(st, r)]

        def markup(I_, st, args, kwargs, node):
            r = fresh("markup", "obj", tags={"markup"})
            st.trace.append(Event("call", "Markup", list(args), dict(kwargs), r))
            return [(st, r)]

        def mod(I_, st, args, kwargs, node):
            r = fresh("formatted", "obj")
            snap = dict(st.get(args[1]).items) if isinstance(args[1], Ref) and isinstance(st.get(args[1]), HDict) and st.get(args[1]).concrete else None
            st.trace.append(Event("call", "operator.Mod", [args[0], args[1], snap], {}, r))
            return [(st, r)]

        I.specs["Context.call"] = ctx_call
        I.specs[("fn", id(markupsafe.Markup))] = markup
        I.specs[("binop", _ast.Mod)] = mod

    def setup(self, I, st):
        self.autoescape = sym("autoescape", "bool")
        ec = st.alloc(HObj(N.EvalContext, fields={"autoescape": self.autoescape}, path="eval_ctx"), initial=True)
        self.ctx = st.alloc(HObj(_Context, fields={"eval_ctx": ec}, path="context"), initial=True)
        self.pos = [sym(p, "obj") for p in self.params]
        self.kwvals = {k: sym(f"kw_{k}", "obj") for k in self.kw}
        return [self.ctx] + self.pos, dict(self.kwvals)

    def p_wrapper(self, pre, out):
        if out.raised:
            return False
        st = out.st
        calls = [e for e in st.trace if e.kind == "call" and e.name == "Context.call"]
        mods = [e for e in st.trace if e.kind == "call" and e.name == "operator.Mod"]
        marks = [e for e in st.trace if e.kind == "call" and e.name == "Markup"]
        # the translation function is called once with the given strings (and count), in order
        if len(calls) != 1 or calls[0].kwargs or len(calls[0].args) != 1 + len(self.pos) or calls[0].args[0] is not self.func:
            return False
        if any(a is not b for a, b in zip(calls[0].args[1:], self.pos)):
            return False
        rv = calls[0].result
        # formatting always happens, on the (marked) result, and its value is returned
        if len(mods) != 1 or out.value is not mods[0].result or len(marks) > 1:
            return False
        left, _right, snap = mods[0].args
        if marks:
            if marks[0].args[0] is not rv or marks[0].kwargs or len(marks[0].args) != 1 or left is not marks[0].result:
                return False
        elif left is not rv:
            return False
        # the variables: the given ones; `num` / `context` default to the count / the context string
        want = dict(self.kwvals)
        if self.i_ctx is not None:
            want.setdefault("context", self.pos[self.i_ctx])
        if self.i_num is not None:
            want.setdefault("num", self.pos[self.i_num])
        if snap is None or set(snap) != set(want) or any(snap[k] is not want[k] for k in want):
            return False
        # marked safe exactly when autoescaping
        return self.autoescape.t == z3.BoolVal(bool(marks))

    posts = [("calls_marks_formats", p_wrapper)]

    def concretize(self, model, pre, out):
        return {"which": self.which, "kw": list(self.kw), "autoescape": bool(model_value(model, self.autoescape.t))}

    def replay(self, w):
        return replay_newstyle(w)


class NewStyleParamNames(NewStyle):
    """C33_1 (hunt): a trans variable may have ANY name, also the name of one of the wrapper's own parameters
    (`__context`, `__string`, `__num`, ...): _make_node passes every variable as a keyword argument, so the wrapper must
    take its fixed arguments positionally only.  The keyword set is the wrapper's declared parameter names, read from the
    live closure."""

    def __init__(self, which):
        NewStyle.__init__(self, which, ())
        live = self.factory(self.func)
        co = live.__code__
        self.kw = tuple(co.co_varnames[:co.co_argcount])
        self.name = f"C33.newstyle.{which}.variables_named_like_parameters"

    posts = [("no_collision", NewStyle.p_wrapper)]

    def finding_key(self, res):
        return "variable-named-like-a-wrapper-parameter"


def replay_newstyle_templates(w):
    """the hunt input: trans blocks whose variable is named like a parameter of the wrapper, rendered end to end"""
    which = w["which"]
    for nm in w["kw"]:
        if not nm.isidentifier():
            continue
        head = ('"c" ' if which in ("pgettext", "npgettext") else "")
        if which in ("ngettext", "npgettext"):
            src, want = "{% trans " + head + "n=2, " + nm + '="x" %}one {{ ' + nm + " }}{% pluralize n %}many {{ " + nm + " }}{% endtrans %}", "many x"
        else:
            src, want = "{% trans " + head + nm + '="x" %}<{{ ' + nm + " }}>{% endtrans %}", "<x>"
        env = jinja2.Environment(extensions=["jinja2.ext.i18n"])
        env.install_null_translations(newstyle=True)
        try:
            got = env.from_string(src).render()
        except Exception as ex:  # noqa
            return True, f"new-style {src!r}: {type(ex).__name__}: {ex}; the block text is {want!r}"
        if got != want:
            return True, f"new-style {src!r} rendered {got!r}; the block text is {want!r}"
    return False, ""


def replay_newstyle(w):
    if any(k.startswith("__") for k in w["kw"]):
        bad, d = replay_newstyle_templates(w)
        if bad:
            return bad, d
    factory, params, i_num, i_ctx = WRAPPERS[w["which"]]
    rec = NAT._Recorder()
    wrapper = factory(getattr(rec, w["which"]))
    env = jinja2.Environment(autoescape=bool(w["autoescape"]))
    ctx = env.from_string("").new_context()
    ctx.eval_ctx.autoescape = bool(w["autoescape"])
    vals = {"string": "s %(a)s 100%% <i>", "singular": "one %(a)s %(num)s <i>", "plural": "many %(a)s %(num)s %% <i>", "context": "ctx"}
    for count in (1, 3):
        vals["num"] = count
        pos = [vals[p] for p in params]
        kw = {k: {"a": "<A>", "num": "<N>", "context": "<C>"}.get(k, f"<{k}>") for k in w["kw"]}
        kw.setdefault("a", "<A>") if "a" in w["kw"] else None
        fmt_vars = dict(kw)
        if i_ctx is not None:
            fmt_vars.setdefault("context", "ctx")
        if i_num is not None:
            fmt_vars.setdefault("num", count)
        fmt_vars.setdefault("a", "")  # %(a)s must be resolvable in the oracle; the wrapper gets it only when given
        if "a" not in kw:
            pos = [p.replace("%(a)s", "") if isinstance(p, str) else p for p in pos]
        msg = pos[-1] if i_num is None else (pos[i_num - 2] if count == 1 else pos[i_num - 1])
        want = (markupsafe.Markup(msg) if w["autoescape"] else msg) % fmt_vars
        rec.calls.clear()
        try:
            got = wrapper(ctx, *pos, **kw)
        except Exception as ex:  # noqa
            return True, f"new-style {w['which']}({pos!r}, **{kw!r}) autoescape={w['autoescape']} raised {type(ex).__name__}: {ex}"
        strings = tuple(p for p in pos if isinstance(p, str))
        if rec.calls != [(w["which"], strings)]:
            return True, f"new-style {w['which']}({pos!r}, **{kw!r}): translation function calls {rec.calls!r}"
        if got != want or isinstance(got, markupsafe.Markup) != bool(w["autoescape"]):
            return True, f"new-style {w['which']}({pos!r}, **{kw!r}) autoescape={w['autoescape']} -> {got!r}, expected {want!r}"
    return False, f"new-style {w['which']} with variables {w['kw']} behaves as documented"


# ------------------------------------------------------------------------------------------------
# C33.install: _install_callables / _install / _install_null / _uninstall
# ------------------------------------------------------------------------------------------------
FACTORIES = {"gettext": E._make_new_gettext, "ngettext": E._make_new_ngettext, "pgettext": E._make_new_pgettext, "npgettext": E._make_new_npgettext}


class InstallCallables(VC):
    prop = PROP
    target = "jinja2.ext:InternationalizationExtension._install_callables"

    def __init__(self, newstyle_given, has_p, has_np):
        self.newstyle_given, self.has_p, self.has_np = newstyle_given, has_p, has_np
        VC.__init__(self, PROP, f"C33.install.callables[newstyle={'given' if newstyle_given else 'None'};pgettext={int(has_p)};npgettext={int(has_np)}]")

    def configure(self, I):
        from contracts.c01_lexer import install_builtins
        install_builtins(I)  # `x is None` for a symbolic bool is False
        for nm, f in FACTORIES.items():
            I.specs[f"jinja2.ext:{f.__name__}"] = A.abstract_fn(f"wrap.{nm}", returns="obj")

    def setup(self, I, st):
        self.old_flag = sym("env_newstyle_gettext", "bool")
        self.other = sym("other_global", "obj")
        self.globals = st.alloc(HDict(items={"other": self.other, "gettext": sym("old_gettext", "obj")}), initial=True)
        self.ext, self.env = make_ext(st, {"newstyle_gettext": self.old_flag, "globals": self.globals})
        self.fns = {"gettext": sym("gettext_fn", "obj"), "ngettext": sym("ngettext_fn", "obj"),
                    "pgettext": sym("pgettext_fn", "obj") if self.has_p else None, "npgettext": sym("npgettext_fn", "obj") if self.has_np else None}
        self.newstyle = sym("newstyle", "bool") if self.newstyle_given else None
        for v in self.fns.values():
            if v is not None:
                st.assume(v.t != to_term(None, "obj"))  # a callable, not None
        return [self.ext, self.fns["gettext"], self.fns["ngettext"]], {"newstyle": self.newstyle, "pgettext": self.fns["pgettext"], "npgettext": self.fns["npgettext"]}

    def p_installed(self, pre, out):
        if out.raised:
            return False
        st = out.st
        flag = st.get(self.env).fields.get("newstyle_gettext")
        eff = self.newstyle.t if self.newstyle_given else self.old_flag.t
        conds = [to_term(flag, "bool") == eff]
        g = st.get(st.get(self.env).fields["globals"])
        if not g.concrete or set(g.items) != {"other", "gettext", "ngettext", "pgettext", "npgettext"} or g.items["other"] is not self.other:
            return False
        wrapped_all = True
        plain_all = True
        for nm, fn in self.fns.items():
            v = g.items[nm]
            if fn is None:
                if v is not None:
                    return False
                continue
            ev = [e for e in st.trace if e.kind == "call" and e.name == f"wrap.{nm}"]
            is_wrapped = len(ev) == 1 and ev[0].args[0] is fn and v is ev[0].result
            is_plain = not ev and v is fn
            if not (is_wrapped or is_plain):
                return False
            wrapped_all = wrapped_all and is_wrapped
            plain_all = plain_all and is_plain
        if not (wrapped_all or plain_all):
            return False
        conds.append(eff == z3.BoolVal(wrapped_all))
        return z3.And(*conds)

    posts = [("globals_and_flag", p_installed)]

    def concretize(self, model, pre, out):
        return {"newstyle": (bool(model_value(model, self.newstyle.t)) if self.newstyle_given else None), "env_flag": bool(model_value(model, self.old_flag.t)),
                "pgettext": self.has_p, "npgettext": self.has_np}

    def replay(self, w):
        env = jinja2.Environment(extensions=["jinja2.ext.i18n"])
        env.newstyle_gettext = w["env_flag"]
        rec = NAT._Recorder()
        env.install_gettext_callables(rec.gettext, rec.ngettext, newstyle=w["newstyle"], pgettext=rec.pgettext if w["pgettext"] else None, npgettext=rec.npgettext if w["npgettext"] else None)
        eff = w["env_flag"] if w["newstyle"] is None else w["newstyle"]
        bad = []
        if bool(env.newstyle_gettext) != bool(eff):
            bad.append(f"environment.newstyle_gettext = {env.newstyle_gettext}")
        for nm in ("gettext", "ngettext", "pgettext", "npgettext"):
            given = getattr(rec, nm) if (nm in ("gettext", "ngettext") or w[nm]) else None
            v = env.globals.get(nm, "<missing>")
            if given is None:
                ok = v is None
            elif eff:
                ok = v is not given and getattr(v, "jinja_pass_arg", None) is not None
            else:
                ok = v == given
            if not ok:
                bad.append(f"globals[{nm!r}] = {v!r}")
        return bool(bad), f"install_gettext_callables(newstyle={w['newstyle']}) with environment flag {w['env_flag']}: " + ("; ".join(bad) or "as documented")


class _Trans:
    """stands for a translations object"""


class Install(VC):
    prop = PROP
    target = "jinja2.ext:InternationalizationExtension._install"

    def __init__(self, has_u, has_p):
        self.has_u, self.has_p = has_u, has_p
        VC.__init__(self, PROP, f"C33.install.translations[ugettext={int(has_u)};pgettext={int(has_p)}]")

    def configure(self, I):
        I.specs["InternationalizationExtension._install_callables"] = A.abstract_fn("_install_callables", returns=None)

    def setup(self, I, st):
        f = {"gettext": sym("t_gettext", "obj"), "ngettext": sym("t_ngettext", "obj")}
        if self.has_u:
            f.update(ugettext=sym("t_ugettext", "obj"), ungettext=sym("t_ungettext", "obj"))
        if self.has_p:
            f.update(pgettext=sym("t_pgettext", "obj"), npgettext=sym("t_npgettext", "obj"))
        self.f = f
        for v in f.values():
            st.assume(v.t != to_term(None, "obj"))  # methods of the translations object
        self.trans = st.alloc(HObj(_Trans, fields=f, path="translations"), initial=True)
        self.ext, self.env = make_ext(st)
        self.newstyle = sym("newstyle", "obj")
        return [self.ext, self.trans], {"newstyle": self.newstyle}

    def p_forward(self, pre, out):
        if out.raised:
            return False
        ev = [e for e in out.st.trace if e.kind == "call" and e.name == "_install_callables"]
        if len(ev) != 1:
            return False
        a = list(ev[0].args[1:])
        kw = dict(ev[0].kwargs)
        for nm, v in zip(("gettext", "ngettext", "newstyle", "pgettext", "npgettext"), a):
            kw[nm] = v
        f = self.f
        want = {"gettext": f.get("ugettext", f["gettext"]), "ngettext": f.get("ungettext", f["ngettext"]), "newstyle": self.newstyle,
                "pgettext": f.get("pgettext"), "npgettext": f.get("npgettext")}
        return set(kw) == set(want) and all(kw[k] is want[k] for k in want)

    posts = [("forwards_the_translation_methods", p_forward)]

    def concretize(self, model, pre, out):
        return {"has_u": self.has_u, "has_p": self.has_p}

    def replay(self, w):
        rec = NAT._Recorder()
        T = type("T", (), {})
        t = T()
        t.gettext, t.ngettext = (lambda s: "plain"), (lambda s, p, n: "plain")
        if w["has_u"]:
            t.ugettext, t.ungettext = rec.gettext, rec.ngettext
        if w["has_p"]:
            t.pgettext, t.npgettext = rec.pgettext, rec.npgettext
        env = jinja2.Environment(extensions=["jinja2.ext.i18n"])
        env.install_gettext_translations(t, newstyle=False)
        g = env.globals
        ok = (g["gettext"] == (rec.gettext if w["has_u"] else t.gettext)) and (g["pgettext"] == (rec.pgettext if w["has_p"] else None)) and \
             (g["npgettext"] == (rec.npgettext if w["has_p"] else None)) and (g["ngettext"] == (rec.ngettext if w["has_u"] else t.ngettext))
        return (not ok), f"install_gettext_translations(ugettext={w['has_u']}, pgettext={w['has_p']}): globals {dict((k, g.get(k)) for k in ('gettext', 'ngettext', 'pgettext', 'npgettext'))!r}"


class InstallNull(VC):
    prop = PROP
    target = "jinja2.ext:InternationalizationExtension._install_null"

    def __init__(self):
        VC.__init__(self, PROP, "C33.install.null")

    def configure(self, I):
        import gettext as G
        I.specs["InternationalizationExtension._install_callables"] = A.abstract_fn("_install_callables", returns=None)

        def null_translations(I_, st, args, kwargs, node):
            r = st.alloc(HObj(G.NullTranslations, path="NullTranslations()"))
            st.trace.append(Event("call", "NullTranslations", list(args), dict(kwargs), r))
            return [(st, r)]

        I.specs[("fn", id(G.NullTranslations))] = null_translations

    def setup(self, I, st):
        self.ext, self.env = make_ext(st)
        self.newstyle = sym("newstyle", "obj")
        return [self.ext], {"newstyle": self.newstyle}

    def p_null(self, pre, out):
        if out.raised:
            return False
        st = out.st
        mk = [e for e in st.trace if e.kind == "call" and e.name == "NullTranslations"]
        ev = [e for e in st.trace if e.kind == "call" and e.name == "_install_callables"]
        if len(mk) != 1 or mk[0].args or len(ev) != 1:
            return False
        kw = dict(ev[0].kwargs)
        for nm, v in zip(("gettext", "ngettext", "newstyle", "pgettext", "npgettext"), list(ev[0].args[1:])):
            kw[nm] = v
        if set(kw) != {"gettext", "ngettext", "newstyle", "pgettext", "npgettext"} or kw["newstyle"] is not self.newstyle:
            return False
        for nm in ("gettext", "ngettext", "pgettext", "npgettext"):
            v = kw[nm]
            if not (isinstance(v, BoundMethod) and v.recv == mk[0].result and v.name == nm):
                return False
        return True

    posts = [("null_translations_methods", p_null)]

    def concretize(self, model, pre, out):
        return {}

    def replay(self, w):
        env = jinja2.Environment(extensions=["jinja2.ext.i18n"])
        env.install_null_translations()
        g = env.globals
        try:
            ok = g["gettext"]("x") == "x" and g["ngettext"]("a", "b", 1) == "a" and g["ngettext"]("a", "b", 2) == "b" and g["pgettext"]("c", "x") == "x" and \
                g["npgettext"]("c", "a", "b", 2) == "b"
        except Exception as ex:  # noqa
            return True, f"install_null_translations: {type(ex).__name__}: {ex}"
        return (not ok), "install_null_translations installs identity translations" if ok else "install_null_translations: the installed functions are not the identity translations"


class Uninstall(VC):
    prop = PROP
    target = "jinja2.ext:InternationalizationExtension._uninstall"

    def __init__(self, present):
        self.present = tuple(present)
        VC.__init__(self, PROP, f"C33.install.uninstall[installed={','.join(present) or '-'}]")

    def setup(self, I, st):
        self.other = sym("other_global", "obj")
        items = {"other": self.other, "_": sym("alias", "obj")}
        for k in self.present:
            items[k] = sym(f"g_{k}", "obj")
        self.items0 = dict(items)
        self.globals = st.alloc(HDict(items=items), initial=True)
        self.ext, self.env = make_ext(st, {"globals": self.globals})
        return [self.ext, sym("translations", "obj")], {}

    def p_removed(self, pre, out):
        if out.raised:
            return False
        g = out.st.get(out.st.get(self.env).fields["globals"])
        return g.concrete and set(g.items) == {"other", "_"} and all(g.items[k] is self.items0[k] for k in g.items)

    posts = [("only_the_gettext_functions_removed", p_removed)]

    def concretize(self, model, pre, out):
        return {"present": list(self.present)}

    def replay(self, w):
        env = jinja2.Environment(extensions=["jinja2.ext.i18n"])
        env.globals["other"] = 1
        for k in w["present"]:
            env.globals[k] = k
        try:
            env.uninstall_gettext_translations(None)
        except Exception as ex:  # noqa
            return True, f"uninstall_gettext_translations raised {type(ex).__name__}: {ex}"
        left = sorted(k for k in ("gettext", "ngettext", "pgettext", "npgettext") if k in env.globals)
        return bool(left) or env.globals.get("other") != 1, f"after uninstall: {left} still installed, other={env.globals.get('other')!r}"


def runtime_tasks():
    ns = [NewStyle(w, kw) for w in WRAPPERS for kw in KW_SHAPES]
    inst = [InstallCallables(g, p, q) for g in (False, True) for p, q in ((False, False), (True, True), (True, False))]
    inst += [Install(u, p) for u in (False, True) for p in (False, True)] + [InstallNull()]
    inst += [Uninstall(()), Uninstall(("gettext", "ngettext")), Uninstall(("gettext", "ngettext", "pgettext", "npgettext"))]
    ns += [NewStyleParamNames(w) for w in WRAPPERS]
    return [MultiTask("C33.newstyle", ns), MultiTask("C33.install", inst)]


TASKS = [ParseBlock(True), ParseBlock(False), ParseBlock(True, 8), ParseBlock(False, 8), ParseBlock(True, 10), ParseBlock(False, 10),
         ParseBlockInductive(True), ParseBlockInductive(False),
         FnTask(PROP, "C33.parse_block.inductive.buf_usage", parse_block_buf_usage, "table", lambda w: (True, str(w)))] + make_node_tasks() + parse_tasks() + extract_tasks() + runtime_tasks()
TASKS += NAT.native_tasks()

META = {
    "level": "other",
    "explanation": "Proof of mechanism + bounded stand-ins. The real _parse_block is run over token scripts of up to 6 tokens with symbolic "
                   "types and values against the statement's decision tree (names in order, `%` doubled, `%(name)s` placeholders, "
                   "TemplateSyntaxError for every other shape); the real _make_node with symbolic flags against the documented call shape "
                   "(callee by context/plural, constant arguments in order, keywords vs. MarkSafeIfAutoescape + `% {vars}`, `%%` un-doubled "
                   "exactly when no formatting step follows); the real parse over scripted tag heads with symbolic names (count expression, "
                   "trimming, context string, variables, error cases, and the preconditions _make_node relies on); extract_from_ast on call "
                   "nodes of bounded arity and on the node built by the real _make_node; the four new-style wrapper closures; the install "
                   "methods. `str % dict` / `Markup % dict`, the regex of _trim_whitespace and _CommentFinder are decided by bounded "
                   "stand-ins that render / run the real code against the property's own oracle (never reported as proved).",
    "assumptions": [
        "lexer token order (C01.tokeniter.states): after block_end / data / variable_end the next token is data, variable_begin, block_begin or eof",
        "TokenStream.next/expect/next_if/skip_if/eos behave as proved in C01.stream.* (used as abstract callees over a scripted stream)",
        "Parser.parse_expression returns an expression node or raises TemplateSyntaxError (C01.parser.raises.parse_expression)",
        "Node.find_all yields every descendant of the class in document order (dependency spec, C08)",
        "the compiler passes the constant arguments of a Call node to the callee in order (C06/C15 emission contracts)",
        "the count expression of a pluralized block is not itself a string constant (C33.extract.covers)",
        "a bare name in the trans tag is not the word trimmed / notrimmed (those are modifiers)",
        "the order in which free names are registered as variables is the set's iteration order: F21 (owned by C30) - the parse contract compares the variables as a map",
        "A-EQ: distinct abstract heap objects are unequal",
    ],
    "trusted_base": ["z3 5.1 / cvc5", "pyvc symbolic executor", "z3 str.replace_all as the dependency spec of str.replace",
                     "dependency spec: Node.find_all (document-order traversal)", "contracts.c01_parser stream / node-constructor models",
                     "bounded stand-in for str % dict and Markup % dict (C33.bounded.render)", "bounded stand-in for re.sub in _trim_whitespace (C33.bounded.trim)",
                     "bounded stand-in for _CommentFinder (C33.bounded.comment_finder)"],
}
