"""C35  Errors point at the template line that caused them.

Proof of mechanism (bookkeeping arithmetic) + bounded stand-ins:
  C35.lexer.lineno      = the LINENO_TASKS of contracts/c39.py (loop invariant of Lexer.tokeniter), when available: quick tier a
                        representative subset (default configuration), thorough tier all of them; C39 itself carries all.
  C35.parser.lineno     static analysis of the REAL Parser.parse_* bodies: every `lineno=` handed to a node constructor is
                        the line of a token of that construct, read from the stream BEFORE the stream is advanced past it.
  C35.codegen.newline   VC on CodeGenerator.newline (exactly the contract pyvc/emit.py assumes).
  C35.codegen.write     VC on CodeGenerator.write / writeline: code_lineno counts the newlines written, a pending template line
                        is appended as (template line, code line) with the first newline batch, pairs strictly increasing.
  C35.emit.output_lines emission contract on the real visit_Output (1-3 children, buffered / unbuffered): every run-time child is preceded by a
                        newline(child) carrying that child's line.
  C35.codegen.private   table: the bookkeeping fields and stream.write are touched by __init__/write/newline only.
  C35.template.lineno   VC on Template.get_corresponding_lineno (loop invariant over an arbitrary list of pairs) and the
                        `k=v&...` string round trip (bounded, real expressions of visit_Template / Template.debug_info).
  C35.debug.rewrite     native bounded: rewrite_traceback_stack / fake_traceback on synthetic tracebacks (all frame-kind
                        sequences up to length 4) against the documented replacement rule; syntax errors get one frame.
  C35.bounded.render    native bounded: templates raising at known lines inside blocks, macros, loops, conditionals, included
                        and parent templates; the innermost template frame names the right file and line.
"""
from __future__ import annotations

import ast
import inspect
import itertools
import sys
import time
import traceback

import z3

from pyvc.contract import VC, Res, FnTask, Task
from pyvc.values import State, Sym, Ref, HObj, HList, SSeq, Exc, Event, Unsupported, sym, fresh, fresh_name, fresh_arr
from pyvc.smt import to_term, model_value
from pyvc.interp import Raised
from pyvc import abstract as A, extract

import jinja2
import jinja2.compiler as CG
import jinja2.debug as D
import jinja2.environment as E
import jinja2.lexer as L
import jinja2.nodes as N
import jinja2.parser as P

PROP = "C35"
I_ = z3.IntSort()

import os

try:  # agent-lexer's module; its line-number obligation of Lexer.tokeniter is part of this property
    if os.environ.get("C35_SKIP_LEXER"):  # (development switch: run only this module's own obligations)
        raise ImportError("skipped")
    from contracts.c39 import LINENO_TASKS as _LEXER_LINENO_TASKS
except Exception:  # noqa  (ImportError, or the module is still being written)
    _LEXER_LINENO_TASKS = None


class WitnessAlways:
    """side obligations and structural refutations carry the task's default witness (the native replay runs a fixed family)"""

    def default_witness(self):
        return {"task": self.name}

    def discharge(self, name, pc, cond, timeout, seed, pre, out):
        r = VC.discharge(self, name, pc, cond, timeout, seed, pre, out)
        if r.status == "refuted" and not r.witness:
            r.witness = self.default_witness()
        return r


# ====================================================================================================
# C35.codegen.newline / write / writeline
# ====================================================================================================

BOOKKEEPING = ("_new_lines", "_write_debug_info", "_last_line", "_first_write", "code_lineno", "debug_info")


class _Stream:
    """placeholder class of the output stream (a text file object): only write() is used"""


def codegen(st, wdi):
    """abstract CodeGenerator: symbolic bookkeeping fields; debug_info an arbitrary list of (template line, code line) pairs"""
    g = type("G", (), {})()
    g.new_lines = sym("_new_lines", "int")
    g.last_line = sym("_last_line", "int")
    g.first_write = sym("_first_write", "bool")
    g.code_lineno = sym("code_lineno", "int")
    g.indentation = sym("_indentation", "int")
    g.wdi = wdi
    st.assume(g.new_lines.t >= 0, g.indentation.t >= 0, g.code_lineno.t >= 1)
    g.T, g.C = z3.Array("debug_template_line", I_, I_), z3.Array("debug_code_line", I_, I_)
    g.n = z3.Int("debug_n")
    st.assume(g.n >= 0)
    g.debug = st.alloc(HList(arr=(g.T, g.C), n=g.n, k=("int", "int")), initial=True)
    g.stream = st.alloc(HObj(_Stream, path="stream"), initial=True)
    g.ref = st.alloc(HObj(CG.CodeGenerator, fields={
        "_new_lines": g.new_lines, "_write_debug_info": wdi, "_last_line": g.last_line, "_first_write": g.first_write,
        "code_lineno": g.code_lineno, "debug_info": g.debug, "_indentation": g.indentation, "stream": g.stream}, path="self"), initial=True)
    return g


def pairs_ri(T, C, n, code_lineno):
    """representation invariant of debug_info: code lines strictly increasing and not beyond the current code line"""
    i, j = z3.Ints(f"{fresh_name('ri_i')} {fresh_name('ri_j')}")
    return z3.And(z3.ForAll([i], z3.Implies(z3.And(0 <= i, i < n), z3.Select(C, i) <= code_lineno)),
                  z3.ForAll([i, j], z3.Implies(z3.And(0 <= i, i < j, j < n), z3.Select(C, i) < z3.Select(C, j))))


def written_fields(st, ref):
    return {f for rid, f in st.written if rid == ref.id}


def install_basics(I):
    """max of two integers; `x is None` is False for a symbolic int / str / bool (a value of that type is never None)"""
    from pyvc.values import BoundMethod

    def max_spec(I_, st, args, kwargs, node):
        if len(args) != 2 or kwargs:
            raise Unsupported("max() other than max(int, int)", node)
        a, b = to_term(args[0], "int"), to_term(args[1], "int")
        if isinstance(args[0], int) and isinstance(args[1], int):
            return [(st, max(args[0], args[1]))]
        return [(st, Sym(z3.If(a >= b, a, b), "int"))]

    I.specs[("fn", id(max))] = max_spec
    if not getattr(I, "_typed_identical", False):
        base_identical = I.identical
        pytype = {"str": str, "int": int, "bool": bool}

        def identical(st, a, b):
            for x, y in ((a, b), (b, a)):
                if isinstance(x, Sym) and x.k in pytype and not isinstance(y, (Sym, Ref, BoundMethod, SSeq, Exc)) and not isinstance(y, pytype[x.k]):
                    return False
            return base_identical(st, a, b)

        I.identical = identical
        I._typed_identical = True


def install_stream(I):
    install_basics(I)
    def stream_write(I_, st, args, kwargs, node):
        st.trace.append(Event("call", "stream.write", [args[1]], {}, None, lineno=getattr(node, "lineno", None)))
        return [(st, None)]

    I.specs["_Stream.write"] = stream_write

    def str_repeat(I_, st, args, kwargs, node):
        """dependency spec of `"lit" * n`: n copies of the literal (kept symbolic: ghost (literal, n))"""
        r = fresh("repeated", "str")
        st.ghost = dict(st.ghost)
        st.ghost.setdefault("repeats", {})
        st.ghost["repeats"] = dict(st.ghost["repeats"], **{str(r.t): (args[0], args[1])})
        st.assume(z3.Length(r.t) == len(args[0]) * to_term(args[1], "int"))
        return [(st, r)]

    I.specs["str_repeat"] = str_repeat


def stream_writes(out):
    """[(kind, payload)] of the stream.write calls in order: ('rep', literal, count term) | ('text', value)"""
    reps = out.st.ghost.get("repeats", {})
    res = []
    for e in A.calls(out, "stream.write"):
        v = e.args[0]
        if isinstance(v, Sym) and str(v.t) in reps:
            lit, n = reps[str(v.t)]
            res.append(("rep", lit, to_term(n, "int")))
        else:
            res.append(("text", v))
    return res


class Newline(WitnessAlways, VC):
    """newline(node, extra): _new_lines' = max(_new_lines, 1 + extra); when node is not None and node.lineno != _last_line then
    _write_debug_info' = _last_line' = node.lineno; nothing else is written, nothing is raised, None is returned."""
    prop = PROP
    timeout_quick = 60000
    target = "jinja2.compiler:CodeGenerator.newline"

    def __init__(self, with_node, wdi_none):
        self.with_node, self.wdi_none = with_node, wdi_none
        VC.__init__(self, PROP, f"C35.codegen.newline[node={'Node' if with_node else 'None'},pending={'None' if wdi_none else 'int'}]")

    def configure(self, I):
        install_basics(I)

    def setup(self, I, st):
        self.g = codegen(st, None if self.wdi_none else sym("_write_debug_info", "int"))
        self.extra = sym("extra", "int")
        self.node = None
        if self.with_node:
            self.node_line = sym("node_lineno", "int")
            self.node = st.alloc(HObj(N.Node, fields={"lineno": self.node_line}, path="node"), initial=True)
        return [self.g.ref, self.node, self.extra], {}

    def p_returns(self, pre, out):
        return out.returned and out.value is None

    def p_new_lines(self, pre, out):
        g = self.g
        v = out.st.get(g.ref).fields["_new_lines"]
        return to_term(v, "int") == z3.If(g.new_lines.t >= 1 + self.extra.t, g.new_lines.t, 1 + self.extra.t)

    def p_debug(self, pre, out):
        g = self.g
        f = out.st.get(g.ref).fields
        if not self.with_node:
            return f["_write_debug_info"] is g.wdi and f["_last_line"] is g.last_line
        changed = self.node_line.t != g.last_line.t
        wdi, last = f["_write_debug_info"], f["_last_line"]
        if wdi is None:
            # still no pending line: only allowed when the line did not change
            return z3.And(z3.Not(changed), to_term(last, "int") == g.last_line.t) if self.wdi_none else False
        old = to_term(g.wdi, "int") if not self.wdi_none else None
        keep = (to_term(wdi, "int") == old) if old is not None else z3.BoolVal(False)
        return z3.And(z3.If(changed, to_term(wdi, "int") == self.node_line.t, keep),
                      to_term(last, "int") == z3.If(changed, self.node_line.t, g.last_line.t))

    def p_frame(self, pre, out):
        g = self.g
        if written_fields(out.st, g.ref) - {"_new_lines", "_write_debug_info", "_last_line"}:
            return False
        if any(rid not in (g.ref.id,) and rid not in out.st.allocated for rid, _ in out.st.written):
            return False
        return not A.calls(out, "stream.write")

    posts = [("returns_none", p_returns), ("new_lines_is_max", p_new_lines), ("pending_template_line", p_debug), ("writes_nothing_else", p_frame)]

    def replay(self, w):
        return replay_codegen(w)


class Write(WitnessAlways, VC):
    """write(x): with N = _new_lines > 0 the pending newlines are flushed first (not before the very first write): "\\n" * N, then
    the indentation, then x; code_lineno grows by exactly the number of newlines written; a pending template line is appended to
    debug_info as (line, new code_lineno) together with the newlines and cleared; with N = 0 only x is written.  The pairs stay
    strictly increasing in the code line and <= code_lineno."""
    prop = PROP
    timeout_quick = 60000
    target = "jinja2.compiler:CodeGenerator.write"

    def __init__(self, wdi_none):
        self.wdi_none = wdi_none
        VC.__init__(self, PROP, f"C35.codegen.write[pending={'None' if wdi_none else 'int'}]")

    def configure(self, I):
        install_stream(I)

    def setup(self, I, st):
        self.g = codegen(st, None if self.wdi_none else sym("_write_debug_info", "int"))
        st.assume(pairs_ri(self.g.T, self.g.C, self.g.n, self.g.code_lineno.t))
        self.x = sym("x", "str")
        return [self.g.ref, self.x], {}

    def flushed(self):
        g = self.g
        return z3.And(g.new_lines.t > 0, z3.Not(g.first_write.t))

    def p_returns(self, pre, out):
        return out.returned and out.value is None

    def p_stream(self, pre, out):
        g = self.g
        ws = stream_writes(out)
        shapes = [w[0] if w[0] == "text" else (w[0], w[1]) for w in ws]
        if shapes == ["text"]:
            return z3.And(g.new_lines.t == 0, ws[0][1] is self.x)
        if shapes == [("rep", "    "), "text"]:
            return z3.And(g.new_lines.t > 0, g.first_write.t, ws[0][2] == g.indentation.t, ws[1][1] is self.x)
        if shapes == [("rep", "\n"), ("rep", "    "), "text"]:
            return z3.And(self.flushed(), ws[0][2] == g.new_lines.t, ws[1][2] == g.indentation.t, ws[2][1] is self.x)
        return False

    def p_code_lineno(self, pre, out):
        g = self.g
        nl = sum([w[2] for w in stream_writes(out) if w[0] == "rep" and w[1] == "\n"], z3.IntVal(0))
        now = to_term(out.st.get(g.ref).fields["code_lineno"], "int")
        return z3.And(now - g.code_lineno.t == nl, nl == z3.If(self.flushed(), g.new_lines.t, 0))

    def post_debug(self, out):
        h = out.st.get(self.g.debug)
        if h.concrete:
            raise Unsupported("debug_info became a concrete list")
        return h.arr[0], h.arr[1], h.n

    def p_debug_info(self, pre, out):
        g = self.g
        T, C, n = self.post_debug(out)
        f = out.st.get(g.ref).fields
        now = to_term(f["code_lineno"], "int")
        i = z3.Int(fresh_name("i"))
        same_prefix = z3.ForAll([i], z3.Implies(z3.And(0 <= i, i < g.n), z3.And(z3.Select(T, i) == z3.Select(g.T, i), z3.Select(C, i) == z3.Select(g.C, i))))
        if self.wdi_none:
            return z3.And(n == g.n, same_prefix, f["_write_debug_info"] is None)
        wdi = g.wdi.t
        after = f["_write_debug_info"]
        appended = z3.And(n == g.n + 1, z3.Select(T, g.n) == wdi, z3.Select(C, g.n) == now, after is None)
        kept = z3.And(n == g.n, after is g.wdi)
        return z3.And(same_prefix, z3.If(self.flushed(), appended, kept))

    def p_ri(self, pre, out):
        T, C, n = self.post_debug(out)
        return pairs_ri(T, C, n, to_term(out.st.get(self.g.ref).fields["code_lineno"], "int"))

    def p_flags(self, pre, out):
        g = self.g
        f = out.st.get(g.ref).fields
        return z3.And(to_term(f["_new_lines"], "int") == 0,
                      to_term(f["_first_write"], "bool") == z3.And(g.first_write.t, g.new_lines.t == 0))

    def p_frame(self, pre, out):
        g = self.g
        if written_fields(out.st, g.ref) - {"_new_lines", "_write_debug_info", "_first_write", "code_lineno"}:
            return False
        f = out.st.get(g.ref).fields
        return f["_last_line"] is g.last_line and f["_indentation"] is g.indentation and f["debug_info"] == g.debug and f["stream"] == g.stream

    posts = [("returns_none", p_returns), ("stream_gets_newlines_indentation_text", p_stream), ("code_lineno_counts_newlines", p_code_lineno),
             ("pending_line_appended_with_code_line", p_debug_info), ("pairs_increasing", p_ri), ("flags", p_flags), ("writes_nothing_else", p_frame)]

    def replay(self, w):
        return replay_codegen(w)


class Writeline(WitnessAlways, VC):
    """writeline(x, node, extra) = newline(node, extra); write(x) (real bodies inlined): after a statement on a NEW template line
    (and not the very first write) the pair (node.lineno, code line of x) is the last entry of debug_info, and x starts exactly
    max(_new_lines, 1 + extra) lines below the previous code line."""
    prop = PROP
    timeout_quick = 60000
    target = "jinja2.compiler:CodeGenerator.writeline"

    def __init__(self, wdi_none):
        self.wdi_none = wdi_none
        VC.__init__(self, PROP, f"C35.codegen.writeline[pending={'None' if wdi_none else 'int'}]")

    def configure(self, I):
        install_stream(I)
        I.inline.update({"jinja2.compiler:CodeGenerator.newline", "jinja2.compiler:CodeGenerator.write"})

    def setup(self, I, st):
        self.g = codegen(st, None if self.wdi_none else sym("_write_debug_info", "int"))
        st.assume(pairs_ri(self.g.T, self.g.C, self.g.n, self.g.code_lineno.t))
        self.x = sym("x", "str")
        self.extra = sym("extra", "int")
        st.assume(self.extra.t >= 0)
        self.node_line = sym("node_lineno", "int")
        self.node = st.alloc(HObj(N.Node, fields={"lineno": self.node_line}, path="node"), initial=True)
        return [self.g.ref, self.x, self.node, self.extra], {}

    def p_pair(self, pre, out):
        if out.raised:
            return False
        g = self.g
        h = out.st.get(g.debug)
        T, C, n = h.arr[0], h.arr[1], h.n
        f = out.st.get(g.ref).fields
        now = to_term(f["code_lineno"], "int")
        step = z3.If(g.new_lines.t >= 1 + self.extra.t, g.new_lines.t, 1 + self.extra.t)
        new_line = self.node_line.t != g.last_line.t
        last_is = z3.And(n >= 1, z3.Select(T, n - 1) == self.node_line.t, z3.Select(C, n - 1) == now)
        return z3.And(
            z3.Implies(z3.Not(g.first_write.t), now == g.code_lineno.t + step),
            z3.Implies(z3.And(new_line, z3.Not(g.first_write.t)), z3.And(last_is, n == g.n + 1)),
            to_term(f["_last_line"], "int") == self.node_line.t,
            pairs_ri(T, C, n, now))

    posts = [("new_template_line_recorded_at_code_line_of_x", p_pair)]

    def replay(self, w):
        return replay_codegen(w)


def replay_codegen(w):
    """native: drive a real CodeGenerator through random newline/write/writeline sequences and compare stream, code_lineno and
    debug_info with the reference bookkeeping of the property (count the newlines actually written)"""
    import io
    import random
    rnd = random.Random(7)
    env = jinja2.Environment()
    for trial in range(300):
        buf = io.StringIO()
        g = CG.CodeGenerator(env, "t", "t.html", buf)
        pending, last_line, expect = None, 0, []
        for step in range(rnd.randint(1, 12)):
            op = rnd.choice(("newline", "write", "writeline", "writeline"))
            node = None
            if rnd.random() < 0.7:
                node = N.Output([], lineno=rnd.randint(1, 5))
            extra = rnd.choice((0, 0, 1, 2))
            before = buf.getvalue()
            nl_before = g._new_lines
            first = g._first_write
            try:
                if op == "newline":
                    g.newline(node, extra)
                elif op == "write":
                    g.write("x")
                else:
                    g.writeline("y", node, extra)
            except Exception as ex:  # noqa
                return (True, f"{op} raised {type(ex).__name__}: {ex}")
            if op in ("newline", "writeline"):
                want_nl = max(nl_before, 1 + extra)
                if op == "newline" and g._new_lines != want_nl:
                    return (True, f"newline(extra={extra}) with _new_lines={nl_before} left _new_lines={g._new_lines}, expected {want_nl}")
                if node is not None and node.lineno != last_line:
                    pending, last_line = node.lineno, node.lineno
            text = buf.getvalue()
            added = text[len(before):]
            if op in ("write", "writeline") and added.count("\n") and pending is not None:
                expect.append((pending, 1 + text.count("\n") - added[added.rfind("\n") + 1:].count("\n")))
                pending = None
            if g.code_lineno != 1 + text.count("\n"):
                return (True, f"after {op}: code_lineno={g.code_lineno} but {text.count(chr(10))} newlines were written")
            if list(g.debug_info) != expect:
                return (True, f"after {op}: debug_info={g.debug_info} expected {expect} (stream {text!r})")
            if op in ("write", "writeline") and not first and nl_before == 0 and op == "write" and added != "x":
                return (True, f"write with no pending newline wrote {added!r}")
    return (False, "300 random newline/write/writeline sequences on the real CodeGenerator keep code_lineno and debug_info consistent")


# ====================================================================================================
# C35.template.lineno
# ====================================================================================================


class CorrespondingLineno(WitnessAlways, VC):
    """get_corresponding_lineno(l) over an arbitrary list of (template line, code line) pairs: the template line of the LAST pair
    whose code line is <= l; 1 when there is none.  (With the pairs increasing in the code line - C35.codegen.write - this is the
    template line of the statement the code line belongs to.)"""
    prop = PROP
    target = "jinja2.environment:Template.get_corresponding_lineno"
    timeout_quick = 60000

    def __init__(self):
        VC.__init__(self, PROP, "C35.template.lineno.get_corresponding_lineno")

    def configure(self, I):
        from pyvc.stmts import LoopSpec
        install_basics(I)
        c = self

        def inv(ctx):
            # reversed iteration: after k steps none of the last k pairs has a code line <= lineno
            j = z3.Int(fresh_name("j"))
            return [z3.ForAll([j], z3.Implies(z3.And(c.n - ctx.k <= j, j < c.n), z3.Select(c.C, j) > c.lineno.t))]

        I.loops[("Template.get_corresponding_lineno", 0)] = LoopSpec(inv, havoc={}, name="pairs_from_the_end")

    def setup(self, I, st):
        self.T, self.C = z3.Array("debug_template_line", I_, I_), z3.Array("debug_code_line", I_, I_)
        self.n = z3.Int("debug_n")
        st.assume(self.n >= 0)
        self.lineno = sym("lineno", "int")
        self.pairs = SSeq((self.T, self.C), self.n, ("int", "int"))
        self.tmpl = st.alloc(HObj(E.Template, fields={"debug_info": self.pairs}, path="self"), initial=True)
        return [self.tmpl, self.lineno], {}

    def p_result(self, pre, out):
        if out.raised:
            return False
        r = to_term(out.value, "int")
        l = self.lineno.t
        i, q = z3.Int(fresh_name("i")), z3.Int(fresh_name("q"))
        none = z3.ForAll([i], z3.Implies(z3.And(0 <= i, i < self.n), z3.Select(self.C, i) > l))
        found = z3.Exists([q], z3.And(0 <= q, q < self.n, z3.Select(self.C, q) <= l, r == z3.Select(self.T, q),
                                      z3.ForAll([i], z3.Implies(z3.And(q < i, i < self.n), z3.Select(self.C, i) > l))))
        return z3.Or(z3.And(none, r == 1), found)

    def p_pure(self, pre, out):
        return not out.st.written

    posts = [("template_line_of_last_pair_not_after_the_code_line", p_result), ("pure", p_pure)]

    def concretize(self, model, pre, out):
        n = max(0, min(8, model_value(model, self.n)))
        return {"pairs": [[model_value(model, z3.Select(self.T, i)), model_value(model, z3.Select(self.C, i))] for i in range(n)],
                "lineno": model_value(model, self.lineno.t)}

    def replay(self, w):
        return replay_lineno(w)


def spec_corresponding(pairs, lineno):
    best = 1
    for t, c in pairs:
        if c <= lineno:
            best = t
    return best if any(c <= lineno for _, c in pairs) else 1


def real_corresponding(pairs, lineno):
    t = object.__new__(E.Template)
    t._debug_info = "&".join(f"{a}={b}" for a, b in pairs)
    return t.get_corresponding_lineno(lineno)


def replay_lineno(w):
    cases = []
    if w.get("pairs") is not None and all(isinstance(x, int) for p in w["pairs"] for x in p) and isinstance(w.get("lineno"), int):
        cases.append(([tuple(p) for p in w["pairs"]], w["lineno"]))
    for pairs in ([], [(1, 5)], [(1, 5), (3, 9)], [(2, 4), (7, 6), (3, 11)]):
        for l in range(0, 14):
            cases.append((pairs, l))
    for pairs, l in cases:
        try:
            got = real_corresponding(pairs, l)
        except Exception as ex:  # noqa
            return (True, f"get_corresponding_lineno({l}) with pairs {pairs} raised {type(ex).__name__}: {ex}")
        want = spec_corresponding(pairs, l)
        if got != want:
            return (True, f"get_corresponding_lineno({l}) with pairs {pairs} = {got}; the last pair with code line <= {l} gives {want}")
    return (False, "get_corresponding_lineno agrees with the reference on the witness and the fixed family")



# ====================================================================================================
# C35.parser.lineno: static analysis of the real Parser.parse_* bodies
# ====================================================================================================
#
# Abstract interpretation of one parser method over a small value domain:
#   TOK(first, since)   a token read from `self.stream.current` WITHOUT consuming it; first = nothing had been consumed by this
#                       method when it was read (it is the construct's first token); since = the stream was advanced after the read
#   TOKC                a token returned by a consuming read (next(self.stream), stream.expect, stream.next_if): a token of this construct
#   LINE(first, since) / LINEC   the .lineno of such a token;  NODE / LINEN  a parsed child node / its .lineno;  PARAM  a parameter
# A `lineno=` argument must be LINEC, LINEN, a parameter, or LINE(first or since); a LINE(not first, not since) - the line of the
# token the stream currently points at, read after other tokens were consumed - is accepted only if this method consumes a token
# afterwards on every path to its exit (then the token belongs to the construct); the constant 1 only for nodes.Template.

CONSUMING_STREAM = {"expect", "skip"}
MAYBE_CONSUMING_STREAM = {"next_if", "skip_if"}
NON_CONSUMING_SELF = {"fail", "fail_eof", "fail_unknown_tag", "_fail_ut_eof", "is_tuple_end", "free_identifier"}


class _PState:
    __slots__ = ("loc", "consumed", "pending", "used")

    def __init__(self, loc=None, consumed=False, pending=frozenset(), used=frozenset()):
        self.loc = dict(loc or {})
        self.consumed = consumed
        self.pending = pending
        self.used = used  # token reads (by source position) whose line has already been given to a node on this path

    def key(self):
        return (tuple(sorted(self.loc.items(), key=repr)), self.consumed, self.pending, self.used)

    def copy(self):
        return _PState(self.loc, self.consumed, self.pending, self.used)

    def fresh_read(self, where):
        """a token is read (again) at this source position: a new token, its line has not been given to any node yet"""
        s = self.copy()
        s.used = s.used - {where}
        # everything parsed so far is OLDER than this token: a node / non-empty node list held in a local was produced before it
        for k, v in list(s.loc.items()):
            if v[0] == "NODE":
                s.loc[k] = ("NODE", v[1], v[2] | {where})
            elif v[0] == "LIST" and v[1] is not True:
                s.loc[k] = ("LIST", v[1], (v[2] if len(v) > 2 else frozenset()) | {where})
        return s

    def consume(self):
        s = self.copy()
        s.consumed = True
        s.pending = frozenset()
        for k, v in list(s.loc.items()):
            if v[0] in ("TOK", "LINE"):
                s.loc[k] = (v[0], v[1], True) + tuple(v[3:])
        return s


def _dedupe(states):
    seen, out = set(), []
    for s in states:
        k = s.key()
        if k not in seen:
            seen.add(k)
            out.append(s)
    return out


class LinenoAnalysis:
    def __init__(self, fn_node, self_name, outer=None):
        self.fn = fn_node
        self.self_name = self_name
        self.problems = []      # (source line, text)
        self.uses = []          # (source line, text, verdict)
        self.exits = []         # states at return / end
        self.outer = outer      # enclosing analysis (for free variables of a nested function)
        self.node_lists = set() # locals annotated list[nodes.Node] / list[nodes.Expr] ...
        self.local_defs = {}    # nested function name -> consumes?
        self.unknown = []
        for n in ast.walk(fn_node):
            if isinstance(n, ast.AnnAssign) and isinstance(n.target, ast.Name):
                txt = ast.unparse(n.annotation)
                if txt.startswith("list[nodes."):
                    self.node_lists.add(n.target.id)

    # ---- recognisers
    def is_self(self, e):
        return isinstance(e, ast.Name) and e.id == self.self_name

    def is_stream(self, e):
        return isinstance(e, ast.Attribute) and e.attr == "stream" and self.is_self(e.value)

    def has_consuming_call(self, node):
        for n in ast.walk(node):
            if isinstance(n, ast.Call):
                f = n.func
                if isinstance(f, ast.Name) and f.id == "next" and n.args and self.is_stream(n.args[0]):
                    return True
                if isinstance(f, ast.Attribute) and self.is_stream(f.value) and f.attr in CONSUMING_STREAM | MAYBE_CONSUMING_STREAM:
                    return True
                if isinstance(f, ast.Attribute) and self.is_self(f.value) and (f.attr.startswith("parse") or f.attr == "subparse"):
                    return True
        return False

    def in_node_lists(self, name):
        a = self
        while a is not None:
            if name in a.node_lists:
                return True
            a = a.outer
        return False

    # ---- expressions: -> [(value, state)]
    def ev(self, e, s):
        if e is None:
            return [(("OTHER",), s)]
        if isinstance(e, ast.Constant):
            return [(("CONST", e.value), s)]
        if isinstance(e, ast.List) and not e.elts:
            return [(("LIST", True, frozenset()), s)]
        if isinstance(e, ast.Name):
            if e.id in s.loc:
                return [(s.loc[e.id], s)]
            if self.in_node_lists(e.id):
                return [(("NODELIST",), s)]
            return [(("OTHER",), s)]
        if isinstance(e, ast.Attribute):
            if self.is_stream(e.value) and e.attr == "current":
                where = (e.lineno, e.col_offset)
                return [(("TOK", not s.consumed, False, where), s.fresh_read(where))]
            out = []
            for v, s2 in self.ev(e.value, s):
                if e.attr == "lineno":
                    if v[0] == "TOK":
                        out.append((("LINE", v[1], v[2], v[3]), s2))
                    elif v[0] == "TOKC":
                        out.append((("LINEC", v[1]), s2))
                    elif v[0] in ("NODE", "PARAM"):
                        out.append((("LINEN",), s2))
                    else:
                        out.append((("OTHER",), s2))
                else:
                    out.append((("OTHER",), s2))
            return out
        if isinstance(e, ast.Subscript):
            out = []
            for v, s2 in self.ev(e.value, s):
                for _, s3 in self.ev(e.slice, s2):
                    is_nodes = v[0] == "NODELIST" or (v[0] == "LIST" and isinstance(e.value, ast.Name) and self.in_node_lists(e.value.id))
                    out.append(((("NODE", frozenset(), frozenset()) if is_nodes and not isinstance(e.slice, ast.Slice) else ("OTHER",)), s3))
            return out
        if isinstance(e, ast.Call):
            return self.ev_call(e, s)
        if isinstance(e, ast.BoolOp):
            # short-circuit: later operands may or may not be evaluated
            states = [s]
            outs = []
            for i, sub in enumerate(e.values):
                nxt = []
                for st_ in states:
                    for v, s2 in self.ev(sub, st_):
                        truth = v[1] if v[0] == "BOOL" else None
                        stop = (truth is False) if isinstance(e.op, ast.And) else (truth is True)
                        cont = (truth is True) if isinstance(e.op, ast.And) else (truth is False)
                        if i == len(e.values) - 1:
                            outs.append((v if v[0] == "BOOL" else ("OTHER",), s2))
                        elif stop:
                            outs.append((v, s2))
                        elif cont:
                            nxt.append(s2)
                        else:
                            outs.append((("OTHER",), s2))
                            nxt.append(s2)
                states = _dedupe(nxt)
            return outs
        if isinstance(e, ast.UnaryOp) and isinstance(e.op, ast.Not):
            return [((("BOOL", not v[1]) if v[0] == "BOOL" else ("OTHER",)), s2) for v, s2 in self.ev(e.operand, s)]
        if isinstance(e, ast.IfExp):
            out = []
            for v, s2 in self.ev(e.test, s):
                if not (v[0] == "BOOL" and v[1] is False):
                    out += self.ev(e.body, s2)
                if not (v[0] == "BOOL" and v[1] is True):
                    out += self.ev(e.orelse, s2)
            return out
        if isinstance(e, (ast.Lambda, ast.ListComp, ast.GeneratorExp, ast.DictComp, ast.SetComp)):
            if self.has_consuming_call(e):
                self.unknown.append((e.lineno, "consuming call inside a lambda / comprehension"))
            return [(("OTHER",), s)]
        # generic: evaluate children left to right for their effects
        states = [s]
        for sub in ast.iter_child_nodes(e):
            if isinstance(sub, ast.expr):
                states = _dedupe([s2 for st_ in states for _, s2 in self.ev(sub, st_)])
        return [(("OTHER",), st_) for st_ in states]

    def ev_test(self, e, s):
        """a test expression: a local list of known emptiness decides the branch"""
        out = []
        for v, s2 in self.ev(e, s):
            if v[0] == "LIST" and v[1] is not None:
                v = ("BOOL", not v[1])
            out.append((v, s2))
        return out

    def ev_args(self, call, s, check_lineno):
        """evaluate positional arguments, then keywords, in order; -> states"""
        pairs = [(s, ())]  # (state, values of the positional arguments so far)
        for a in call.args:
            sub = a.value if isinstance(a, ast.Starred) else a
            pairs = [(s2, vals + (v,)) for st_, vals in pairs for v, s2 in self.ev(sub, st_)]
        self.last_line_reads = {}
        out = []
        for st_, vals in pairs:
            states = [st_]
            for kw in call.keywords:
                nxt = []
                for st2 in states:
                    for v, s2 in self.ev(kw.value, st2):
                        if kw.arg == "lineno" and check_lineno:
                            s2 = self.use(call, kw, v, s2, vals)
                            if v[0] in ("LINE", "LINEC"):
                                self.last_line_reads[s2.key()] = frozenset({v[-1]})
                        nxt.append(s2)
                states = nxt
            out += states
        self.last_arg_reads = frozenset(w for _, vals in pairs for a in vals if a[0] == "NODE" for w in a[1])
        return _dedupe(out)

    def node_value(self, st_):
        """the NODE value of a constructor call that ended in state st_: remembers which token reads its line (and its children's) came from"""
        return ("NODE", self.last_line_reads.get(st_.key(), frozenset()) | self.last_arg_reads, frozenset())

    def use(self, call, kw, v, s, argvals=()):
        text = f"line {kw.value.lineno}: {ast.unparse(call.func)}(... lineno={ast.unparse(kw.value)})"
        is_template = ast.unparse(call.func) == "nodes.Template"
        if v[0] in ("LINE", "LINEC"):
            where = v[-1]
            if where in s.used and not any(a[0] == "NODE" and where in a[1] for a in argvals):
                # the same token's line for a second node that does not contain the first one: the second node denotes a LATER construct
                # (another branch / operand / element) and must carry the line of one of its own tokens
                self.problems.append((kw.value.lineno, text + f": the line of the token read at source line {where[0]} was already given to an earlier node that "
                                                              "this node does not contain; a node for a later construct needs the line of its own first token"))
            older = [a for a in argvals if a[0] == "PARAM" or (a[0] in ("NODE", "LIST") and len(a) > 2 and where in a[2])]
            if older and not (v[0] == "LINE" and v[1] and not any(a[0] == "PARAM" for a in older)):
                # the new node CONTAINS material parsed before the token whose line it gets: it starts earlier than that token
                self.problems.append((kw.value.lineno, text + f": the node contains an operand parsed BEFORE the token read at source line {where[0]} whose line it "
                                                              "gets; a node carries the line of the FIRST token of the construct it denotes"))
            s = s.copy()
            s.used = s.used | {where}
        if v[0] in ("LINEC", "LINEN", "PARAM"):
            verdict = "ok"
        elif v[0] == "LINE":
            if v[1] or v[2]:
                verdict = "ok"
            else:
                verdict = "pending"
                s = s.copy()
                s.pending = s.pending | {(kw.value.lineno, text)}
        elif v[0] == "CONST" and v[1] == 1 and is_template:
            verdict = "ok"
        else:
            verdict = "bad"
            self.problems.append((kw.value.lineno, text + f": not the line of a token or child node of the construct (abstract value {v[0]})"))
        self.uses.append((kw.value.lineno, text, verdict))
        return s

    def ev_call(self, e, s):
        f = e.func
        has_lineno = any(k.arg == "lineno" for k in e.keywords)
        # next(self.stream)
        if isinstance(f, ast.Name) and f.id == "next" and e.args and self.is_stream(e.args[0]):
            where = (e.lineno, e.col_offset)
            return [(("TOKC", where), s.consume().fresh_read(where))]
        if isinstance(f, ast.Attribute) and self.is_stream(f.value):
            states = self.ev_args(e, s, False)
            where = (e.lineno, e.col_offset)
            if f.attr in CONSUMING_STREAM:
                return [((("TOKC", where) if f.attr == "expect" else ("OTHER",)), st_.consume().fresh_read(where)) for st_ in states]
            if f.attr == "next_if":
                return [(("TOKC", where), st_.consume().fresh_read(where)) for st_ in states] + [(("BOOL", False), st_) for st_ in states]
            if f.attr == "skip_if":
                return [(("BOOL", True), st_.consume()) for st_ in states] + [(("BOOL", False), st_) for st_ in states]
            return [(("OTHER",), st_) for st_ in states]
        if isinstance(f, ast.Attribute) and self.is_self(f.value):
            states = self.ev_args(e, s, has_lineno)
            if f.attr.startswith("parse") or f.attr == "subparse":
                return [(("NODE", frozenset(), frozenset()), st_.consume()) for st_ in states]
            if f.attr == "free_identifier":
                return [(("NODE", frozenset(), frozenset()), st_) for st_ in states]
            return [(("OTHER",), st_) for st_ in states]
        if has_lineno:
            # a node constructor (nodes.X(...), cls(...), nodes.Node.__init__(rv, ...))
            states = self.ev_args(e, s, True)
            return [(self.node_value(st_), st_) for st_ in states]
        if isinstance(f, ast.Attribute) and isinstance(f.value, ast.Name) and f.value.id == "nodes":
            return [(("NODE", frozenset(), frozenset()), st_) for st_ in self.ev_args(e, s, False)]
        if isinstance(f, ast.Attribute) and isinstance(f.value, ast.Name) and f.attr in ("append", "extend", "insert") and s.loc.get(f.value.id, ("",))[0] == "LIST":
            out = []
            for st_ in self.ev_args(e, s, False):
                st_ = st_.copy()
                st_.loc[f.value.id] = ("LIST", False if f.attr != "extend" else None, s.loc[f.value.id][2] if len(s.loc[f.value.id]) > 2 else frozenset())
                out.append((("OTHER",), st_))
            return out
        # a call that receives the parser (an extension's parse(parser)) or a local parse helper / getattr(self, "parse_...")
        fv = None
        if isinstance(f, ast.Name):
            fv = s.loc.get(f.id)
            if f.id in self.local_defs:
                fv = ("PARSEFN",) if self.local_defs[f.id] else ("OTHER",)
        passes_self = any(self.is_self(a) for a in e.args)
        states = []
        for _, s1 in (self.ev(f, s) if not isinstance(f, ast.Name) else [(None, s)]):
            states += self.ev_args(e, s1, False)
        if passes_self or (fv is not None and fv[0] == "PARSEFN"):
            return [(("NODE", frozenset(), frozenset()), st_.consume()) for st_ in states]
        if isinstance(f, ast.Name) and f.id == "getattr" and e.args and self.is_self(e.args[0]):
            return [(("PARSEFN",), st_) for st_ in states]
        if isinstance(f, ast.Name) and f.id == "isinstance":
            return [(("OTHER",), st_) for st_ in states]
        return [(("OTHER",), st_) for st_ in states]

    # ---- statements: -> (normal states, break states, continue states)
    def assign_target(self, t, v, s):
        if isinstance(t, ast.Name):
            s = s.copy()
            s.loc[t.id] = v if v[0] in ("TOK", "TOKC", "LINE", "LINEC", "NODE", "LINEN", "PARAM", "PARSEFN", "NODELIST", "BOOL", "LIST") else ("OTHER",)
            if s.loc[t.id][0] == "BOOL":
                s.loc[t.id] = ("OTHER",)
            return s
        if isinstance(t, (ast.Tuple, ast.List)):
            for el in t.elts:
                s = self.assign_target(el.value if isinstance(el, ast.Starred) else el, ("OTHER",), s)
            return s
        # attribute / subscript store: evaluate the target's sub-expressions for effects
        for sub in ast.iter_child_nodes(t):
            if isinstance(sub, ast.expr):
                rs = self.ev(sub, s)
                s = rs[0][1] if rs else s
        return s

    @staticmethod
    def prune(s):
        """forget facts about token reads whose value is no longer held by any local (a later use needs a fresh read, which resets them)"""
        live = {v[-1] for v in s.loc.values() if v[0] in ("TOK", "TOKC", "LINE", "LINEC")}
        changed = bool(s.used - live)
        new_loc = {}
        for k, v in s.loc.items():
            if v[0] in ("NODE", "LIST") and len(v) > 2 and v[2] - live:
                v = v[:2] + (frozenset(v[2] & live),)
                changed = True
            new_loc[k] = v
        if not changed:
            return s
        s2 = s.copy()
        s2.loc = new_loc
        s2.used = s2.used & frozenset(live)
        return s2

    def block(self, stmts, states):
        brk, cont = [], []
        for st in stmts:
            nxt = []
            for s in states:
                n, b, c = self.stmt(st, s)
                nxt += n
                brk += b
                cont += c
            states = _dedupe([self.prune(x) for x in nxt])
            if len(states) > 4000:
                raise Unsupported("parser line analysis: too many abstract states")
        return states, _dedupe(brk), _dedupe(cont)

    def stmt(self, st, s):
        if isinstance(st, (ast.Assign, ast.AnnAssign, ast.AugAssign)):
            if getattr(st, "value", None) is None:
                return [s], [], []
            out = []
            for v, s2 in self.ev(st.value, s):
                targets = st.targets if isinstance(st, ast.Assign) else [st.target]
                for t in targets:
                    s2 = self.assign_target(t, v if isinstance(st, (ast.Assign, ast.AnnAssign)) else ("OTHER",), s2)
                out.append(s2)
            return out, [], []
        if isinstance(st, ast.Expr):
            return [s2 for _, s2 in self.ev(st.value, s)], [], []
        if isinstance(st, ast.Return):
            for _, s2 in self.ev(st.value, s):
                self.exits.append(s2)
            return [], [], []
        if isinstance(st, ast.Raise):
            for sub in (st.exc, st.cause):
                if sub is not None:
                    self.ev(sub, s)
            return [], [], []
        if isinstance(st, ast.If):
            n, b, c = [], [], []
            for v, s2 in self.ev_test(st.test, s):
                if not (v[0] == "BOOL" and v[1] is False):
                    n1, b1, c1 = self.block(st.body, [s2])
                    n, b, c = n + n1, b + b1, c + c1
                if not (v[0] == "BOOL" and v[1] is True):
                    n1, b1, c1 = self.block(st.orelse, [s2])
                    n, b, c = n + n1, b + b1, c + c1
            return _dedupe(n), b, c
        if isinstance(st, (ast.While, ast.For)):
            head = [s]
            seen = set()
            exits = []
            work = [s]
            rounds = 0
            while work:
                rounds += 1
                if rounds > 20000:
                    raise Unsupported("parser line analysis: loop fixpoint not reached")
                cur = work.pop()
                if cur.key() in seen:
                    continue
                seen.add(cur.key())
                if isinstance(st, ast.While):
                    tests = self.ev_test(st.test, cur)
                else:
                    tests = [(("OTHER",), self.assign_target(st.target, ("OTHER",), s2)) for _, s2 in self.ev(st.iter, cur)]
                for v, s2 in tests:
                    always = isinstance(st, ast.While) and isinstance(st.test, ast.Constant) and st.test.value is True
                    if not (v[0] == "BOOL" and v[1] is True) and not always:
                        exits.append(s2)
                    if not (v[0] == "BOOL" and v[1] is False):
                        n1, b1, c1 = self.block(st.body, [s2])
                        exits += b1
                        work += n1 + c1
            n2, b2, c2 = self.block(st.orelse, _dedupe(exits)) if st.orelse else (_dedupe(exits), [], [])
            return n2, b2, c2
        if isinstance(st, ast.Try):
            n, b, c = self.block(st.body, [s])
            hs = []
            for h in st.handlers:
                n1, b1, c1 = self.block(h.body, [s] + n)
                hs += n1
                b, c = b + b1, c + c1
            if st.orelse:
                n, b1, c1 = self.block(st.orelse, n)
                b, c = b + b1, c + c1
            n = _dedupe(n + hs)
            if st.finalbody:
                exits_before = len(self.exits)
                n, b1, c1 = self.block(st.finalbody, n)
                b, c = b + b1, c + c1
            return n, b, c
        if isinstance(st, ast.With):
            for item in st.items:
                rs = self.ev(item.context_expr, s)
                s = rs[0][1] if rs else s
            return self.block(st.body, [s])
        if isinstance(st, ast.Break):
            return [], [s], []
        if isinstance(st, ast.Continue):
            return [], [], [s]
        if isinstance(st, ast.FunctionDef):
            sub = LinenoAnalysis(st, self.self_name, outer=self)
            sub.run(params_as="PARAM")
            self.problems += sub.problems
            self.uses += sub.uses
            self.unknown += sub.unknown
            self.local_defs[st.name] = self.has_consuming_call(st)
            return [s], [], []
        if isinstance(st, (ast.Pass, ast.Import, ast.ImportFrom, ast.Global, ast.Nonlocal)):
            return [s], [], []
        if isinstance(st, (ast.Assert, ast.Delete)):
            for sub in ast.iter_child_nodes(st):
                if isinstance(sub, ast.expr):
                    rs = self.ev(sub, s)
                    s = rs[0][1] if rs else s
            return [s], [], []
        self.unknown.append((st.lineno, f"statement {type(st).__name__}"))
        return [s], [], []

    def run(self, params_as="PARAM"):
        s = _PState()
        args = self.fn.args
        for a in list(args.posonlyargs) + list(args.args) + list(args.kwonlyargs):
            if a.arg != self.self_name:
                s.loc[a.arg] = ("PARAM",)
        normal, _, _ = self.block(self.fn.body, [s])
        self.exits += normal
        for ex in self.exits:
            for ln, text in ex.pending:
                self.problems.append((ln, text + ": the line of the token the stream points at is read after tokens were consumed, and no further token "
                                                  "is consumed before the method returns (the token is not part of this construct)"))
        self.problems = sorted(set(self.problems))
        return self


def parser_methods():
    out = []
    for name, fn in sorted(vars(P.Parser).items()):
        if callable(fn) and (name.startswith("parse") or name in ("subparse", "free_identifier")):
            out.append((name, fn))
    return out


def parser_lineno(task, tier, seed):
    t0 = time.time()
    out = []
    total_uses = 0
    for name, fn in parser_methods():
        node, _ = extract.function_ast(fn)
        an = LinenoAnalysis(node, node.args.args[0].arg).run()
        if not an.uses:
            continue
        total_uses += len({u[:2] for u in an.uses})
        oname = f"C35.parser.lineno[{name}]"
        if an.unknown:
            out.append(Res(oname, "unknown", "ast", time.time() - t0, f"construct outside the analysis: {an.unknown[:3]}", "path"))
        elif an.problems:
            sites = sorted({p[1].split(": ", 1)[1].split(":")[0] for p in an.problems})
            out.append(Res(oname, "refuted", "ast", time.time() - t0, "; ".join(p[1] for p in an.problems[:3]), "path", {"method": name, "key": name + ":" + ",".join(sites)}))
        else:
            sites = sorted({u[:2] for u in an.uses})
            out.append(Res(oname, "discharged", "ast", time.time() - t0, f"{len(sites)} lineno= site(s): " + "; ".join(x[1].split(': ', 1)[1] for x in sites)[:300], "path"))
    ok = total_uses >= 40
    out.append(Res("C35.parser.lineno.sites_found", "discharged" if ok else "error", "ast", time.time() - t0,
                   f"{total_uses} `lineno=` sites analysed in the real Parser methods (at least 40 expected)", "path"))
    return out



def replay_parser_lineno(w):
    """native oracle of the statement (not of the analysis): parse sources in which every token of one tag sits on its own line
    and the closing delimiter follows two blank lines; every expression node created for the tag must carry the line of one of
    its tokens: 2 <= lineno < line of the closing delimiter"""
    exprs = ["a < b", "a < b > c", "a in b", "a not in b", "a , b , c", "( a , b , )", "[ a , b ]", "{ a : b , c : d }", "a ( b , c = d )", "a | f ( b )",
             "a is t ( b )", "a is not t", "a if b else c", "a + b - c", "a * b // c", "a ~ b ~ c", "- a", "not a", "a ** b", "a . b", "a [ b ]",
             "a [ b : c ]", "a [ b , c ]", "'x' 'y' 'z'", "a or b or c", "a and b", "1", "1.5", "true", "none", "ns . attr"]
    env = jinja2.Environment()
    bad = []
    for ex in exprs:
        toks = ex.split()
        for opener, closer in (("{{", "}}"), ("{% if", "%}x{% endif %}"), ("{% set z =", "%}")):
            src = opener + "\n" + "\n".join(toks) + "\n\n\n" + closer
            end_line = 1 + len(toks) + 3
            try:
                tree = env.parse(src)
            except jinja2.TemplateSyntaxError:
                continue
            for n in tree.find_all(N.Expr):
                if n.lineno is None or isinstance(n, N.TemplateData):
                    continue
                if not (2 <= n.lineno < end_line) and not (isinstance(n, N.Name) and n.ctx == "store"):
                    bad.append(f"{type(n).__name__} node of {ex!r} in `{opener} ... {closer.split('%}')[0] + ('%}' if '%' in closer else '')}` has lineno {n.lineno}; its tokens are on lines 2..{end_line - 3}")
    # statement nodes: the line of the tag's first token
    stmts = ["for x in y %}{% endfor", "if x %}{% endif", "set x = 1", "with x = 1 %}{% endwith", "block b %}{% endblock", "macro m ( ) %}{% endmacro",
             "call m ( ) %}{% endcall", "filter f %}{% endfilter", "include 'x'", "import 'x' as y", "from 'x' import y", "extends 'x'", "autoescape true %}{% endautoescape"]
    for body in stmts:
        src = "a\n\n{%\n\n" + body + " %}"
        try:
            tree = env.parse(src)
        except jinja2.TemplateSyntaxError:
            continue
        for n in tree.body:
            if isinstance(n, N.Stmt) and not isinstance(n, N.Output) and n.lineno is not None:
                if n.lineno != 5:
                    bad.append(f"{type(n).__name__} statement whose tag name is on line 5 has lineno {n.lineno}")
    # constructs with several branches / operands: every node carries a line of ITS OWN tag or operand
    src = "{% if a %}\nx\n{% elif\nb %}\ny\n\n{% elif c %}\nz\n{% endif %}"
    try:
        top = next(env.parse(src).find_all(N.If))
        for br, (lo, hi) in zip(top.elif_, ((3, 4), (7, 7))):
            if not (lo <= br.lineno <= hi):
                bad.append(f"the If node of the elif branch whose tag is on lines {lo}..{hi} has lineno {br.lineno}")
    except jinja2.TemplateSyntaxError:
        pass
    for ex, cls, want in (("a\n+\nb\n+\nc", N.Add, {3, 5, 2, 4}), ("a\nor\nb\nor\nc", N.Or, {2, 3, 4, 5}), ("a\n~\nb", N.Concat, {1, 2})):
        try:
            found = [n.lineno for n in env.parse("{{ " + ex + " }}").find_all(cls)]
        except jinja2.TemplateSyntaxError:
            continue
        if len(found) > 1 and len(set(found)) == 1:
            bad.append(f"all {cls.__name__} nodes of the chain {ex!r} carry the same line {found[0]}")
    return (bool(bad), "; ".join(bad[:3]) if bad else "every node of the fixed family carries the line of one of its tokens")


def parser_key(res):
    return (res.witness or {}).get("key", "")


# ====================================================================================================
# C35.codegen.private / C35.template.lineno.roundtrip (tables, bounded)
# ====================================================================================================


def codegen_private(task, tier, seed):
    """table: the line bookkeeping is private to __init__ / write / newline: no other function of jinja2.compiler stores to the fields,
    mutates debug_info or writes to the stream directly; visit_Template ends by writing the `k=v&...` string of ALL pairs;
    Template._from_namespace stores namespace['debug_info'] in _debug_info."""
    t0 = time.time()
    import inspect
    out = []
    src = inspect.getsource(CG)
    tree = ast.parse(src)
    allowed = {"__init__", "write", "newline"}
    offenders = []
    for cls in [n for n in tree.body if isinstance(n, ast.ClassDef)]:
        for fn in [n for n in cls.body if isinstance(n, (ast.FunctionDef, ast.AsyncFunctionDef))]:
            for n in ast.walk(fn):
                if isinstance(n, ast.Attribute) and n.attr in BOOKKEEPING and isinstance(n.ctx, (ast.Store, ast.Del)) and fn.name not in allowed:
                    offenders.append(f"{cls.name}.{fn.name} line {n.lineno}: stores to .{n.attr}")
                if isinstance(n, ast.Call) and isinstance(n.func, ast.Attribute):
                    f = n.func
                    if f.attr in ("append", "extend", "insert", "pop", "clear", "remove", "sort", "reverse") and isinstance(f.value, ast.Attribute) and f.value.attr == "debug_info" \
                            and fn.name not in allowed:
                        offenders.append(f"{cls.name}.{fn.name} line {n.lineno}: mutates debug_info")
                    if f.attr in ("write", "writelines") and isinstance(f.value, ast.Attribute) and f.value.attr == "stream" and fn.name != "write":
                        offenders.append(f"{cls.name}.{fn.name} line {n.lineno}: writes to the stream directly")
    out.append(Res("C35.codegen.private", "discharged" if not offenders else "refuted", "table", time.time() - t0,
                   "; ".join(offenders[:4]) or "only __init__/write/newline store to the bookkeeping fields; only write() writes to the stream", "table",
                   None if not offenders else {"task": "codegen.private"}))
    # visit_Template tail
    node, _ = extract.function_ast(CG.CodeGenerator.visit_Template)
    expr = debug_string_expr()
    last = node.body[-1]
    tail_ok = (expr is not None and isinstance(last, ast.Expr) and isinstance(last.value, ast.Call) and getattr(last.value.func, "attr", "") == "writeline"
               and "debug_info = " in ast.unparse(last.value.args[0]) and expr[0] in ast.unparse(last.value.args[0]) and "!r" in ast.unparse(last.value.args[0])
               and node.body[-2] is expr[2])
    out.append(Res("C35.template.lineno.written_last", "discharged" if tail_ok else "refuted", "table", time.time() - t0,
                   "visit_Template ends with `<s> = <join over self.debug_info>; self.writeline(f'debug_info = {<s>!r}')`" if tail_ok else
                   "visit_Template no longer ends by writing the debug_info string of all pairs", "table", None if tail_ok else {"task": "roundtrip"}))
    fn_node, _ = extract.function_ast(E.Template._from_namespace.__func__)
    stores = [n for n in ast.walk(fn_node) if isinstance(n, ast.Assign) and any(isinstance(t, ast.Attribute) and t.attr == "_debug_info" for t in n.targets)]
    ns_ok = len(stores) == 1 and isinstance(stores[0].value, ast.Subscript) and isinstance(stores[0].value.slice, ast.Constant) and stores[0].value.slice.value == "debug_info"
    marks = [n for n in ast.walk(fn_node) if isinstance(n, ast.Assign) and any(isinstance(t, ast.Subscript) and isinstance(t.slice, ast.Constant) and t.slice.value == "__jinja_template__" for t in n.targets)]
    out.append(Res("C35.template.lineno.read_from_namespace", "discharged" if ns_ok and len(marks) == 1 else "refuted", "table", time.time() - t0,
                   "_from_namespace: t._debug_info = namespace['debug_info']; namespace['__jinja_template__'] = t", "table",
                   None if ns_ok and len(marks) == 1 else {"task": "roundtrip"}))
    return out


def debug_string_expr():
    """(name, compiled expression, statement) of the `<name> = "&".join(... self.debug_info)` assignment of the real visit_Template"""
    node, _ = extract.function_ast(CG.CodeGenerator.visit_Template)
    self_name = node.args.args[0].arg
    for st in node.body:
        if isinstance(st, ast.Assign) and len(st.targets) == 1 and isinstance(st.targets[0], ast.Name):
            if any(isinstance(n, ast.Attribute) and n.attr == "debug_info" and isinstance(n.value, ast.Name) and n.value.id == self_name for n in ast.walk(st.value)):
                code = compile(ast.fix_missing_locations(ast.Expression(st.value)), "<visit_Template debug string>", "eval")
                return st.targets[0].id, (code, self_name), st
    return None


def roundtrip_once(pairs):
    """the real join expression of visit_Template -> `debug_info = '...'` executed as generated code -> the real Template.debug_info"""
    name, (code, self_name), _ = debug_string_expr()
    fake = type("G", (), {})()
    fake.debug_info = list(pairs)
    s = eval(code, dict(vars(CG)), {self_name: fake})
    ns = {}
    exec(f"debug_info = {s!r}", ns)
    t = object.__new__(E.Template)
    t._debug_info = ns["debug_info"]
    return t.debug_info, t


def roundtrip(task, tier, seed):
    t0 = time.time()
    if debug_string_expr() is None:
        return [Res("C35.template.lineno.roundtrip", "unknown", "native", 0, "the debug_info string expression of visit_Template was not recognised", "bounded")]
    maxlen = 2 if tier == "quick" else 3
    values = (1, 2, 10, 123)
    allpairs = list(itertools.product(values, repeat=2))
    n = 0
    for ln in range(0, maxlen + 1):
        for pairs in itertools.product(allpairs, repeat=ln):
            n += 1
            try:
                got, t = roundtrip_once(pairs)
                ok = [tuple(x) for x in got] == list(pairs)
            except Exception as ex:  # noqa
                got, ok = f"<{type(ex).__name__}: {ex}>", False
            if not ok:
                return [Res("C35.template.lineno.roundtrip", "refuted", "native", time.time() - t0,
                            f"pairs {list(pairs)} written by visit_Template are read back by Template.debug_info as {got}", "bounded", {"pairs": [list(p) for p in pairs]})]
    task.stats = {"lists": n}
    return [Res("C35.template.lineno.roundtrip", "bounded-ok", "native", time.time() - t0, f"{n} lists of pairs survive `k=v&...` encoding and decoding", "bounded")]


def replay_roundtrip(w):
    pairs = [tuple(p) for p in w.get("pairs", [[1, 2], [10, 123]])]
    try:
        got, _ = roundtrip_once(pairs)
        ok = [tuple(x) for x in got] == pairs
    except Exception as ex:  # noqa
        return (True, f"round trip of {pairs} raised {type(ex).__name__}: {ex}")
    return (not ok, f"pairs {pairs} are read back as {got}")


# ====================================================================================================
# C35.debug.rewrite: synthetic tracebacks through the real rewrite_traceback_stack / fake_traceback
# ====================================================================================================

FRAME_KINDS = ("root", "block", "macro", "plain", "internal")


class Boom(Exception):
    pass


def make_template(filename, pairs):
    t = object.__new__(E.Template)
    t._debug_info = "&".join(f"{a}={b}" for a, b in pairs)
    t.filename = filename
    t.name = filename
    return t


def build_chain(kinds, seed=0):
    """functions f0..fn-1 of the given kinds, fi calling fi+1 at a known code line, the last one raising Boom.
    -> (entry callable, expected frames [(filename, lineno, name)], code objects registered as internal)"""
    from jinja2.utils import internal_code
    fns, expected, registered = [], [], []
    nxt = None
    for idx in reversed(range(len(kinds))):
        kind = kinds[idx]
        pad = (idx * 3 + seed) % 7
        call_line = 2 + pad
        fname = {"root": "root", "block": "block_content", "macro": "macro", "plain": f"helper_{idx}", "internal": f"internal_{idx}"}[kind]
        body = "nxt()" if nxt is not None else "raise Boom('x')"
        src = f"def {fname}(context=None):\n" + "\n" * pad + f"    {body}\n"
        pyfile = f"<frame {idx} {kind}>"
        g = {"nxt": nxt, "Boom": Boom, "__name__": "synthetic"}
        if kind in ("root", "block", "macro"):
            tfile = f"/templates/t{idx}.html"
            pairs = [(3 + idx, 1), (10 + idx, call_line), (20 + idx, call_line + 1)]
            g["__jinja_template__"] = make_template(tfile, pairs)
            loc = {"root": "top-level template code", "block": "block 'content'", "macro": "template"}[kind]
            expected.insert(0, (tfile, 10 + idx, loc))
        elif kind == "plain":
            expected.insert(0, (pyfile, call_line, fname))
        exec(compile(src, pyfile, "exec"), g)
        fn = g[fname]
        if kind == "internal":
            internal_code.add(fn.__code__)
            registered.append(fn.__code__)
        nxt = fn
    return nxt, expected, registered


def run_chain(kinds, seed=0):
    from jinja2.utils import internal_code
    entry, expected, registered = build_chain(kinds, seed)
    try:
        def render_stand_in():
            try:
                entry()
            except Boom:
                return D.rewrite_traceback_stack()
        exc = render_stand_in()
        frames = [(f.filename, f.lineno, f.name) for f in traceback.extract_tb(exc.__traceback__)]
        return isinstance(exc, Boom), frames, expected
    finally:
        for c in registered:
            internal_code.discard(c)


def check_chain(kinds, seed=0):
    try:
        same, frames, expected = run_chain(kinds, seed)
    except Exception as ex:  # noqa
        return f"frames {list(kinds)}: rewrite_traceback_stack raised {type(ex).__name__}: {ex}"
    if not same:
        return f"frames {list(kinds)}: a different exception object is returned"
    if frames != expected:
        return f"frames {list(kinds)}: rewritten traceback {frames}, expected {expected}"
    return None


def check_syntax_error(lineno, filename, with_source):
    try:
        try:
            raise jinja2.TemplateSyntaxError("boom", lineno, "name.html", filename)
        except jinja2.TemplateSyntaxError:
            exc = D.rewrite_traceback_stack(source="a\nb\nc\nd\ne\nf" if with_source else None)
    except Exception as ex:  # noqa
        return f"syntax error at line {lineno}: rewrite_traceback_stack raised {type(ex).__name__}: {ex}"
    frames = [(f.filename, f.lineno, f.name) for f in traceback.extract_tb(exc.__traceback__)]
    want = [(filename or "<unknown>", lineno, "template")]
    if frames != want or not exc.translated or exc.lineno != lineno or (with_source and exc.source is None):
        return f"syntax error at line {lineno} of {filename!r}: traceback {frames}, expected {want}; translated={exc.translated}"
    # a second pass (the error travels through an outer template's render) must keep the frame
    try:
        try:
            raise exc
        except jinja2.TemplateSyntaxError:
            exc2 = D.rewrite_traceback_stack()
    except Exception as ex:  # noqa
        return f"second rewrite raised {type(ex).__name__}: {ex}"
    frames2 = [(f.filename, f.lineno, f.name) for f in traceback.extract_tb(exc2.__traceback__)]
    if frames2[-1:] != want:
        return f"syntax error at line {lineno}: after a second rewrite the innermost frame is {frames2[-1:]}, expected {want}"
    return None


def debug_rewrite(task, tier, seed):
    t0 = time.time()
    maxlen = 3 if tier == "quick" else 4
    n, out = 0, []
    for ln in range(1, maxlen + 1):
        for kinds in itertools.product(FRAME_KINDS, repeat=ln):
            for sd in (0, 1):
                n += 1
                bad = check_chain(kinds, sd)
                if bad and len(out) < 3:
                    out.append(Res("C35.debug.rewrite", "refuted", "native", time.time() - t0, bad, "bounded", {"kinds": list(kinds), "seed": sd}))
    for lineno in (1, 2, 5, 40):
        for filename in ("/templates/x.html", None):
            for ws in (True, False):
                n += 1
                bad = check_syntax_error(lineno, filename, ws)
                if bad and len(out) < 4:
                    out.append(Res("C35.debug.rewrite", "refuted", "native", time.time() - t0, bad, "bounded", {"syntax_error": [lineno, filename, ws]}))
    task.stats = {"cases": n}
    if not out:
        out.append(Res("C35.debug.rewrite", "bounded-ok", "native", time.time() - t0,
                       f"{n} synthetic tracebacks: template frames replaced in order by frames at (template file, get_corresponding_lineno(code line)) with the "
                       "documented location name, internal-code frames dropped, other frames kept; a syntax error gets one frame at its own line", "bounded"))
    return out


def replay_rewrite(w):
    if "syntax_error" in w:
        bad = check_syntax_error(*w["syntax_error"])
    else:
        bad = check_chain(tuple(w["kinds"]), w.get("seed", 0))
    return (bad is not None, bad or "rewritten traceback matches the documented rule")


# ====================================================================================================
# C35.bounded.render: real templates raising at known lines
# ====================================================================================================

RAISE = "{{ boom() }}"
WRAPPERS = {
    "plain": ([], []),
    "if": (["{% if true %}"], ["{% endif %}"]),
    "else": (["{% if false %}", "no", "{% else %}"], ["{% endif %}"]),
    "for": (["{% for i in [1, 2] %}"], ["{% endfor %}"]),
    "for_else": (["{% for i in [] %}", "never", "{% else %}"], ["{% endfor %}"]),
    "with": (["{% with q = 1 %}"], ["{% endwith %}"]),
    "block": (["{% block b%(n)d %}"], ["{% endblock %}"]),
    "set_block": (["{% set captured%(n)d %}"], ["{% endset %}"]),
    "filter": (["{% filter upper %}"], ["{% endfilter %}"]),
    "macro": (["{% macro m%(n)d() %}"], ["{% endmacro %}", "{{ m%(n)d() }}"]),
    "call": (["{% macro c%(n)d() %}{{ caller() }}{% endmacro %}", "{% call c%(n)d() %}"], ["{% endcall %}"]),
    "autoescape": (["{% autoescape true %}"], ["{% endautoescape %}"]),
    # buffered frames whose body is ONE lone run-time expression (whitespace control removes the surrounding template data)
    "tight_macro": (["{% macro tm%(n)d() -%}"], ["{%- endmacro %}", "{{ tm%(n)d() }}"]),
    "tight_call": (["{% macro tc%(n)d() %}{{ caller() }}{% endmacro %}", "{% call tc%(n)d() -%}"], ["{%- endcall %}"]),
    "tight_set": (["{% set ts%(n)d -%}"], ["{%- endset %}"]),
    "tight_filter": (["{% filter upper -%}"], ["{%- endfilter %}"]),
}
FILLER = ["text", "", "{{ 1 }}", "{# comment #}", "{{ [1,", "2,", "3]|length }}", "a {{ 'b' }} c", "{% set z = 1 %}", "{#", "multi", "#}", "{% raw %}", "{{ x }}", "{% endraw %}"]
FILLER_GROUPS = [["text"], [""], ["{{ 1 }}"], ["{# comment #}"], ["{{ [1,", "2,", "3]|length }}"], ["a {{ 'b' }} c"], ["{% set z = 1 %}"], ["{#", "multi", "#}"],
                 ["{% raw %}", "{{ x }}", "{% endraw %}"], ["{%- if true -%}", "t", "{%- endif -%}"], ["{{ 'a'", "~ 'b' }}"]]


def gen_case(rnd):
    """-> (files {name: source}, entry template, expected (file, line), description)"""
    nl = rnd.choice(["\n", "\n", "\r\n", "\r"])
    depth = rnd.randint(0, 3)
    names = [rnd.choice(sorted(WRAPPERS)) for _ in range(depth)]
    lines = []

    def filler(k):
        for _ in range(k):
            lines.extend(rnd.choice(FILLER_GROUPS))

    filler(rnd.randint(0, 3))
    closers = []
    for n, w in enumerate(names):
        pre, post = WRAPPERS[w]
        lines.extend(p.replace("%(n)d", str(n)) for p in pre)
        closers.append([p.replace("%(n)d", str(n)) for p in post])
        if not (w.startswith("tight_") and n == len(names) - 1):
            filler(rnd.randint(0, 2))
    tight = bool(names) and names[-1].startswith("tight_")
    prefix_same_line = "" if tight else rnd.choice(["", "", "x {{ 1 }} "])
    if not tight and rnd.random() < 0.15:
        # the raising call is the CONDITION of an elif branch (reported at the elif tag's line, not at the if tag's)
        lines.extend(["{% if false %}", "first branch", "{% elif boom() %}"])
        raise_line = len(lines)
        lines.extend(["second branch", "{% endif %}"])
    else:
        lines.append(prefix_same_line + RAISE + ("" if tight else rnd.choice(["", " tail"])))
        raise_line = len(lines)
    if not tight:
        filler(rnd.randint(0, 1))
    for post in reversed(closers):
        lines.extend(post)
        filler(rnd.randint(0, 1))
    body = nl.join(lines) + rnd.choice(["", nl])
    mode = rnd.choice(["direct", "direct", "include", "parent_block", "child_block", "import_macro"])
    files = {}
    if mode == "direct" or (("set_block" in names or "tight_set" in names) and mode != "include") or mode in ("parent_block", "child_block") and "block" in names:
        mode = "direct" if mode not in ("include",) else mode
    if mode == "direct":
        files["main.html"] = body
        return files, "main.html", ("main.html", raise_line), f"direct {names} nl={nl!r}"
    if mode == "include":
        files["inc.html"] = body
        files["main.html"] = "line1\nline2\n{% include 'inc.html' %}\nafter"
        return files, "main.html", ("inc.html", raise_line), f"included {names} nl={nl!r}"
    if mode == "parent_block":
        # the raising line lives in a block of the parent, rendered through a child that does not override it
        files["parent.html"] = "head" + nl + "{% block pb %}" + nl + body + nl + "{% endblock %}" + nl + "foot"
        files["main.html"] = "{% extends 'parent.html' %}\n{% block other %}o{% endblock %}"
        return files, "main.html", ("parent.html", raise_line + 2), f"parent block {names} nl={nl!r}"
    if mode == "child_block":
        files["parent.html"] = "head\n{% block cb %}parent{% endblock %}\nfoot"
        files["main.html"] = "{% extends 'parent.html' %}" + nl + "{% block cb %}" + nl + body + nl + "{% endblock %}"
        return files, "main.html", ("main.html", raise_line + 2), f"child block {names} nl={nl!r}"
    # macro imported from another file and called from main
    files["lib.html"] = "{% macro lm() %}" + nl + body + nl + "{% endmacro %}"
    files["main.html"] = "a\n{% import 'lib.html' as lib %}\n{{ lib.lm() }}"
    return files, "main.html", ("lib.html", raise_line + 1), f"imported macro {names} nl={nl!r}"


SYNTAX_CASES = [
    ("{{ 1 + }}", 0, "offending `}}`"), ("{% endfor %}", 0, "stray endfor"), ("{% nosuchtag %}", 0, "unknown tag"), ("{{ a", 1, "second name"),
    ("{{ ? }}", 0, "unexpected char"), ("{% for x %}", 0, "for without in"), ("{{ a | }}", 0, "missing filter name"), ("{% if %}", 0, "missing test"),
    ("{{ 'abc", 0, "unterminated string is a lexer error on its line"),
]


def gen_syntax_case(rnd):
    nl = rnd.choice(["\n", "\r\n", "\r"])
    lines = []
    for _ in range(rnd.randint(0, 4)):
        lines.extend(rnd.choice(FILLER_GROUPS))
    bad, extra, what = rnd.choice(SYNTAX_CASES)
    if extra:
        lines.append(bad)
        lines.append(" b }}")
        err_line = len(lines)
    else:
        lines.append(bad)
        err_line = len(lines)
    lines.append("after")
    src = nl.join(lines)
    return src, err_line, what


def boom():
    raise Boom("raised by the template")


def run_case(files, entry, tmpdir):
    import os
    for name, src in files.items():
        with open(os.path.join(tmpdir, name), "w", newline="", encoding="utf-8") as f:
            f.write(src)
    env = jinja2.Environment(loader=jinja2.FileSystemLoader(tmpdir), cache_size=0)
    env.globals["boom"] = boom
    try:
        env.get_template(entry).render()
    except Boom as ex:
        frames = [(os.path.basename(f.filename), f.lineno) for f in traceback.extract_tb(ex.__traceback__) if os.path.dirname(f.filename) == tmpdir]
        return frames[-1] if frames else None
    except Exception as ex:  # noqa
        return f"<{type(ex).__name__}: {ex}>"
    return "<no exception>"


def run_syntax_case(src, tmpdir, how):
    import os
    path = os.path.join(tmpdir, "syn.html")
    with open(path, "w", newline="", encoding="utf-8") as f:
        f.write(src)
    if how == "included":
        with open(os.path.join(tmpdir, "outer.html"), "w", encoding="utf-8") as f:
            f.write("x\n{% include 'syn.html' %}")
    env = jinja2.Environment(loader=jinja2.FileSystemLoader(tmpdir), cache_size=0)
    try:
        if how == "included":
            env.get_template("outer.html").render()
        else:
            env.get_template("syn.html")
    except jinja2.TemplateSyntaxError as ex:
        frames = [(os.path.basename(f.filename), f.lineno) for f in traceback.extract_tb(ex.__traceback__) if os.path.dirname(f.filename) == tmpdir]
        return (ex.lineno, os.path.basename(ex.filename or ""), frames[-1] if frames else None)
    except Exception as ex:  # noqa
        return f"<{type(ex).__name__}: {ex}>"
    return "<no exception>"


RENDER_SHARDS = 4


def case_seed(seed, shard, k):
    return (seed * 1000003 + shard * 7919 + k) & 0x7FFFFFFF


def check_render_case(cs, tmpdir):
    import random
    rnd = random.Random(cs)
    if rnd.random() < 0.25:
        src, err_line, what = gen_syntax_case(rnd)
        how = rnd.choice(["direct", "included"])
        got = run_syntax_case(src, tmpdir, how)
        want = (err_line, "syn.html", ("syn.html", err_line))
        if got != want:
            return f"syntax error ({what}, {how}) in {src!r}: reported (lineno, file, innermost template frame) = {got}, expected {want}"
        return None
    files, entry, want, desc = gen_case(rnd)
    got = run_case(files, entry, tmpdir)
    if got != want:
        return f"{desc}: innermost template frame {got}, expected {want}; files {files!r}"
    return None


def bounded_render(shard):
    def run(task, tier, seed):
        import shutil
        import tempfile
        t0 = time.time()
        count = 150 if tier == "quick" else 1500
        tmpdir = tempfile.mkdtemp(prefix="c35_")
        out = []
        try:
            for k in range(count):
                cs = case_seed(seed, shard, k)
                bad = check_render_case(cs, tmpdir)
                if bad and len(out) < 3:
                    out.append(Res("C35.bounded.render", "refuted", "native", time.time() - t0, bad[:900], "bounded", {"case_seed": cs}))
        finally:
            shutil.rmtree(tmpdir, ignore_errors=True)
        task.stats = {"templates": count}
        if not out:
            out.append(Res(f"C35.bounded.render[{shard}]", "bounded-ok", "native", time.time() - t0,
                           f"{count} generated templates: the innermost template frame (resp. TemplateSyntaxError.lineno) names the file and line of the raising construct", "bounded"))
        return out
    return run


def replay_render(w):
    import shutil
    import tempfile
    tmpdir = tempfile.mkdtemp(prefix="c35_")
    try:
        bad = check_render_case(int(w["case_seed"]), tmpdir)
    finally:
        shutil.rmtree(tmpdir, ignore_errors=True)
    return (bad is not None, bad or "the generated case reports the right file and line")



# ====================================================================================================
# C35.emit.output_lines: emission contract on the real visit_Output
# ====================================================================================================


class LineMark:
    """ghost piece of the emitted stream: newline(node) / writeline(.., node) was called with this node (its lineno becomes the
    pending template line of the next write - C35.codegen.newline / write)"""

    def __init__(self, node):
        self.node = node

    def __str__(self):
        return ""

    def __repr__(self):
        return f"<line of {self.node!r}>"


def _output_lines_configure(I):
    from contracts.c15 import output_configure
    from pyvc import emit
    output_configure(I)
    base = I.specs["CodeGenerator.newline"]

    def newline_marked(I_, st, args, kwargs, node):
        rs = base(I_, st, args, kwargs, node)
        nd = args[1] if len(args) > 1 else kwargs.get("node")
        if nd is not None:
            for s2, _ in rs:
                emit.out(s2, LineMark(nd))
        return rs

    I.specs["CodeGenerator.newline"] = newline_marked


def output_lines(task, tier, seed):
    """Emission contract on CodeGenerator.visit_Output for 1, 2 and 3 children (each an arbitrary expression or template data), with
    and without a frame buffer, on every feasible path: every child that is evaluated at run time (a hole of the emitted code) is
    preceded - with no other run-time child in between - by a newline(child)/writeline(.., child) carrying THAT child, so that an
    error raised by it is attributed to the child's own template line (debug_info gets an entry at the child's code line)."""
    t0 = time.time()
    try:
        from contracts.c15 import output_node_fields, _output_pre
        from pyvc.emitcheck import EmitTask
        from pyvc import emit
    except ImportError as ex:
        return [Res("C35.emit.output_lines", "unknown", "pyvc-emit", 0, f"emission infrastructure of contracts.c15 not importable: {ex}", "emission")]
    out = []
    configs = [k for n in (1, 2, 3) for k in itertools.product("ET", repeat=n) if "E" in k]
    n_paths = n_runtime = 0
    for kinds in configs:
        et = EmitTask(PROP, "C35.emit.output_lines", "jinja2.compiler:CodeGenerator.visit_Output", N.Output, None, mode="stmts",
                      buffers=(None, "t_buf"), node_fields=output_node_fields(kinds), configure=_output_lines_configure,
                      env_fields={"finalize": None}, pre=_output_pre("none", False), gen_fields={"_finalize": None})
        try:
            scs = et.schemas()
        except Unsupported as ex:
            out.append(Res(f"C35.emit.output_lines[{''.join(kinds)}].engine", "unknown", "pyvc-emit", time.time() - t0, f"unsupported: {ex}", "emission"))
            continue
        for i, sc in enumerate(scs):
            if sc.outcome == "raise":
                continue
            n_paths += 1
            kids = list(sc.st.get(sc.st.get(sc.node).fields["nodes"]).items)
            fails = []
            mark = None
            for p in sc.pieces:
                if isinstance(p, LineMark):
                    mark = p.node
                elif isinstance(p, emit.Hole) and p.ref in kids:
                    n_runtime += 1
                    idx = kids.index(p.ref)
                    if mark != p.ref:
                        fails.append(f"run-time child #{idx} of {len(kids)} is written without a preceding newline(child): the pending template line is that of "
                                     f"{'no node' if mark is None else ('child #' + str(kids.index(mark)) if mark in kids else 'another node')}")
                    mark = None if mark != p.ref else mark
                    mark = None
            name = f"C35.emit.output_lines[{''.join(kinds)},buffer={sc.buffer}]#p{i}"
            if fails:
                out.append(Res(name, "refuted", "pyvc-emit", time.time() - t0, f"schema `{sc.describe()[:200]}`: " + "; ".join(fails[:2]), "emission",
                               {"children": "".join(kinds), "buffer": sc.buffer, "key": f"{'buffered' if sc.buffer else 'unbuffered'}:{len(kids)}"}))
            else:
                out.append(Res(name, "discharged", "pyvc-emit", time.time() - t0, "", "emission"))
    if n_runtime < 20:
        out.append(Res("C35.emit.output_lines.paths", "error", "pyvc-emit", time.time() - t0, f"only {n_runtime} run-time children on {n_paths} paths", "emission"))
    return out


def replay_output_lines(w):
    """native: a lone / first / last raising expression inside buffered and unbuffered frames; the innermost template frame must name
    the expression's own line"""
    import os
    import shutil
    import tempfile
    tmpdir = tempfile.mkdtemp(prefix="c35_")
    bodies = [(["{{ boom() }}"], 1), (["{{ 1 }}{{ boom() }}"], 1), (["x", "{{ boom() }}", "y"], 2), (["{{ 1 }}", "", "{{ boom() }}{{ 2 }}"], 3)]
    frames = [("", "", 0), ("{% macro m() -%}", "{%- endmacro %}\n{{ m() }}", 1), ("{% set v -%}", "{%- endset %}", 1), ("{% filter upper -%}", "{%- endfilter %}", 1),
              ("{% macro c() %}{{ caller() }}{% endmacro %}\n{% call c() -%}", "{%- endcall %}", 2), ("{% macro m() %}", "{% endmacro %}\n{{ m() }}", 1)]
    bad = []
    try:
        for pre, post, off in frames:
            for lines, at in bodies:
                src = "first {{ 0 }}\n\n" + (pre + "\n" if pre else "") + "\n".join(lines) + ("\n" + post if post else "")
                want = ("main.html", 2 + off + at)
                got = run_case({"main.html": src}, "main.html", tmpdir)
                if got != want:
                    bad.append(f"{src!r}: innermost template frame {got}, expected {want}")
    finally:
        shutil.rmtree(tmpdir, ignore_errors=True)
    return (bool(bad), "; ".join(bad[:2]) or "raising expressions in buffered and unbuffered frames are reported at their own line")



# ====================================================================================================
# C35.emit.stmt_marked: every statement visitor line-marks before it writes code that can raise
# ====================================================================================================


def _marked_newline_configure(I):
    from pyvc import emit
    base = I.specs["CodeGenerator.newline"]

    def newline_marked(I_, st, args, kwargs, node):
        rs = base(I_, st, args, kwargs, node)
        nd = args[1] if len(args) > 1 else kwargs.get("node")
        if nd is not None:
            for s2, _ in rs:
                emit.out(s2, LineMark(nd))
        return rs

    I.specs["CodeGenerator.newline"] = newline_marked


def _nsref_configure(I):
    """Node.find_all(NSRef) on the statement under test: the one attribute target the node was built with"""
    _marked_newline_configure(I)

    def find_all(I_, st, args, kwargs, node):
        h = st.get(args[0])
        tgt = h.fields.get("target")
        return [(st, st.alloc(HList(items=[tgt])))]

    I.specs["Node.find_all"] = find_all


def _nsref_fields(st):
    from pyvc import emit
    return {"target": emit.make_node(st, N.NSRef, "node.target", fields={"name": sym("nsref_name", "str"), "attr": sym("nsref_attr", "str")})}


def _walk_marks(pieces, marked, fails):
    from pyvc import emit
    for p in pieces:
        if isinstance(p, LineMark):
            marked = True
        elif isinstance(p, emit.Rep):
            for alt in list(p.alternatives) + ([p.first[0]] if getattr(p, "first", None) else []):
                _walk_marks(alt, marked, fails)
        elif isinstance(p, emit.Hole):
            if not marked and p.kind == "expr":
                fails.append(f"[unmarked-expression] the expression child {p.path} is written before any newline(node) / writeline(.., node) of this statement: an error "
                             "raised by it is attributed to the previously marked template line")
        elif isinstance(p, str) and "raise " in p and not marked:
            fails.append(f"[unmarked-raise] `{p.strip().splitlines()[-1][:70]}` is written before any newline(node) / writeline(.., node) of this statement")
    return marked


def _stmt_marked_pred(sc, tree, ph, txt):
    if sc.outcome == "raise" and getattr(sc.value, "cls", None) is not CG.CompilerExit:
        return []  # a compile-time failure: no code is produced (CompilerExit only ends the visit, the code written so far is kept)
    fails = []
    _walk_marks(sc.pieces, False, fails)
    return sorted(set(fails))


class StmtMarked(Task):
    """Emission contract on one statement visitor (real source, abstract node / frame / environment, every feasible path): before the
    visitor writes a child EXPRESSION or a `raise`, it has line-marked with a node of this statement, so the python lines that can
    raise map to this statement's template line and not to whatever statement was marked before."""
    kind = "emission"

    def __init__(self, visitor, label="", **kw):
        from pyvc.emitcheck import EmitTask
        self.visitor, self.label = visitor, label
        self.prop = PROP
        self.name = f"C35.emit.stmt_marked.visit_{visitor}" + (f"[{label}]" if label else "")
        kw.setdefault("configure", _marked_newline_configure)
        self.inner = EmitTask(PROP, self.name, f"jinja2.compiler:CodeGenerator.visit_{visitor}", getattr(N, visitor), _stmt_marked_pred, mode="raw",
                              buffers=(None, "t_buf"), **kw)

    def run(self, tier, seed):
        rs = self.inner.run(tier, seed)
        for r in rs:
            if r.status == "refuted":
                cats = sorted(set(x for x in ("unmarked-expression", "unmarked-raise") if f"[{x}]" in r.detail))
                r.witness = {"visitor": self.visitor, "label": self.label, "key": f"visit_{self.visitor}:{','.join(cats)}"}
        return rs

    def finding_key(self, res):
        return (res.witness or {}).get("key", "")

    def replay(self, w):
        return replay_stmt_marked(w)


STMT_MARKED_NATIVE = {
    "With": [("x\n\n{% with a = boom() %}{{ a }}{% endwith %}", 3), ("{{ 1 }}\n{% macro m() %}\n{{ 2 }}\n{% with a = 1, b = boom() %}{% endwith %}\n{% endmacro %}{{ m() }}", 4)],
    "EvalContextModifier": [("{{ 1 }}\n\n{% autoescape boom() %}x{% endautoescape %}", 3)],
    "ScopedEvalContextModifier": [("{{ 1 }}\n\n{% autoescape boom() %}x{% endautoescape %}", 3)],
    "Assign": [("{{ 1 }}\n{% set x = 5 %}\n\n{% set x.y = 1 %}", 4)],
    "AssignBlock": [("{{ 1 }}\n{% set x = 5 %}\n\n{% set x.y %}q{% endset %}", 4)],
    "Extends": [("{% extends 'a.html' %}\n\n\n{% extends 'b.html' %}\n", 4), ("{% if true %}{% extends 'a.html' %}{% endif %}\n\n\n\n{% extends 'b.html' %}\n", 5)],
}


def replay_stmt_marked(w):
    """native: a raising expression / guard of the statement kind must be reported at the statement's own line"""
    import shutil
    import tempfile
    tmpdir = tempfile.mkdtemp(prefix="c35_")
    bad = []
    try:
        kinds = [w.get("visitor")] if w.get("visitor") in STMT_MARKED_NATIVE else sorted(STMT_MARKED_NATIVE)
        for k in kinds:
            for src, line in STMT_MARKED_NATIVE[k]:
                got = run_case_any({"main.html": src, "a.html": "A", "b.html": "B"}, "main.html", tmpdir)
                if got != ("main.html", line):
                    bad.append(f"{src!r}: innermost template frame {got}, expected ('main.html', {line})")
    finally:
        shutil.rmtree(tmpdir, ignore_errors=True)
    return (bool(bad), "; ".join(bad[:2]) or "errors raised by the statement's own expressions / guards are reported at its line")


def run_case_any(files, entry, tmpdir):
    """like run_case, for any exception type"""
    import os
    for name, src in files.items():
        with open(os.path.join(tmpdir, name), "w", newline="", encoding="utf-8") as f:
            f.write(src)
    env = jinja2.Environment(loader=jinja2.FileSystemLoader(tmpdir), cache_size=0, extensions=["jinja2.ext.i18n"])
    env.install_null_translations()
    env.globals["boom"] = boom
    try:
        env.get_template(entry).render()
    except Exception as ex:  # noqa
        frames = [(os.path.basename(f.filename), f.lineno) for f in traceback.extract_tb(ex.__traceback__) if os.path.dirname(f.filename) == tmpdir]
        return frames[-1] if frames else f"<{type(ex).__name__}: {ex}>"
    return "<no exception>"


def stmt_marked_tasks():
    from contracts.emit_common import STMT
    ts = []
    for v in STMT:
        if v in ("Output", "Template", "Macro", "CallBlock", "FromImport") or not hasattr(CG.CodeGenerator, f"visit_{v}"):
            continue
        t = StmtMarked(v)
        if v == "For":
            t.thorough_only = True  # 1400+ paths (about 2 CPU minutes); the quick tier runs the restricted configuration below
        ts.append(t)
    t = StmtMarked("For", "sync, non-recursive, unbuffered", env_fields={"is_async": False}, node_fields={"recursive": False})
    t.inner.buffers = (None,)
    ts.append(t)
    ts.append(StmtMarked("Extends", "second extends, parent unknown", gen_fields={"extends_so_far": 1, "has_known_extends": False}))
    ts.append(StmtMarked("Extends", "second extends, parent known", gen_fields={"extends_so_far": 1, "has_known_extends": True}))
    ts.append(StmtMarked("Assign", "attribute target", node_fields=_nsref_fields, configure=_nsref_configure))
    ts.append(StmtMarked("AssignBlock", "attribute target", node_fields=_nsref_fields, configure=_nsref_configure))
    return ts



# ====================================================================================================
# C35.node.lineno_given: statement nodes that their visitor line-marks with are built with a line
# ====================================================================================================


def visitors_marking_with_node():
    """classes X whose real visit_X passes its own node to newline(...) / writeline(.., node): such a node needs an int lineno"""
    out = set()
    for name, fn in vars(CG.CodeGenerator).items():
        if not name.startswith("visit_") or not callable(fn):
            continue
        node, _ = extract.function_ast(fn)
        if len(node.args.args) < 2:
            continue
        nd = node.args.args[1].arg
        for n in ast.walk(node):
            if isinstance(n, ast.Call) and isinstance(n.func, ast.Attribute) and n.func.attr in ("newline", "writeline"):
                if any(isinstance(a, ast.Name) and a.id == nd for a in list(n.args) + [k.value for k in n.keywords]):
                    out.add(name[len("visit_"):])
    return out


def node_lineno_given(task, tier, seed):
    """table over the real jinja2.parser and jinja2.ext sources: every construction `nodes.X(...)` of a class whose visitor line-marks
    with the node itself carries `lineno=`, or the variable it is bound to receives .set_lineno(...) / is passed to
    nodes.Node.__init__(..., lineno=) in the same function"""
    import jinja2.ext as EXT
    t0 = time.time()
    marking = visitors_marking_with_node()
    out = []
    n_sites = 0
    for mod in (P, EXT):
        tree = ast.parse(inspect.getsource(mod))
        for fn in [n for n in ast.walk(tree) if isinstance(n, (ast.FunctionDef, ast.AsyncFunctionDef))]:
            lined = set()
            for n in ast.walk(fn):
                if isinstance(n, ast.Call) and isinstance(n.func, ast.Attribute) and n.func.attr == "set_lineno" and isinstance(n.func.value, ast.Name):
                    lined.add(n.func.value.id)
            bound = {}
            for n in ast.walk(fn):
                if isinstance(n, ast.Assign) and isinstance(n.value, ast.Call):
                    for tg in n.targets:
                        for nm in ast.walk(tg):
                            if isinstance(nm, ast.Name):
                                bound[id(n.value)] = nm.id
            bad = []
            for n in ast.walk(fn):
                if isinstance(n, ast.Call) and isinstance(n.func, ast.Attribute) and isinstance(n.func.value, ast.Name) and n.func.value.id == "nodes" and n.func.attr in marking:
                    n_sites += 1
                    if any(k.arg == "lineno" for k in n.keywords) or bound.get(id(n)) in lined:
                        continue
                    bad.append(f"line {n.lineno}: nodes.{n.func.attr}(...) built without a line (its visitor marks the generated code with node.lineno)")
            if bad:
                name = f"C35.node.lineno_given[{mod.__name__.split('.')[-1]}.{fn.name}]"
                out.append(Res(name, "refuted", "table", time.time() - t0, "; ".join(bad[:3]), "table", {"function": f"{mod.__name__}.{fn.name}", "key": f"{fn.name}:" + ",".join(sorted({b.split(': ')[1].split('(')[0] for b in bad}))}))
    out.append(Res("C35.node.lineno_given.sites", "discharged" if n_sites >= 10 else "error", "table", time.time() - t0,
                   f"{n_sites} constructions of line-marking statement nodes in jinja2.parser / jinja2.ext examined; visitors that mark with their node: {sorted(marking)}", "table"))
    return out


def inspect_getsource(mod):
    import inspect as _i
    return _i.getsource(mod)


def replay_node_lineno(w):
    import shutil
    import tempfile
    tmpdir = tempfile.mkdtemp(prefix="c35_")
    cases = [("{{ 1 }}\n\n{% trans count=boom() %}{{ count }} item{% pluralize %}{{ count }} items{% endtrans %}\n", 3),
             ("a\n{% trans n=boom() %}{{ n }}{% endtrans %}", 2)]
    bad = []
    try:
        for src, line in cases:
            got = run_case_any({"main.html": src}, "main.html", tmpdir)
            if got != ("main.html", line):
                bad.append(f"{src!r}: innermost template frame {got}, expected ('main.html', {line})")
    finally:
        shutil.rmtree(tmpdir, ignore_errors=True)
    return (bool(bad), "; ".join(bad[:2]) or "errors in statements built by the bundled extensions are reported at their line")


# ====================================================================================================
# C35.bounded.multiline_expr: expressions spanning several lines whose FIRST token raises
# ====================================================================================================

MULTILINE_EXPRS = {
    "chain:add": "boom()\n + 1\n + 2", "chain:sub": "boom()\n - 1\n - 2", "chain:mul": "boom()\n * 1\n * 2", "chain:floordiv": "boom()\n // 1\n // 2",
    "chain:pow": "boom()\n ** 1\n ** 2", "chain:or": "boom()\n or 1\n or 2", "chain:and": "boom()\n and 1\n and 2", "chain:condexpr": "boom() if 1\n else 2 if 1\n\n else 3",
    "chain:tuple": "boom(),\n 1,\n 2", "chain:concat": "boom()\n ~ 1\n ~ 2", "chain:compare": "boom()\n < 1\n < 2", "single:call": "boom(\n)", "single:paren": "(boom()\n)",
    "postfix:filter": "boom()\n | string\n | upper", "postfix:attr": "boom()\n .a\n .b", "postfix:item": "boom()\n [0]\n [1]", "postfix:test": "boom()\n is\n none",
    "postfix:call": "boom()\n (1)\n (2)",
}


def multiline_expr(task, tier, seed):
    """bounded: an output / set / if expression that spans several lines and whose first token is the raising call: the error is
    reported at the expression's FIRST line (one python line is generated per expression, so this is the finest attribution possible)"""
    import shutil
    import tempfile
    t0 = time.time()
    tmpdir = tempfile.mkdtemp(prefix="c35_")
    out, n, seen = [], 0, set()
    try:
        for key, ex in MULTILINE_EXPRS.items():
            for pre, opener, closer, off in (("line one\n", "{{ ", " }}", 2), ("a\n\n", "x {{ 1 }} {{ ", " }} y", 3), ("", "{% macro m() -%}\n{{ ", " }}\n{%- endmacro %}{{ m() }}", 2)):
                n += 1
                src = pre + opener + ex + closer
                got = run_case_any({"main.html": src}, "main.html", tmpdir)
                if got != ("main.html", off) and key not in seen:
                    seen.add(key)
                    out.append(Res("C35.bounded.multiline_expr", "refuted", "native", time.time() - t0,
                                   f"{src!r}: innermost template frame {got}, expected ('main.html', {off}) (first line of the expression, where the raising call is)", "bounded",
                                   {"expr": key, "key": key.split(":")[0] + ":" + key.split(":")[1]}))
    finally:
        shutil.rmtree(tmpdir, ignore_errors=True)
    task.stats = {"cases": n}
    if not out:
        out.append(Res("C35.bounded.multiline_expr", "bounded-ok", "native", time.time() - t0, f"{n} multi-line expressions are reported at their first line", "bounded"))
    return out


def replay_multiline(w):
    import shutil
    import tempfile
    tmpdir = tempfile.mkdtemp(prefix="c35_")
    try:
        ex = MULTILINE_EXPRS.get(w.get("expr"), "boom()\n + 1\n + 2")
        src = "line one\n{{ " + ex + " }}"
        got = run_case_any({"main.html": src}, "main.html", tmpdir)
    finally:
        shutil.rmtree(tmpdir, ignore_errors=True)
    return (got != ("main.html", 2), f"{src!r}: innermost template frame {got}, expected ('main.html', 2)")



def codegen_tasks():
    ts = [Newline(wn, wd) for wn in (False, True) for wd in (True, False)]
    ts += [Write(True), Write(False), Writeline(True), Writeline(False)]
    return ts


def other_tasks():
    ts = []
    t = FnTask(PROP, "C35.parser.lineno", parser_lineno, kind="path", replay_fn=replay_parser_lineno)
    t.finding_key = parser_key
    ts.append(t)
    t = FnTask(PROP, "C35.emit.output_lines", output_lines, kind="emission", replay_fn=replay_output_lines)
    t.finding_key = parser_key
    ts.append(t)
    t = FnTask(PROP, "C35.node.lineno_given", node_lineno_given, kind="table", replay_fn=replay_node_lineno)
    t.finding_key = parser_key
    ts.append(t)
    t = FnTask(PROP, "C35.bounded.multiline_expr", multiline_expr, kind="bounded", replay_fn=replay_multiline)
    t.finding_key = parser_key
    t.bound_text = ("18 expression shapes spanning 2-4 lines (binary / boolean / conditional / comparison / concat chains, tuple, call, parenthesis, filter / attribute / item / "
                    "test / call postfix chains) whose first token is the raising call, as an output expression alone, after other outputs on the same line, and as the lone body of a macro")
    ts.append(t)
    ts.append(FnTask(PROP, "C35.codegen.private", codegen_private, kind="table", replay_fn=lambda w: replay_roundtrip(w) if w.get("task") == "roundtrip" else replay_codegen(w)))
    t = FnTask(PROP, "C35.template.lineno.roundtrip", roundtrip, kind="bounded", replay_fn=replay_roundtrip)
    t.bound_text = "every list of at most 3 (quick tier: 2) pairs over the values {1, 2, 10, 123}: real join expression of visit_Template -> generated assignment -> real Template.debug_info"
    ts.append(t)
    t = FnTask(PROP, "C35.debug.rewrite", debug_rewrite, kind="bounded", replay_fn=replay_rewrite)
    t.bound_text = ("every sequence of at most 4 (quick tier: 3) frames over {template root, template block, template macro, plain Python, @internalcode} below a "
                    "render stand-in, two line layouts each, through the real rewrite_traceback_stack / fake_traceback / Template.get_corresponding_lineno; "
                    "TemplateSyntaxError at lines 1, 2, 5, 40 with and without file name / source")
    ts.append(t)
    for k in range(RENDER_SHARDS):
        t = FnTask(PROP, f"C35.bounded.render[{k}]", bounded_render(k), kind="bounded", replay_fn=replay_render)
        t.bound_text = (f"1500 (quick tier: 150) seeded generated multi-line templates (shard {k} of {RENDER_SHARDS}): a raising call or a malformed token on a known line under up to 3 nested "
                        "constructs (if/else, for/else, with, block, set block, filter, macro, call, autoescape), filler constructs spanning several lines, the three "
                        "line-break forms, whitespace control, directly / included / in a parent block / in a child block / in an imported macro, loaded from files")
        ts.append(t)
    return ts


class LexerLineno(Task):
    """proxy for one obligation set of contracts/c39.py (Lexer.tokeniter line counting).  C39 itself carries all of them; here the quick
    tier runs a representative subset (default configuration: every lexer state, the variable branch of the root rule, loop
    initialisation) and the rest only in the thorough tier.  A proxy, not a flag on the shared task object, so that C39's own run
    in the same process is unaffected."""

    QUICK = ("default:root[0].variable_begin", "default:root[1]", "default:comment_begin", "default:block_begin", "default:variable_begin",
             "default:linestatement_begin", "default:linecomment_begin", "tokeniter.init")

    def __init__(self, inner):
        self.inner = inner
        self.prop = PROP
        self.name = inner.name
        self.kind = inner.kind
        self.thorough_only = not any(q in inner.name for q in self.QUICK)
        fk = getattr(inner, "finding_key", None)
        if fk:
            self.finding_key = fk

    def run(self, tier, seed):
        return self.inner.run(tier, seed)

    def replay(self, witness):
        return self.inner.replay(witness)


TASKS = codegen_tasks() + [CorrespondingLineno()] + other_tasks() + stmt_marked_tasks() + [LexerLineno(t) for t in (_LEXER_LINENO_TASKS or [])]

META = {
    "level": "other",
    "explanation": (
        "Proof of mechanism (line bookkeeping) plus bounded stand-ins; not an end-to-end proof. (1) Lexer: the line-number loop invariant of the real "
        "Lexer.tokeniter is the obligation set LINENO_TASKS of contracts/c39.py, run here when that module is importable. (2) Parser: an abstract "
        "interpretation of every real Parser.parse_* body (token values tagged read-before/after-consumption, fixpoint over loops) shows that each "
        "`lineno=` handed to a node constructor is the line of a token the construct consumes or of a child node, read before the stream moved past "
        "it. (3) Code generator: CodeGenerator.newline / write / writeline are executed symbolically from their source over arbitrary bookkeeping "
        "state: newline is exactly the contract the emission engine assumes; write makes code_lineno count the newlines written and appends a "
        "pending template line as (line, code line) with the newline batch, keeping the pairs strictly increasing; a table obligation shows no other "
        "compiler function touches these fields or the stream. (4) Template.get_corresponding_lineno is proved (loop invariant over an arbitrary "
        "list of pairs) to return the template line of the last pair not after the code line, else 1. Not proved, carried by bounded stand-ins on the "
        "real code: the `k=v&...` string round trip (str.split / int / %-formatting), debug.rewrite_traceback_stack / fake_traceback (traceback "
        "objects, sys.exc_info, compile/exec) on synthetic frame stacks, and the end-to-end claim on generated templates - hence level 'other'. Gap: "
        "which generated line CPython reports for a failing sub-expression of a multi-line statement (the stand-in keeps the raising expression on "
        "one line)."),
    "assumptions": [
        "A8/A9 for the lexer part (see C39)", "text handed to CodeGenerator.write contains no line break (repr'd constants and identifiers; checked only by the stand-ins)",
        "node.lineno is an int for every node handed to newline()/writeline() (nodes built by the parser; C35.parser.lineno)",
        "parser analysis: a local annotated list[nodes.X] holds nodes (mypy-checked annotation); a call that receives the parser (extension parse(parser)) consumes tokens",
        "CPython reports the line of the executing statement of generated code in tb_lineno (traceback semantics)",
    ],
    "trusted_base": [
        "z3 / cvc5", "pyvc symbolic executor", "contracts/c35.py LinenoAnalysis (abstract interpreter over the ast of the real parser methods)",
        "dependency spec `'lit' * n`: n copies (length len(lit)*n)", "dependency spec builtin max(int, int)", "dependency spec reversed(sequence)",
        "dependency spec stream.write: appends its argument to the output",
    ],
}
