"""C17 compiler side: the generated code performs no attribute access on template-controlled
values except through the sandbox.

  C17.emit.getattr   visit_Getattr emits  environment.getattr(<operand>, '<name>')  on every path:
                     the operand occurs only as argument 0, the name only inside a string constant
  C17.emit.getitem   visit_Getitem emits  environment.getitem(<operand>, <arg>)  except for slices
                     (then <operand>[<slice>])
  C17.emit.no_raw_attr.<visitor>   no emission schema of any visitor contains  <hole>.<anything>,
                     nor a builtin getattr/setattr/delattr applied to a hole, nor an attribute whose name
                     is template data outside a string constant
  C17.fold.Getattr / C17.fold.Getitem   constant folding goes through environment.getattr/getitem
                     (i.e. the sandboxed methods)
"""
from __future__ import annotations

import ast

from pyvc.emitcheck import EmitTask
from pyvc.contract import VC
from pyvc import emit, abstract as A
from contracts.emit_common import all_visitor_tasks, is_hole, hole_of, strip_async

import jinja2.nodes as N


def native_sandbox_access(w=None):
    """Native oracle: in a sandboxed environment private/internal attributes are never handed out
    through dot or subscript syntax (undefined or SecurityError), sync and async."""
    from jinja2.sandbox import SandboxedEnvironment
    from jinja2.exceptions import SecurityError

    class Obj:
        def __init__(self):
            self._private = "LEAK"
            self.public = "ok"

        def meth(self):
            return "m"

    problems = []
    for is_async in (False, True):
        env = SandboxedEnvironment(enable_async=is_async)
        for src in ("{{ o._private }}", "{{ o['_private'] }}", "{{ o.__class__ }}", "{{ o['__class__'] }}", "{{ o.meth.__func__ }}",
                    "{{ o.meth.__globals__ }}", "{{ (o|attr('_private')) }}", "{{ o.__init__.__globals__ }}", "{{ ''.__class__.__mro__ }}",
                    "{% set x = o._private %}{{ x }}", "{{ o._private|default('d') }}"):
            try:
                outp = env.from_string(src).render(o=Obj())
            except SecurityError:
                continue
            except Exception as ex:
                problems.append(f"{src} (async={is_async}): {type(ex).__name__}: {ex}")
                continue
            if "LEAK" in outp or "class" in outp or "function" in outp or "builtins" in outp:
                problems.append(f"{src} (async={is_async}) rendered {outp!r}")
        outp = env.from_string("{{ o.public }}|{{ o['public'] }}|{{ o.meth() }}").render(o=Obj())
        if outp != "ok|ok|m":
            problems.append(f"public access broken (async={is_async}): {outp!r}")
    return (bool(problems), "; ".join(problems[:3]) or "sandbox access template family behaves as the property demands")


def getattr_pred(sc, tree, ph, txt):
    if sc.outcome == "raise":
        return [f"raises {sc.value!r}"]
    t = strip_async(tree)
    if not (isinstance(t, ast.Call) and emit.call_name(t) == "environment.getattr"):
        return [f"attribute access is not emitted as environment.getattr(...): {txt!r}"]
    fails = []
    if t.keywords or len(t.args) != 2:
        fails.append("environment.getattr must receive exactly (operand, name)")
    else:
        if not is_hole(t.args[0], ph, "node.node"):
            fails.append("argument 0 is not the visited operand")
        a1 = t.args[1]
        if not (isinstance(a1, ast.Constant) and isinstance(a1.value, str) and f"'{a1.value}'" in ph and ph[f"'{a1.value}'"][0] == "repr"
                and str(ph[f"'{a1.value}'"][1]) == "node.attr"):
            fails.append(f"attribute name is not passed as the quoted node.attr: {ast.unparse(a1)}")
    # operand nowhere else
    occ = [n for n in ast.walk(tree) if is_hole(n, ph, "node.node")]
    if len(occ) != 1:
        fails.append("operand hole occurs more than once")
    return fails


def getitem_pred(sc, tree, ph, txt):
    if sc.outcome == "raise":
        return [f"raises {sc.value!r}"]
    t = strip_async(tree)
    import z3
    is_slice = sc.holds(z3.Bool("node.arg.isinstance(Slice)"))
    if isinstance(t, ast.Subscript):
        if not is_slice:
            return [f"plain subscript emitted although the argument is not a slice: {txt!r}"]
        if not (is_hole(t.value, ph, "node.node") and is_hole(t.slice, ph, "node.arg")):
            return ["slice form is not <operand>[<slice>]"]
        return []
    if not (isinstance(t, ast.Call) and emit.call_name(t) == "environment.getitem"):
        return [f"subscript is not emitted as environment.getitem(...): {txt!r}"]
    if t.keywords or len(t.args) != 2 or not is_hole(t.args[0], ph, "node.node") or not is_hole(t.args[1], ph, "node.arg"):
        return ["environment.getitem must receive exactly (operand, argument) in this order"]
    return []


RAW_ACCESS_BUILTINS = {"getattr", "setattr", "delattr", "hasattr", "vars", "object.__getattribute__"}

# Node classes that template syntax cannot produce: only extension code builds them, with names chosen by the
# extension author (EnvironmentAttribute('name'), ExtensionAttribute, eval-context option keywords).  The
# "attribute name from node data" clause is about template-controlled names and does not apply to them
# (contract correction recorded in DESIGN.md: the first version of this predicate flagged them).
EXTENSION_ONLY = {"EnvironmentAttribute", "ExtensionAttribute", "EvalContextModifier", "ScopedEvalContextModifier"}


def no_raw_attr_pred(sc, tree, ph, txt):
    if sc.outcome == "raise" or tree is None:
        return []
    fails = []
    ext_only = getattr(sc.st.get(sc.node).cls, "__name__", "") in EXTENSION_ONLY
    for n in ast.walk(tree):
        if isinstance(n, ast.Attribute):
            if hole_of(n.value, ph) is not None:
                fails.append(f"raw attribute access on a template expression: {ast.unparse(n)}")
            if re_placeholder(n.attr) and not ext_only:
                fails.append(f"attribute name computed from template data outside a string constant: {ast.unparse(n)}")
        if isinstance(n, ast.Call):
            nm = emit.call_name(n)
            if nm in RAW_ACCESS_BUILTINS and n.args and hole_of(n.args[0], ph) is not None:
                fails.append(f"builtin {nm}() applied to a template expression: {ast.unparse(n)}")
    return fails


def re_placeholder(s):
    import re
    return re.fullmatch(r"__[HSIRTX]\d+__", s) is not None


class FoldThroughEnvironment(VC):
    """Getattr.as_const / Getitem.as_const evaluate through eval_ctx.environment.getattr/getitem
    (the sandboxed methods when the environment is sandboxed), never through builtin getattr."""
    prop = "C17"

    def __init__(self, cls_name):
        self.cls_name = cls_name
        self.target = f"jinja2.nodes:{cls_name}.as_const"
        super().__init__("C17", f"C17.fold.{cls_name}")

    def configure(self, I):
        I.inline.add("jinja2.nodes:get_eval_context")
        I.specs["Expr.as_const"] = A.abstract_fn("child.as_const", returns="obj", raises=[N.Impossible])
        I.specs["Environment.getattr"] = A.abstract_fn("environment.getattr", returns="obj", raises=[("any", Exception)])
        I.specs["Environment.getitem"] = A.abstract_fn("environment.getitem", returns="obj", raises=[("any", Exception)])
        # /repo 745b182: the folded value goes through nodes._safe_const, which returns its argument or raises Impossible
        # (has_safe_repr is false); its own contract is C30.consttext.intermediate_folds_guarded
        I.specs["jinja2.nodes:_safe_const"] = A.abstract_fn("_safe_const", result=lambda st, a, k: a[0], raises=[N.Impossible])
        if hasattr(N, "_safe_const"):
            I.specs[("fn", id(N._safe_const))] = I.specs["jinja2.nodes:_safe_const"]

    def setup(self, I, st):
        g = emit.Gen(st)
        self.g = g
        self.node = emit.make_node(st, getattr(N, self.cls_name), "node")
        return [self.node, g.eval_ctx], {}

    def p_route(self, pre, out):
        which = "environment.getattr" if self.cls_name == "Getattr" else "environment.getitem"
        calls = A.calls(out, which)
        if out.raised:
            return out.value.cls is N.Impossible
        if len(calls) != 1 or out.value is not calls[0].result:
            return False
        kids = A.calls(out, "child.as_const")
        nf = out.st.get(self.node).fields
        operand = [k for k in kids if k.args[0] == nf.get("node")]
        if len(operand) != 1 or calls[0].args[1] is not operand[0].result:
            return False
        if self.cls_name == "Getattr":
            return calls[0].args[2] is nf.get("attr")
        arg = [k for k in kids if k.args[0] == nf.get("arg")]
        return len(arg) == 1 and calls[0].args[2] is arg[0].result

    posts = [("folds_only_through_environment_lookup", p_route)]

    def replay(self, w):
        return native_sandbox_access(w)

    def concretize(self, model, pre, out):
        return {"fold": self.cls_name}


TASKS = (
    [EmitTask("C17", "C17.emit.getattr", "jinja2.compiler:CodeGenerator.visit_Getattr", N.Getattr, getattr_pred, replay_fn=native_sandbox_access, min_paths=2),
     EmitTask("C17", "C17.emit.getitem", "jinja2.compiler:CodeGenerator.visit_Getitem", N.Getitem, getitem_pred, replay_fn=native_sandbox_access, min_paths=3)]
    + all_visitor_tasks("C17", "C17.emit.no_raw_attr", no_raw_attr_pred, replay_fn=native_sandbox_access)
    + [FoldThroughEnvironment("Getattr"), FoldThroughEnvironment("Getitem")]
)
