"""C07  The loop variable reports correct iteration state for every iterable.

Runtime half (proof, unbounded): every method and property of jinja2.runtime.LoopContext and
AsyncLoopContext, jinja2.async_utils.auto_aiter and _IteratorToAsyncIterator, against the
*abstract loop* of DESIGN section 5 (C07).

Abstract view.  ghost items[0..N) = what the underlying iterator yields (N arbitrary, finite), never the
`missing` sentinel.  The state of a loop context over that ghost is (index0, peeked?) with
    drawn = index0 + 1 + (1 if _after is not missing else 0)        items taken from _iterator so far
Representation invariant RI(state, items, N):
    index0 >= -1;  _after is not missing  =>  _after = items[index0+1]
    index0 >= 0 => _current = items[index0];   index0 >= 1 => _before = items[index0-1]
    what _iterator still yields = items[drawn..N)   (whatever object _iterator is: the original iterator, or the
    iterator over the drained list that `length` installs);   _length is None or N.
The pre-state of every contract is an arbitrary state satisfying RI: the iterator is an arbitrary sequence S
with an arbitrary cursor c, the history an arbitrary array `hist`, and the ghost is *defined* from them
    items(j) = hist[j] if j < drawn else S[c + j - drawn],     N = drawn + len(S) - c
so no quantifier is needed to state the precondition.  Every postcondition re-establishes RI for the SAME
ghost (quantified over the iterator found in the post-state), which is what makes "look-ahead queries never
change which items are visited" an inductive consequence of the per-method contracts.

`await` is transparent (A7); an async iterator is an object whose __anext__ yields the next remaining item or
raises StopAsyncIteration (that contract is proved for _IteratorToAsyncIterator.__anext__ from its source).
"""
from __future__ import annotations

import inspect
import itertools
import types

import z3

from pyvc.contract import VC, Res, Task
from pyvc.values import (
    State, Sym, Ref, HObj, HList, HIter, SSeq, Obj, Exc, Event, BoundMethod, fresh_name, fresh, sym,
)
from pyvc.smt import to_term, model_value, host_const, int2obj, kind_of
from pyvc.interp import Raised
from pyvc import abstract as A
from pyvc import models as M

import jinja2.runtime as R
import jinja2.async_utils as AU
from jinja2.utils import missing

I_ = z3.IntSort()
MISSING = host_const(missing)
NONE = host_const(None)


class _GhostAsyncIterator:
    """Stands for a native async iterator (result of iterable.__aiter__()): heap object with one field
    `_it` -> the ghost sequence iterator.  Its __anext__ is a dependency spec (see install)."""


# ------------------------------------------------------------------------------------------ small helpers

def AND(*xs):
    zs = []
    for x in xs:
        if x is False or x is None:
            return False
        if x is True:
            continue
        zs.append(x)
    if not zs:
        return True
    return z3.And(*zs)


def obj_term(v):
    try:
        return to_term(v, "obj")
    except Exception:
        return None


def fld(st, ref, name):
    """Attribute as Python would find it: instance dict, else the class attribute."""
    h = st.get(ref)
    if name in h.fields:
        return h.fields[name]
    return inspect.getattr_static(h.cls, name)


def same_val(a, b):
    """a and b are the same value: True / False / z3 Bool."""
    if a is b:
        return True
    if isinstance(a, Ref) or isinstance(b, Ref):
        return isinstance(a, Ref) and isinstance(b, Ref) and a.id == b.id
    if isinstance(a, SSeq) or isinstance(b, SSeq):
        return isinstance(a, SSeq) and isinstance(b, SSeq) and a.arr is b.arr and a.n is b.n
    if isinstance(a, (tuple, BoundMethod)) or isinstance(b, (tuple, BoundMethod)):
        return False
    ka, kb = kind_of(a), kind_of(b)
    if ka != kb:
        return False
    try:
        return to_term(a) == to_term(b)
    except Exception:
        return False


def iter_view(st, v, asynchronous):
    """(arr, n, cursor) of what the iterator object v will still yield; None when v is not an iterator of
    the flavour the class needs (sync iterator for LoopContext, async iterator for AsyncLoopContext)."""
    if not isinstance(v, Ref):
        return None
    h = st.get(v)
    if isinstance(h, HObj):
        if not asynchronous:
            return None
        if h.cls is _GhostAsyncIterator:
            return iter_view(st, h.fields.get("_it"), False)
        if h.cls is AU._IteratorToAsyncIterator:
            return iter_view(st, h.fields.get("_iterator"), False)
        return None
    if isinstance(h, HIter):
        if asynchronous:
            return None
        arr, n, k = A.list_terms(st, v)
        if k != "obj":
            return None
        return arr, n, to_term(h.cursor, "int")
    return None


FRAME = ("_iterable", "_undefined", "_recurse", "depth0", "_last_changed_value")
RI_FIELDS = ("index0", "_after", "_current", "_before", "_iterator", "_length")


class View:
    pass


class Loop:
    """Symbolic loop-context pre-state satisfying RI (or the blank object handed to __init__)."""

    def __init__(self, st: State, cls, it="sync", cached=False, last="missing", init=False, sized_iterator=False):
        self.cls, self.it, self.cached, self.last, self.init = cls, it, cached, last, init
        # the iterable is itself an iterator (iter(x) is x).  If such an object has a size at all, nothing says whether
        # len() counts the items it started with or the items that are left: both conventions are modelled
        self.is_iterator = bool(sized_iterator)
        self.len_remaining = sym("len_counts_remaining", "bool")
        self.asynchronous = cls is R.AsyncLoopContext
        A_ = z3.ArraySort(I_, Obj)
        self.S, self.nS, self.hist = z3.Const("S", A_), z3.Int("nS"), z3.Const("hist", A_)
        self.iterable, self.undefined, self.recurse = sym("iterable", "obj"), sym("undefined_cls", "obj"), sym("recurse", "obj")
        self.depth0 = sym("depth0", "int")
        self.sized, self.has_aiter, self.has_iter = sym("sized", "bool"), sym("has_aiter", "bool"), sym("has_iter", "bool")
        # requires: the iterable is iterable (async mode: sync or async iterable)
        st.assume(z3.Or(self.has_iter.t, self.has_aiter.t) if self.asynchronous else self.has_iter.t)
        j = z3.Int("pj")
        if init:
            self.i0, self.after, self.cur, self.bef, self.c = z3.IntVal(-1), MISSING, MISSING, MISSING, z3.IntVal(0)
            self.peeked = z3.BoolVal(False)
        else:
            self.i0, self.c = z3.Int("index0"), z3.Int("cursor")
            self.after, self.cur, self.bef = z3.Const("after", Obj), z3.Const("current", Obj), z3.Const("before", Obj)
            self.peeked = self.after != MISSING
        self.drawn = self.i0 + 1 + z3.If(self.peeked, 1, 0)
        self.N = self.drawn + self.nS - self.c
        # requires: the ghost items never contain the sentinel
        st.assume(self.nS >= 0, z3.ForAll([j], z3.Implies(z3.And(self.c <= j, j < self.nS), z3.Select(self.S, j) != MISSING)))
        st.assume(int2obj(self.N) != NONE)  # embedding fact: an int is not None
        if init:
            self.ref = st.alloc(HObj(cls), initial=True)
            return
        st.assume(self.i0 >= -1, 0 <= self.c, self.c <= self.nS,
                  z3.Implies(self.peeked, self.after == z3.Select(self.hist, self.i0 + 1)),
                  z3.Implies(self.i0 >= 0, self.cur == z3.Select(self.hist, self.i0)),
                  z3.Implies(self.i0 >= 1, self.bef == z3.Select(self.hist, self.i0 - 1)))
        self.hiter = st.alloc(HIter(SSeq(self.S, self.nS, "obj"), Sym(self.c, "int")), initial=True)
        if it == "sync":
            self.itref = self.hiter
        elif it == "native":
            self.itref = st.alloc(HObj(_GhostAsyncIterator, fields={"_it": self.hiter}), initial=True)
        else:
            self.itref = st.alloc(HObj(AU._IteratorToAsyncIterator, fields={"_iterator": self.hiter}), initial=True)
        if last == "missing":
            lastv = missing
        else:
            self.arrL, self.nL = z3.Const("last_arr", A_), z3.Int("last_n")
            st.assume(self.nL >= 0)
            lastv = SSeq(self.arrL, self.nL, "obj")
        self.lastv = lastv
        self.ref = st.alloc(HObj(cls, fields={
            "_iterable": self.iterable, "_iterator": self.itref, "_undefined": self.undefined, "_recurse": self.recurse,
            "depth0": self.depth0, "index0": Sym(self.i0, "int"), "_after": Sym(self.after, "obj"),
            "_current": Sym(self.cur, "obj"), "_before": Sym(self.bef, "obj"),
            "_length": Sym(self.N, "int") if cached else None, "_last_changed_value": lastv,
        }), initial=True)

    # ---- the ghost ---------------------------------------------------------------------------------
    def items(self, j):
        return z3.If(j < self.drawn, z3.Select(self.hist, j), z3.Select(self.S, self.c + j - self.drawn))

    @property
    def more(self):
        return self.i0 + 1 < self.N

    # ---- RI of a (post) state w.r.t. the same ghost ---------------------------------------------------
    def ri(self, st):
        f = lambda n: fld(st, self.ref, n)  # noqa: E731
        i0v = f("index0")
        if kind_of(i0v) != "int":
            return None
        v = View()
        v.i0 = to_term(i0v, "int")
        v.after, v.cur, v.bef = obj_term(f("_after")), obj_term(f("_current")), obj_term(f("_before"))
        if v.after is None or v.cur is None or v.bef is None:
            return None
        itv = iter_view(st, f("_iterator"), self.asynchronous)
        if itv is None:
            return None
        arr, n, c = itv
        v.peeked = v.after != MISSING
        v.drawn = v.i0 + 1 + z3.If(v.peeked, 1, 0)
        lv = f("_length")
        if lv is None:
            len_ok = True
        elif kind_of(lv) == "int":
            len_ok = to_term(lv, "int") == self.N
        else:
            return None
        j = z3.Int(fresh_name("rj"))
        v.formula = AND(
            v.i0 >= -1, 0 <= c, c <= n, n - c == self.N - v.drawn,
            z3.Implies(v.peeked, v.after == self.items(v.i0 + 1)),
            z3.Implies(v.i0 >= 0, v.cur == self.items(v.i0)),
            z3.Implies(v.i0 >= 1, v.bef == self.items(v.i0 - 1)),
            z3.ForAll([j], z3.Implies(z3.And(0 <= j, j < self.N - v.drawn), z3.Select(arr, c + j) == self.items(v.drawn + j))),
            len_ok,
        )
        return v

    def frame(self, pre, st, names=FRAME):
        return AND(*[same_val(fld(pre, self.ref, n), fld(st, self.ref, n)) for n in names])

    def unchanged(self, pre, st):
        """nothing observable changed: every field holds the same value, the iterator was not advanced"""
        a = iter_view(pre, fld(pre, self.ref, "_iterator"), self.asynchronous)
        b = iter_view(st, fld(st, self.ref, "_iterator"), self.asynchronous)
        if a is None or b is None:
            return False
        return AND(self.frame(pre, st, FRAME + RI_FIELDS), a[0].eq(b[0]) or (a[0] == b[0]), a[1] == b[1], a[2] == b[2])


# ------------------------------------------------------------------------- dependency specs / engine hooks

def repo_functions():
    out = []
    for cls in (R.LoopContext, R.AsyncLoopContext, AU._IteratorToAsyncIterator):
        for name, raw in cls.__dict__.items():
            fn = raw.fget if isinstance(raw, property) else raw.__func__ if isinstance(raw, (staticmethod, classmethod)) else raw
            if isinstance(fn, types.FunctionType):
                out.append(fn)
    out.append(AU.auto_aiter)
    return out


def opaque_calls(out):
    return [e for e in out.st.trace if e.kind == "call" and e.name == "opaque"]


def install(I, vc):
    """Specs for the opaque collaborators (the iterable, the undefined class, the recursive render function)
    and the two protocol facts the engine lacks (StopIteration.value, async comprehension = drain)."""
    for fn in repo_functions():
        I.inline.add(f"{fn.__module__}:{fn.__qualname__}")
    ln = lambda node: getattr(node, "lineno", None)  # noqa: E731

    def is_sym(v, s):
        return isinstance(v, Sym) and v.k == "obj" and v.t.eq(s.t)

    def len_obj(I_, st, args, kwargs, node):
        # len(iterable): N for a sized iterable (assumed equal to the number of items), TypeError otherwise
        L = vc.L
        if not is_sym(args[0], L.iterable):
            return None
        out = []
        for s, b in I_.fork_bool(st, L.sized.t):
            if b and L.is_iterator and not L.init:
                # a sized iterator: the number of items it started with, or the number that is left NOW
                left = L.nS - to_term(s.get(L.hiter).cursor, "int")
                out.append((s, Sym(z3.If(L.len_remaining.t, left, L.N), "int")))
            elif b:
                out.append((s, Sym(L.N, "int")))
            else:
                out.append((s, Raised(Exc(TypeError, ("object has no len()",), origin=ln(node)))))
        return out

    import collections.abc as cabc

    def isinstance_obj(I_, st, args, kwargs, node):
        # isinstance(iterable, Iterator / AsyncIterator): whether the iterable is its own iterator
        v, cl = args
        if is_sym(v, vc.L.iterable) and cl and all(c in (cabc.Iterator, cabc.AsyncIterator) for c in cl):
            return [(st, vc.L.is_iterator)]
        return None

    def call_obj(I_, st, args, kwargs, node):
        L = vc.L
        fn = args[0]
        out = []
        if is_sym(fn, L.recurse):
            s = st.fork()
            e = Exc(None, (), tag="recurse", within=Exception, origin=ln(node))
            e.from_call = "recurse"
            s.trace.append(Event("call", "opaque", args, kwargs, e, lineno=ln(node)))
            out.append((s, Raised(e)))
        res = fresh("result", "obj", tags={"undefined"} if is_sym(fn, L.undefined) else ())
        st.trace.append(Event("call", "opaque", args, kwargs, res, lineno=ln(node)))
        out.append((st, res))
        return out

    def ghost_iter(st):
        L = vc.L
        return st.alloc(HIter(SSeq(L.S, L.nS, "obj"), 0))

    def iter_obj(I_, st, args, kwargs, node):
        # iter(iterable): an iterator over the ghost items (this defines the ghost)
        if not is_sym(args[0], vc.L.iterable):
            return None
        out = []
        for s, b in I_.fork_bool(st, vc.L.has_iter.t):
            if b:
                r = ghost_iter(s)
                s.trace.append(Event("call", "iter", [args[0]], {}, r, lineno=ln(node)))
                out.append((s, r))
            else:
                out.append((s, Raised(Exc(TypeError, ("object is not iterable",), origin=ln(node)))))
        return out

    def getattr_obj(I_, st, args, kwargs, node):
        o, name = args
        if name in ("__aiter__", "__iter__") and is_sym(o, vc.L.iterable):
            out = []
            for s, b in I_.fork_bool(st, vc.L.has_aiter.t if name == "__aiter__" else vc.L.has_iter.t):
                if b:
                    out.append((s, BoundMethod(o, name)))
                else:
                    out.append((s, Raised(Exc(AttributeError, (name,), origin=ln(node)))))
            return out
        return None

    def method_obj(I_, st, args, kwargs, node):
        o, name = args[0], args[1]
        if name == "__aiter__" and is_sym(o, vc.L.iterable) and len(args) == 2:
            out = []
            for s, b in I_.fork_bool(st, vc.L.has_aiter.t):
                if b:
                    r = s.alloc(HObj(_GhostAsyncIterator, fields={"_it": ghost_iter(s)}))
                    s.trace.append(Event("call", "aiter", [o], {}, r, lineno=ln(node)))
                    out.append((s, r))
                else:
                    out.append((s, Raised(Exc(AttributeError, ("__aiter__",), origin=ln(node)))))
            return out
        if name == "__iter__" and is_sym(o, vc.L.iterable) and len(args) == 2:
            return iter_obj(I_, st, [o], {}, node)
        return None

    def ghost_anext(I_, st, args, kwargs, node):
        # async iterator protocol: the next remaining item, or StopAsyncIteration when exhausted
        inner = st.get(args[0]).fields["_it"]
        out = []
        for s, v in M.iter_next(I_, st, inner, node):
            if isinstance(v, Raised):
                v = Raised(Exc(StopAsyncIteration, (), origin=ln(node)))
            out.append((s, v))
        return out

    def attr_hook(I_, st, obj, name, node):
        if isinstance(obj, Exc) and name == "value" and obj.cls is not None and issubclass(obj.cls, StopIteration):
            return [(st, obj.args[0] if obj.args else None)]
        if name == "__aiter__" and isinstance(obj, Ref) and isinstance(st.get(obj), (HList, HIter)):
            return [(st, Raised(Exc(AttributeError, ("__aiter__",), origin=ln(node))))]
        return None

    orig_as_sseq = I.as_sseq

    def as_sseq(st, v, node):
        # `[x async for x in it]` / list(it): the remaining items, and the iterator is left exhausted
        if isinstance(v, Ref):
            h = st.get(v)
            if isinstance(h, HObj) and h.cls is _GhostAsyncIterator:
                return as_sseq(st, h.fields["_it"], node)
            if isinstance(h, HObj) and h.cls is AU._IteratorToAsyncIterator and isinstance(h.fields.get("_iterator"), Ref):
                return as_sseq(st, h.fields["_iterator"], node)
            if isinstance(h, HIter) and isinstance(h.items, SSeq):
                if isinstance(h.cursor, int) and h.cursor == 0:
                    sub = h.items
                else:
                    sub = M.sseq_slice(h.items, h.cursor, None, st)
                h.cursor = Sym(h.items.n, "int")
                return sub
        return orig_as_sseq(st, v, node)

    orig_eq = I.structural_eq

    def structural_eq(st, a, b, node):
        # tuple == tuple (symbolic length): same length and pairwise equal (A-EQ); sentinel == tuple: False
        if isinstance(a, SSeq) and isinstance(b, SSeq):
            j = z3.Int(fresh_name("ej"))
            return Sym(z3.And(a.n == b.n, z3.ForAll([j], z3.Implies(z3.And(0 <= j, j < a.n), z3.Select(a.arr, j) == z3.Select(b.arr, j)))), "bool")
        if (a is missing and isinstance(b, (SSeq, tuple))) or (b is missing and isinstance(a, (SSeq, tuple))):
            return False
        return orig_eq(st, a, b, node)

    I.specs["len_obj"] = len_obj
    I.specs["isinstance_obj"] = isinstance_obj
    I.specs["call_obj"] = call_obj
    I.specs["iter_obj"] = iter_obj
    I.specs["getattr_obj"] = getattr_obj
    I.specs["method_obj"] = method_obj
    I.specs["_GhostAsyncIterator.__anext__"] = ghost_anext
    I.attr_hook = attr_hook
    I.as_sseq = as_sseq
    I.structural_eq = structural_eq


# ------------------------------------------------------------------------------------------- contracts

class LC(VC):
    prop = "C07"
    method = ""
    owner = "LoopContext"  # class whose source is under contract
    timeout_quick = 20000
    stop = StopIteration

    def __init__(self, cls=None, it=None, cached=False, last="missing", sized_iterator=False):
        self.sized_iterator = sized_iterator
        self.cls_name = cls or self.owner
        self.it = it or ("sync" if self.cls_name == "LoopContext" else "native")
        self.cached, self.last = cached, last
        self.target = f"jinja2.runtime:{self.owner}.{self.method}"
        tags = []
        if self.cls_name != self.owner:
            tags.append(self.cls_name)
        if self.cls_name == "AsyncLoopContext" and (it is not None):
            tags.append(self.it)
        if cached:
            tags.append("length_cached")
        if last != "missing":
            tags.append("called_before")
        if sized_iterator:
            tags.append("sized_iterator")
        VC.__init__(self, "C07", f"C07.{self.owner}.{self.method}" + (f"[{','.join(tags)}]" if tags else ""))

    def configure(self, I):
        install(I, self)

    def make(self, st, init=False):
        self.L = Loop(st, getattr(R, self.cls_name), self.it, self.cached, self.last, init=init, sized_iterator=self.sized_iterator)
        return self.L

    def setup(self, I, st):
        L = self.make(st)
        return [L.ref], {}

    # shared clauses -----------------------------------------------------------------------------------
    def p_returns(self, pre, out):
        return out.returned

    def p_pure(self, pre, out):
        """no field written, the underlying iterator not advanced"""
        return AND(self.L.unchanged(pre, out.st), not out.st.written, not opaque_calls(out))

    def p_view_kept(self, pre, out):
        """RI re-established for the same ghost at the same position; history and bookkeeping untouched"""
        L = self.L
        v = L.ri(out.st)
        if v is None:
            return False
        return AND(v.formula, v.i0 == L.i0, v.cur == L.cur, v.bef == L.bef, L.frame(pre, out.st))

    # witness / replay -----------------------------------------------------------------------------------
    def concretize(self, model, pre, out):
        L = self.L
        mv = lambda t: model_value(model, t)  # noqa: E731
        i0, peeked = mv(L.i0), bool(mv(L.peeked))
        rest = mv(L.nS) - mv(L.c)
        w = {"owner": self.owner, "cls": self.cls_name, "method": self.method, "it": self.it, "cached": self.cached,
             "i0": i0, "peeked": peeked, "N": i0 + 1 + int(peeked) + rest, "sized": bool(mv(L.sized.t)),
             "has_aiter": bool(mv(L.has_aiter.t)), "depth0": mv(L.depth0.t), "recurse": mv(L.recurse.t == NONE) is not True}
        if L.is_iterator:
            w["is_iterator"], w["len_remaining"] = True, bool(mv(L.len_remaining.t))
        self.extra_witness(model, w)
        return w

    def extra_witness(self, model, w):
        pass

    def replay(self, w):
        return replay_loop(w)


def names_of(model):
    names = {}

    def nm(t):
        s = str(model.eval(t, model_completion=True))
        return names.setdefault(s, f"v{len(names)}")

    return nm


class Next(LC):
    """C07.next: (items[index0+1], self) and one step forward, or StopIteration leaving the position."""
    method = "__next__"

    def p_outcome(self, pre, out):
        L = self.L
        if out.raised:
            return AND(out.value.cls is self.stop, z3.Not(L.more))
        v = out.value
        if not (isinstance(v, tuple) and len(v) == 2 and isinstance(v[1], Ref) and v[1] == L.ref):
            return False
        t = obj_term(v[0])
        return AND(t is not None, L.more, t == L.items(L.i0 + 1))

    def p_state(self, pre, out):
        L = self.L
        v = L.ri(out.st)
        if v is None:
            return False
        if out.raised:
            return AND(v.formula, v.i0 == L.i0, v.cur == L.cur, v.bef == L.bef, L.frame(pre, out.st))
        return AND(v.formula, v.i0 == L.i0 + 1, L.frame(pre, out.st))

    posts = [("yields_next_item_or_stops", p_outcome), ("advances_view_by_one", p_state)]


class ANext(Next):
    method, owner, stop = "__anext__", "AsyncLoopContext", StopAsyncIteration


class PeekNext(LC):
    method = "_peek_next"

    def p_result(self, pre, out):
        L = self.L
        if out.raised:
            return False
        t = obj_term(out.value)
        return AND(t is not None, t == z3.If(L.more, L.items(L.i0 + 1), MISSING))

    posts = [("next_item_or_missing", p_result), ("view_kept", LC.p_view_kept)]


class APeekNext(PeekNext):
    owner = "AsyncLoopContext"


class Last(LC):
    method = "last"

    def p_result(self, pre, out):
        if out.raised:
            return False
        return to_term(out.value, "bool") == z3.Not(self.L.more)

    posts = [("last_iff_index_is_length", p_result), ("view_kept", LC.p_view_kept)]


class ALast(Last):
    owner = "AsyncLoopContext"


def undefined_call(L, out):
    """the single call `self._undefined(<hint>)` whose result is returned, or None"""
    cs = opaque_calls(out)
    if len(cs) != 1 or out.raised:
        return None
    e = cs[0]
    fn = e.args[0]
    if not (isinstance(fn, Sym) and fn.t.eq(L.undefined.t)):
        return None
    if len(e.args) > 2 or not all(isinstance(a, str) for a in e.args[1:]) or not set(e.kwargs) <= {"hint", "name"}:
        return None
    return e if out.value is e.result else None


class NextItem(LC):
    method = "nextitem"

    def p_result(self, pre, out):
        L = self.L
        if out.raised:
            return False
        if not opaque_calls(out):
            t = obj_term(out.value)
            return AND(t is not None, L.more, t == L.items(L.i0 + 1))
        return AND(undefined_call(L, out) is not None, z3.Not(L.more))

    posts = [("next_item_or_undefined", p_result), ("view_kept", LC.p_view_kept)]


class ANextItem(NextItem):
    owner = "AsyncLoopContext"


class PrevItem(LC):
    method = "previtem"

    def p_result(self, pre, out):
        L = self.L
        if out.raised:
            return False
        inloop = L.i0 >= 0  # documented inside the loop body only
        if not opaque_calls(out):
            t = obj_term(out.value)
            return AND(t is not None, z3.Implies(inloop, z3.And(L.i0 >= 1, t == L.items(L.i0 - 1))))
        return AND(undefined_call(L, out) is not None, z3.Implies(inloop, L.i0 == 0))

    def p_pure(self, pre, out):
        return AND(self.L.unchanged(pre, out.st), not out.st.written)

    posts = [("previous_item_or_undefined", p_result), ("pure", p_pure)]


class Length(LC):
    method = "length"
    expect = staticmethod(lambda L: L.N)

    def p_result(self, pre, out):
        if out.raised:
            return False
        return to_term(out.value, "int") == self.expect(self.L)

    def p_state(self, pre, out):
        """same ghost, same position, same peeked item; the items not yet visited are still to come"""
        L = self.L
        v = L.ri(out.st)
        if v is None:
            return False
        return AND(v.formula, v.i0 == L.i0, v.after == L.after, v.cur == L.cur, v.bef == L.bef, L.frame(pre, out.st))

    posts = [("value", p_result), ("view_kept", p_state)]


class Len(Length):
    method = "__len__"


class RevIndex(Length):
    method = "revindex"
    expect = staticmethod(lambda L: L.N - L.i0)


class RevIndex0(Length):
    method = "revindex0"
    expect = staticmethod(lambda L: L.N - L.i0 - 1)


class ALength(Length):
    owner = "AsyncLoopContext"


class ARevIndex(RevIndex):
    owner = "AsyncLoopContext"


class ARevIndex0(RevIndex0):
    owner = "AsyncLoopContext"


class Index(LC):
    method = "index"
    kind_, expect = "int", staticmethod(lambda L: L.i0 + 1)

    def p_result(self, pre, out):
        if out.raised:
            return False
        return to_term(out.value, self.kind_) == self.expect(self.L)

    posts = [("value", p_result), ("pure", LC.p_pure)]


class Depth(Index):
    method = "depth"
    expect = staticmethod(lambda L: L.depth0.t + 1)


class First(Index):
    method = "first"
    kind_, expect = "bool", staticmethod(lambda L: L.i0 == 0)


class Iter(LC):
    method = "__iter__"

    def p_result(self, pre, out):
        return out.returned and isinstance(out.value, Ref) and out.value == self.L.ref

    posts = [("returns_self", p_result), ("pure", LC.p_pure)]


class AIter(Iter):
    method, owner = "__aiter__", "AsyncLoopContext"


class Repr(LC):
    method = "__repr__"

    def p_result(self, pre, out):
        L = self.L
        if out.raised:
            return False
        want = z3.Concat(z3.StringVal(f"<{self.cls_name} "), M.py_str_int(L.i0 + 1), z3.StringVal("/"), M.py_str_int(L.N), z3.StringVal(">"))
        return to_term(out.value, "str") == want

    posts = [("index_slash_length", p_result), ("view_kept", Length.p_state)]


class AKnownLength(LC):
    """AsyncLoopContext._known_length / __len__ / __repr__ cannot await.  They give the loop's length N when it can be told
    without awaiting (already computed, or the iterable has a size that is the number of its items); otherwise the length is
    *unavailable* (None / TypeError / '?').  They never give another number: an iterator's own len() may count what is left."""
    method, owner = "_known_length", "AsyncLoopContext"

    def knowable(self):
        L = self.L
        return z3.BoolVal(True) if self.cached else (z3.BoolVal(False) if L.is_iterator else L.sized.t)

    def unavailable(self, out):
        return out.returned and out.value is None

    def available(self, out):
        if out.raised or kind_of(out.value) != "int":
            return False
        return to_term(out.value, "int") == self.L.N

    def p_result(self, pre, out):
        if self.unavailable(out):
            return z3.Not(self.knowable())
        return self.available(out)

    posts = [("length_or_unavailable", p_result), ("view_kept", Length.p_state)]


class ALen(AKnownLength):
    method = "__len__"

    def unavailable(self, out):
        return out.raised and out.value.cls is TypeError


class ARepr(AKnownLength):
    method = "__repr__"

    def _text(self, n):
        return z3.Concat(z3.StringVal(f"<{self.cls_name} "), M.py_str_int(self.L.i0 + 1), z3.StringVal("/"), n, z3.StringVal(">"))

    def p_result(self, pre, out):
        if out.raised or kind_of(out.value) != "str":
            return False
        v = to_term(out.value, "str")
        return z3.Or(v == self._text(M.py_str_int(self.L.N)), z3.And(z3.Not(self.knowable()), v == self._text(z3.StringVal("?"))))

    posts = [("index_slash_length_or_unavailable", p_result), ("view_kept", Length.p_state)]


class ABool(LC):
    """{% if loop %}: the loop object is true (it only exists inside the loop body), whatever the iterable"""
    method, owner = "__bool__", "AsyncLoopContext"

    def p_result(self, pre, out):
        return out.returned and out.value is True

    posts = [("true", p_result), ("pure", LC.p_pure)]


def _int_consts(formulas, prefix):
    """the integer constants named <prefix>... that occur in the formulas"""
    seen, out, todo = set(), [], list(formulas)
    while todo:
        f = todo.pop()
        if not z3.is_expr(f) or f.get_id() in seen:
            continue
        seen.add(f.get_id())
        if z3.is_const(f) and f.decl().kind() == z3.Z3_OP_UNINTERPRETED and z3.is_int(f) and f.decl().name().startswith(prefix):
            out.append(f)
        if z3.is_quantifier(f):
            todo.append(f.body())
        else:
            todo.extend(f.children())
    return out


class Cycle(LC):
    """cycle(*args) = args[index0 mod len(args)]  (mod: the r with index0 = len*q + r, 0 <= r < len)"""
    method = "cycle"

    def setup(self, I, st):
        L = self.make(st)
        self.args = A.sseq(st, "args", "obj")
        return "locals", {"self": L.ref, "args": self.args}

    def p_result(self, pre, out):
        L, a = self.L, self.args
        if out.raised:
            return AND(out.value.cls is TypeError, a.n == 0)
        t = obj_term(out.value)
        # for ALL q, r (free constants of the goal) with index0 = len*q + r and 0 <= r < len the result is args[r].  Uniqueness of
        # Euclidean division is non-linear; the solver is given valid instances of  n*(a-b) = n*a - n*b  and  n>0 & d>=1 => n*d>=n
        # for the quotients occurring on the path (arithmetic facts, true for all integers: they do not strengthen the hypothesis)
        q, r = z3.Int(fresh_name("q")), z3.Int(fresh_name("r"))
        n = a.n
        hints = []
        for qp in _int_consts(out.st.pc, "q!"):
            d = qp - q
            hints += [n * d == n * qp - n * q, z3.Implies(z3.And(n > 0, d >= 1), n * d >= n), z3.Implies(z3.And(n > 0, d <= -1), n * d <= -n),
                      z3.Implies(d == 0, n * d == 0)]
        goal = z3.Implies(z3.And(L.i0 == n * q + r, 0 <= r, r < n), t == z3.Select(a.arr, r)) if t is not None else False
        return AND(t is not None, n > 0, z3.Implies(z3.And(*hints), goal) if hints else goal)

    def extra_witness(self, model, w):
        nm = names_of(model)
        n = max(0, min(8, model_value(model, self.args.n)))
        w["args"] = [nm(z3.Select(self.args.arr, i)) for i in range(n)]

    posts = [("value", p_result), ("pure", LC.p_pure)]


class Changed(LC):
    """changed(*v): True iff never called before or the previous call's v differs; v is remembered"""
    method = "changed"

    def setup(self, I, st):
        L = self.make(st)
        self.value = A.sseq(st, "value", "obj")
        return "locals", {"self": L.ref, "value": self.value}

    def equal_prev(self):
        L, v = self.L, self.value
        if self.last == "missing":
            return z3.BoolVal(False)
        j = z3.Int(fresh_name("cj"))
        return z3.And(L.nL == v.n, z3.ForAll([j], z3.Implies(z3.And(0 <= j, j < v.n), z3.Select(L.arrL, j) == z3.Select(v.arr, j))))

    def p_result(self, pre, out):
        if out.raised:
            return False
        return to_term(out.value, "bool") == z3.Not(self.equal_prev())

    def p_state(self, pre, out):
        """the remembered value is now this call's value; nothing else changes"""
        L, v = self.L, self.value
        now = fld(out.st, L.ref, "_last_changed_value")
        if not isinstance(now, SSeq):
            return False
        j = z3.Int(fresh_name("cj"))
        remembered = z3.And(now.n == v.n, z3.ForAll([j], z3.Implies(z3.And(0 <= j, j < v.n), z3.Select(now.arr, j) == z3.Select(v.arr, j))))
        a = iter_view(pre, fld(pre, L.ref, "_iterator"), L.asynchronous)
        b = iter_view(out.st, fld(out.st, L.ref, "_iterator"), L.asynchronous)
        if a is None or b is None:
            return False
        return AND(remembered, L.frame(pre, out.st, tuple(n for n in FRAME + RI_FIELDS if n != "_last_changed_value")),
                   a[0] == b[0], a[1] == b[1], a[2] == b[2], not opaque_calls(out))

    def extra_witness(self, model, w):
        nm = names_of(model)
        n = max(0, min(6, model_value(model, self.value.n)))
        w["value"] = [nm(z3.Select(self.value.arr, i)) for i in range(n)]
        if self.last == "missing":
            w["last"] = None
        else:
            m = max(0, min(6, model_value(model, self.L.nL)))
            w["last"] = [nm(z3.Select(self.L.arrL, i)) for i in range(m)]

    posts = [("true_iff_first_or_different", p_result), ("remembers_value", p_state)]


class Call(LC):
    """loop(inner): renders the body through the recursive render function one level deeper:
    _recurse(inner, _recurse, depth=depth0+1); TypeError when the loop is not recursive."""
    method = "__call__"

    def setup(self, I, st):
        L = self.make(st)
        self.inner = sym("inner_iterable", "obj")
        return [L.ref, self.inner], {}

    def p_call(self, pre, out):
        L = self.L
        cs = opaque_calls(out)
        notrec = L.recurse.t == NONE
        if not cs:
            return AND(out.raised and out.value.cls is TypeError, notrec)
        if len(cs) != 1:
            return False
        e = cs[0]
        if not (isinstance(e.args[0], Sym) and e.args[0].t.eq(L.recurse.t)):
            return False
        pos, kw = list(e.args[1:]), dict(e.kwargs)
        if len(pos) == 3 and not kw:
            depth = pos.pop()
        elif len(pos) == 2 and set(kw) == {"depth"}:
            depth = kw["depth"]
        else:
            return False
        if not (pos[0] is self.inner and isinstance(pos[1], Sym) and pos[1].t.eq(L.recurse.t)) or kind_of(depth) != "int":
            return False
        if out.raised:
            ok = getattr(out.value, "from_call", None) == "recurse" and e.result is out.value
        else:
            ok = out.value is e.result
        return AND(ok, z3.Not(notrec), to_term(depth, "int") == L.depth0.t + 1)

    def p_pure(self, pre, out):
        return AND(self.L.unchanged(pre, out.st), not out.st.written)

    posts = [("recurses_one_level_deeper", p_call), ("pure", p_pure)]


class Init(LC):
    """LoopContext(iterable, undefined, recurse, depth0): position before the first item (index0 = -1,
    nothing drawn), the arguments stored where the other methods read them, depth = depth0 + 1."""
    method = "__init__"

    def __init__(self, cls=None, defaults=False):
        self.defaults = defaults
        LC.__init__(self, cls)
        if defaults:
            self.name += "[defaults]"

    def setup(self, I, st):
        L = self.make(st, init=True)
        if self.defaults:
            return [L.ref, L.iterable, L.undefined], {}
        return [L.ref, L.iterable, L.undefined, L.recurse, L.depth0], {}

    def p_state(self, pre, out):
        L = self.L
        if out.raised:
            return False
        v = L.ri(out.st)
        if v is None:
            return False
        f = lambda n: fld(out.st, L.ref, n)  # noqa: E731
        want_rec = None if self.defaults else L.recurse
        want_d0 = 0 if self.defaults else L.depth0
        made = [e for e in out.st.trace if e.kind == "call" and e.name in ("iter", "aiter")]
        return AND(v.formula, v.i0 == -1, z3.Not(v.peeked), f("_length") is None,
                   f("_iterable") is L.iterable, f("_undefined") is L.undefined, same_val(f("_recurse"), want_rec),
                   same_val(f("depth0"), want_d0), f("_last_changed_value") is missing, len(made) == 1, not opaque_calls(out))

    def concretize(self, model, pre, out):
        L = self.L
        mv = lambda t: model_value(model, t)  # noqa: E731
        return {"owner": self.owner, "cls": self.cls_name, "method": "__init__", "N": mv(L.nS), "sized": bool(mv(L.sized.t)),
                "has_aiter": bool(mv(L.has_aiter.t)), "depth0": mv(L.depth0.t), "recurse": True, "defaults": self.defaults,
                "i0": -1, "peeked": False, "cached": False, "it": "native" if mv(L.has_aiter.t) else "wrapped"}

    posts = [("starts_before_first_item", p_state)]


# ---- async_utils ---------------------------------------------------------------------------------------------

class AutoAiter(LC):
    """auto_aiter(x): x.__aiter__() when x is an async iterable, else an async iterator over iter(x)
    (both yield the ghost items from the start)."""
    method = "auto_aiter"

    def __init__(self):
        LC.__init__(self, "AsyncLoopContext")
        self.target = "jinja2.async_utils:auto_aiter"
        self.name = "C07.async_utils.auto_aiter"

    def setup(self, I, st):
        L = self.make(st, init=True)
        return [L.iterable], {}

    def p_result(self, pre, out):
        L = self.L
        if out.raised:
            return False
        itv = iter_view(out.st, out.value, True)
        if itv is None:
            return False
        arr, n, c = itv
        h = out.st.get(out.value)
        native = h.cls is _GhostAsyncIterator
        made = [e.name for e in out.st.trace if e.kind == "call" and e.name in ("iter", "aiter")]
        return AND(made == (["aiter"] if native else ["iter"]), L.has_aiter.t == z3.BoolVal(native), arr == L.S, n == L.nS, c == 0)

    def concretize(self, model, pre, out):
        return {"method": "auto_aiter", "N": max(0, min(8, model_value(model, self.L.nS))), "has_aiter": bool(model_value(model, self.L.has_aiter.t))}

    posts = [("async_iterator_over_the_items", p_result)]


class Wrapper(LC):
    """_IteratorToAsyncIterator: __anext__ = next(iterator), StopIteration turned into StopAsyncIteration."""
    method = "__anext__"

    def __init__(self):
        LC.__init__(self, "AsyncLoopContext", "wrapped")
        self.target = f"jinja2.async_utils:_IteratorToAsyncIterator.{self.method}"
        self.name = f"C07.async_utils._IteratorToAsyncIterator.{self.method}"

    def setup(self, I, st):
        L = self.make(st)
        return [L.itref], {}

    def p_result(self, pre, out):
        L = self.L
        itv = iter_view(out.st, L.itref, True)
        if itv is None:
            return False
        arr, n, c = itv
        same_seq = AND(arr == L.S, n == L.nS)
        if out.raised:
            return AND(out.value.cls is StopAsyncIteration, L.c >= L.nS, c == L.c, same_seq)
        t = obj_term(out.value)
        return AND(t is not None, L.c < L.nS, t == z3.Select(L.S, L.c), c == L.c + 1, same_seq)

    def concretize(self, model, pre, out):
        mv = lambda t: model_value(model, t)  # noqa: E731
        return {"method": "wrapper." + self.method, "N": max(0, min(8, mv(self.L.nS))), "c": mv(self.L.c)}

    posts = [("next_item_or_StopAsyncIteration", p_result)]


class WrapperAiter(Wrapper):
    method = "__aiter__"

    def p_result(self, pre, out):
        L = self.L
        itv = iter_view(out.st, L.itref, True)
        return AND(out.returned, isinstance(out.value, Ref) and out.value == L.itref, itv is not None and AND(itv[0] == L.S, itv[1] == L.nS, itv[2] == L.c))

    posts = [("returns_self", p_result)]


class WrapperInit(Wrapper):
    method = "__init__"

    def setup(self, I, st):
        L = self.make(st)
        self.obj = st.alloc(HObj(AU._IteratorToAsyncIterator), initial=True)
        return [self.obj, L.hiter], {}

    def p_result(self, pre, out):
        L = self.L
        if out.raised:
            return False
        itv = iter_view(out.st, self.obj, True)
        return AND(itv is not None and AND(itv[0] == L.S, itv[1] == L.nS, itv[2] == L.c), fld(out.st, self.obj, "_iterator") == L.hiter)

    posts = [("wraps_the_iterator", p_result)]


# ----------------------------------------------------------------------------- native replay (abstract loop)

class _NativeAIter:
    def __init__(self, xs):
        self._xs, self._i = list(xs), 0

    def __aiter__(self):
        return self

    async def __anext__(self):
        if self._i >= len(self._xs):
            raise StopAsyncIteration
        self._i += 1
        return self._xs[self._i - 1]


class _AIterable:
    def __init__(self, xs):
        self._xs = list(xs)

    def __aiter__(self):
        return _NativeAIter(self._xs)


class _SizedAIterable(_AIterable):
    def __len__(self):
        return len(self._xs)


class _Iter:
    """An iterator (iter(x) is x) over `rest`, the items that are still to come of `total` items."""

    def __init__(self, rest, total):
        self._left, self._total = list(rest), total

    def __iter__(self):
        return self

    def __next__(self):
        if not self._left:
            raise StopIteration
        return self._left.pop(0)


class _SizedIterRemaining(_Iter):
    def __len__(self):
        return len(self._left)


class _SizedIterTotal(_Iter):
    def __len__(self):
        return self._total


class _AIter:
    def __init__(self, rest, total):
        self._left, self._total = list(rest), total

    def __aiter__(self):
        return self

    async def __anext__(self):
        if not self._left:
            raise StopAsyncIteration
        return self._left.pop(0)


class _SizedAIterRemaining(_AIter):
    def __len__(self):
        return len(self._left)


class _SizedAIterTotal(_AIter):
    def __len__(self):
        return self._total


def _own_iterator(rest, total, asynchronous_native, sized, remaining):
    if asynchronous_native:
        cls = _AIter if not sized else (_SizedAIterRemaining if remaining else _SizedAIterTotal)
    else:
        cls = _Iter if not sized else (_SizedIterRemaining if remaining else _SizedIterTotal)
    return cls(rest, total)


def _drive(x):
    """A7: run an awaitable that never really suspends."""
    if inspect.isawaitable(x):
        try:
            x.send(None)
        except StopIteration as e:
            return e.value
        raise RuntimeError("coroutine suspended")
    return x


def _drain(it, asynchronous):
    out = []
    while not asynchronous:  # through the iterator protocol the loop context itself uses
        try:
            out.append(next(it))
        except StopIteration:
            return out
    while True:
        try:
            out.append(_drive(it.__anext__()))
        except StopAsyncIteration:
            return out


UNDEF = "<undefined>"


def _norm(x):
    import jinja2
    return UNDEF if isinstance(x, jinja2.Undefined) else x


def check_state(w):
    """Build the real object in the witness state, run the real method, compare with the abstract loop."""
    import jinja2
    N, i0, peeked = int(w["N"]), int(w["i0"]), bool(w["peeked"])
    if not (N >= 0 and -1 <= i0 and i0 + 1 + int(peeked) <= N) or N > 2000:
        return (False, f"witness state outside the precondition / too large: N={N} index0={i0} peeked={peeked}")
    items = [f"x{j}" for j in range(N)]
    drawn = i0 + 1 + int(peeked)
    cls = getattr(R, w["cls"])
    asynchronous = cls is R.AsyncLoopContext
    method = w["method"]
    calls = []

    def rec(*a, **k):
        calls.append((a, k))
        return "RENDERED"

    recurse = rec if w.get("recurse", True) else None
    depth0 = int(w.get("depth0", 0))
    sized = bool(w.get("sized"))
    if asynchronous and w.get("it") == "native":
        iterable = (_SizedAIterable if sized else _AIterable)(items)
    else:
        iterable = list(items) if sized else (x for x in items)

    if method == "__init__":
        try:
            ctx = cls(iterable, jinja2.Undefined) if w.get("defaults") else cls(iterable, jinja2.Undefined, recurse, depth0)
        except Exception as ex:
            return (True, f"{cls.__name__}(...) raised {type(ex).__name__}: {ex}")
        want_d0 = 0 if w.get("defaults") else depth0
        try:
            future = _drain(ctx._iterator, asynchronous)
        except Exception as ex:
            future = f"_iterator is not an iterator: {type(ex).__name__}: {ex}"
        got = (ctx.index0, ctx._after is missing, ctx._length, ctx.depth0, ctx.depth, ctx._recurse is (None if w.get("defaults") else recurse),
               ctx._undefined is jinja2.Undefined, ctx._last_changed_value is missing, future)
        want = (-1, True, None, want_d0, want_d0 + 1, True, True, True, items)
        return (got != want, f"{cls.__name__}.__init__ over {N} items: state={got!r} abstract loop={want!r}")

    ctx = cls.__new__(cls)
    ctx._iterable = iterable
    rest = items[drawn:]
    kind = w.get("it", "sync")
    if w.get("is_iterator"):
        # the iterable is its own iterator, possibly with a size (remaining items or the constant total)
        own = _own_iterator(rest, N, asynchronous and kind != "wrapped", sized, bool(w.get("len_remaining")))
        ctx._iterable = own
        ctx._iterator = AU._IteratorToAsyncIterator(own) if (asynchronous and kind == "wrapped") else own
    elif not asynchronous:
        ctx._iterator = iter(rest)
    elif kind == "wrapped":
        ctx._iterator = AU._IteratorToAsyncIterator(iter(rest))
    else:
        ctx._iterator = _NativeAIter(rest)
    ctx._undefined, ctx._recurse, ctx.depth0 = jinja2.Undefined, recurse, depth0
    ctx.index0 = i0
    ctx._after = items[i0 + 1] if peeked else missing
    ctx._current = items[i0] if i0 >= 0 else missing
    ctx._before = items[i0 - 1] if i0 >= 1 else missing
    ctx._length = N if w.get("cached") else None
    last = w.get("last")
    ctx._last_changed_value = tuple(last) if last is not None else missing
    frame0 = (ctx._iterable, ctx._undefined, ctx._recurse, ctx.depth0)

    more = i0 + 1 < N
    exp_i0 = i0
    exp_last = ctx._last_changed_value
    # the length can be told without awaiting: already computed, or the iterable has a size that is the number of its items
    knowable = bool(w.get("cached")) or (sized and not w.get("is_iterator"))
    also = []  # further acceptable results
    if method in ("__next__", "__anext__"):
        want = ("ok", (items[i0 + 1], "self")) if more else ("raise", "StopAsyncIteration" if asynchronous else "StopIteration")
        exp_i0 = i0 + 1 if more else i0
        run = lambda: (lambda r: (r[0], "self" if r[1] is ctx else r[1]))(_drive(getattr(ctx, method)()))  # noqa: E731
    elif method == "_peek_next":
        want = ("ok", items[i0 + 1] if more else missing)
        run = lambda: _drive(ctx._peek_next())  # noqa: E731
    elif method in ("index", "depth", "first", "last", "length", "revindex", "revindex0", "nextitem", "previtem"):
        table = {"index": i0 + 1, "depth": depth0 + 1, "first": i0 == 0, "last": not more, "length": N, "revindex": N - i0,
                 "revindex0": N - i0 - 1, "nextitem": items[i0 + 1] if more else UNDEF, "previtem": items[i0 - 1] if i0 >= 1 else UNDEF}
        if method == "previtem" and i0 < 0:
            return (False, "previtem before the first iteration is not specified")
        want = ("ok", table[method])
        run = lambda: _norm(_drive(getattr(ctx, method)))  # noqa: E731
    elif method == "__len__":
        want = ("ok", N)
        if asynchronous and not knowable:
            also = [("raise", "TypeError")]  # len() cannot await: unavailable is fine, a wrong count is not
        run = lambda: ctx.__len__() if asynchronous else _drive(ctx.__len__())  # noqa: E731
    elif method == "_known_length":
        want = ("ok", N)
        if not knowable:
            also = [("ok", None)]
        run = lambda: ctx._known_length()  # noqa: E731
    elif method == "__bool__":
        want = ("ok", True)
        run = lambda: bool(ctx)  # noqa: E731
    elif method == "__repr__":
        want = ("ok", f"<{cls.__name__} {i0 + 1}/{N}>")
        if asynchronous and not knowable:
            also = [("ok", f"<{cls.__name__} {i0 + 1}/?>")]
        run = lambda: repr(ctx)  # noqa: E731
    elif method in ("__iter__", "__aiter__"):
        want = ("ok", "self")
        run = lambda: "self" if getattr(ctx, method)() is ctx else "other"  # noqa: E731
    elif method == "cycle":
        args = list(w.get("args", []))
        want = ("ok", args[i0 % len(args)]) if args else ("raise", "TypeError")
        run = lambda: ctx.cycle(*args)  # noqa: E731
    elif method == "changed":
        value = tuple(w.get("value", []))
        want = ("ok", last is None or tuple(last) != value)
        exp_last = value
        run = lambda: ctx.changed(*value)  # noqa: E731
    elif method == "__call__":
        want = ("ok", ("RENDERED", [(("INNER", "rec"), {"depth": depth0 + 1})])) if recurse else ("raise", "TypeError")

        def run():
            r = ctx("INNER")
            seen = []
            for a, k in calls:
                a = tuple("rec" if x is rec else x for x in a)
                if len(a) == 3 and not k:
                    a, k = a[:2], {"depth": a[2]}
                seen.append((a, k))
            return (r, seen)
    else:
        return (None, f"no native oracle for {method}")
    try:
        got = ("ok", run())
    except Exception as ex:
        got = ("raise", type(ex).__name__)
    # state after the call, read through the representation invariant
    try:
        after = ctx._after
        future = ([after] if after is not missing else []) + _drain(ctx._iterator, asynchronous)
        st_got = (ctx.index0, future, ctx._current if ctx.index0 >= 0 else None, ctx._before if ctx.index0 >= 1 else None,
                  ctx._length in (None, N), (ctx._iterable, ctx._undefined, ctx._recurse, ctx.depth0) == frame0, ctx._last_changed_value)
    except Exception as ex:
        st_got = ("state unreadable", type(ex).__name__, str(ex))
    st_want = (exp_i0, items[exp_i0 + 1:], items[exp_i0] if exp_i0 >= 0 else None, items[exp_i0 - 1] if exp_i0 >= 1 else None, True, True, exp_last)
    bad = (got != want and got not in also) or st_got != st_want
    desc = (f"{cls.__name__}.{method} at index0={i0} of {N} items (peeked={peeked}, length cached={bool(w.get('cached'))}, sized={sized}, "
            f"iterator={kind}" + (f", the iterable is its own iterator and len() counts {'the items that are left' if w.get('len_remaining') else 'all items'}"
                                  if w.get("is_iterator") and sized else ", the iterable is its own iterator" if w.get("is_iterator") else "") +
            f"): real={got!r} abstract loop={want!r}; state after (index0, items still to come, current, previous, length ok, "
            f"frame ok, last changed)={st_got!r} expected={st_want!r}")
    return (bad, desc)


def sweep(w):
    """All small abstract states for the witness's method (used when the solver's model itself does not
    reproduce: structural obligations, clamped models)."""
    base = dict(w)
    asynchronous = w.get("cls") == "AsyncLoopContext"
    kinds = ["native", "wrapped"] if asynchronous else ["sync"]
    for N in range(0, 4):
        for i0 in range(-1, N):
            for peeked in (False, True):
                if i0 + 1 + int(peeked) > N:
                    continue
                for cached, sized, kind, rec_ in itertools.product((False, True), (False, True), kinds, (True, False)):
                    variants = [{}]
                    if w["method"] == "cycle":
                        variants = [{"args": a} for a in ([], ["a"], ["a", "b"], ["a", "b", "c"])]
                    elif w["method"] == "changed":
                        variants = [{"last": l, "value": v} for l in (None, [], ["a"], ["a", "b"]) for v in ([], ["a"], ["b"], ["a", "b"])]
                    elif w["method"] == "__init__":
                        variants = [{"defaults": False}, {"defaults": True}]
                        if i0 != -1 or peeked or cached:
                            continue
                    for extra in variants:
                        yield dict(base, N=N, i0=i0, peeked=peeked, cached=cached, sized=sized, it=kind, recurse=rec_, depth0=base.get("depth0", 0) or 0, **extra)


def replay_loop(w):
    m = w.get("method", "")
    if m == "auto_aiter":
        return replay_auto_aiter(w)
    if m.startswith("wrapper."):
        return replay_wrapper(w)
    v, d = check_state(w)
    if v or v is None:
        return v, d
    for w2 in sweep(w):
        v2, d2 = check_state(w2)
        if v2:
            return v2, d2 + "  [found by the small-state sweep; the solver's own model: " + d[:300] + "]"
    return v, d


def replay_auto_aiter(w):
    for N in sorted({int(w.get("N", 2)), 0, 1, 3}):
        items = [f"x{j}" for j in range(N)]
        for native in (bool(w.get("has_aiter")), not bool(w.get("has_aiter"))):
            src = _AIterable(items) if native else (list(items) if N % 2 else (x for x in items))
            try:
                it = AU.auto_aiter(src)
                got = _drain(it, True)
                proto = it.__aiter__() is it
            except Exception as ex:
                return (True, f"auto_aiter over {N} items (async iterable={native}) raised {type(ex).__name__}: {ex}")
            if got != items or not proto:
                return (True, f"auto_aiter over {N} items (async iterable={native}) yields {got!r}, expected {items!r}; __aiter__ returns self: {proto}")
    return (False, "auto_aiter yields the items of sync and async iterables in order")


def replay_wrapper(w):
    for N in sorted({int(w.get("N", 2)), 0, 1, 3}):
        items = [f"x{j}" for j in range(N)]
        for c in range(N + 1):
            inner = iter(items)
            for _ in range(c):
                next(inner)
            try:
                it = AU._IteratorToAsyncIterator(inner)
                if it.__aiter__() is not it:
                    return (True, "_IteratorToAsyncIterator.__aiter__ does not return self")
                try:
                    got = ("ok", _drive(it.__anext__()))
                except StopAsyncIteration:
                    got = ("raise", "StopAsyncIteration")
                rest = list(inner)
            except Exception as ex:
                return (True, f"_IteratorToAsyncIterator over {N} items at {c}: {type(ex).__name__}: {ex}")
            want = ("ok", items[c]) if c < N else ("raise", "StopAsyncIteration")
            if got != want or rest != items[c + 1:]:
                return (True, f"_IteratorToAsyncIterator.__anext__ over {N} items at position {c}: real={got!r}, rest={rest!r}; expected {want!r}, rest={items[c + 1:]!r}")
    return (False, "_IteratorToAsyncIterator follows the async iterator protocol")


# -------------------------------------------------------------------------------------------------- tasks

class Group(Task):
    """Several VCs (variants of one method) run in one worker process."""
    kind = "vc"
    prop = "C07"

    def __init__(self, name, vcs):
        self.name = name
        self.vcs = vcs

    def run(self, tier, seed):
        rs = []
        for vc in self.vcs:
            rs.extend(vc.run(tier, seed))
        return rs

    def replay(self, w):
        return replay_loop(w)

    def finding_key(self, res):
        """identifies the failing input class: the known one is exactly `length` first asked, after items were taken, of a
        sized iterator whose len() counts the items that are left; any other failing state has a key of its own"""
        w = res.witness or {}
        if not isinstance(w, dict):
            return str(w)[:120]
        taken = int(w.get("i0", -1)) + 1 + int(bool(w.get("peeked")))
        if (w.get("method") == "length" and w.get("is_iterator") and w.get("sized") and w.get("len_remaining") and not w.get("cached") and taken > 0):
            return "sized_iterator_len_counts_items_left"
        if (w.get("cls") == "AsyncLoopContext" and w.get("method") in ("_known_length", "__len__", "__repr__") and w.get("is_iterator") and w.get("sized")
                and w.get("len_remaining") and not w.get("cached") and taken > 0):
            return "async_known_length_trusts_len_of_a_sized_iterator"
        return ",".join(f"{k}={w[k]}" for k in sorted(w) if k not in ("N", "i0", "depth0"))[:200]


def both(k, **kw):
    return [k("AsyncLoopContext", it="native", **kw), k("AsyncLoopContext", it="wrapped", **kw)]


TASKS = [
    Group("C07.next", [Next(), Next(cached=True)]),
    Group("C07.async.anext", both(ANext)),
    Group("C07.peek", [PeekNext()] + both(APeekNext)),
    Group("C07.last", [Last()] + both(ALast)),
    Group("C07.nextitem", [NextItem()] + both(ANextItem)),
    Group("C07.length", [Length(), Length(cached=True), Len()]),
    Group("C07.async.length", both(ALength) + [ALength("AsyncLoopContext", cached=True)]),
    # the iterable is its own iterator, with or without a size; a size may count all items or the items that are left
    Group("C07.length.sized_iterator", [Length(sized_iterator=True)] + both(ALength, sized_iterator=True)),
    # what the async loop object gives without awaiting: len(loop) / loop|length, {{ loop }}, {% if loop %}
    Group("C07.async.known_length", [k("AsyncLoopContext", it=it_, **kw) for k in (AKnownLength, ALen, ARepr) for it_ in ("native", "wrapped")
                                     for kw in ({}, {"cached": True}, {"sized_iterator": True})
                                     if not (kw.get("sized_iterator") and it_ == "wrapped" and k is not AKnownLength)] + [ABool("AsyncLoopContext")]),
    Group("C07.revindex", [RevIndex(), RevIndex(cached=True), RevIndex0(), RevIndex0(cached=True)]),
    Group("C07.async.revindex", both(ARevIndex) + both(ARevIndex0)),
    Group("C07.attrs", [Index(), Depth(), First(), PrevItem(), Iter(), AIter(), Index("AsyncLoopContext"), First("AsyncLoopContext"),
                        Depth("AsyncLoopContext"), PrevItem("AsyncLoopContext")]),
    Group("C07.cycle", [Cycle(), Cycle("AsyncLoopContext")]),
    Group("C07.changed", [Changed(), Changed(last="tuple"), Changed("AsyncLoopContext", last="tuple")]),
    Group("C07.call", [Call(), Call("AsyncLoopContext")]),
    Group("C07.init", [Init(), Init(defaults=True), Init("AsyncLoopContext"), Init("AsyncLoopContext", defaults=True)]),
    Group("C07.repr", [Repr(), Repr(cached=True)]),
    Group("C07.async_utils", [AutoAiter(), Wrapper(), WrapperAiter(), WrapperInit()]),
]

META = {
    "level": "proof",
    "explanation": "Runtime half of C07: every method and property of the real jinja2.runtime.LoopContext and AsyncLoopContext "
                   "(__init__, __next__/__anext__, _peek_next, length/__len__ for sized and unsized iterables, index, revindex, "
                   "revindex0, first, last, previtem, nextitem, cycle, changed, depth, __call__, __iter__/__aiter__, __repr__) and "
                   "async_utils.auto_aiter/_IteratorToAsyncIterator is symbolically executed from its source over an arbitrary "
                   "loop state satisfying the representation invariant (ghost items[0..N) of unbounded length, arbitrary position, "
                   "peeked or not, length cached or not) and proved against the abstract loop: documented value of each attribute, "
                   "and the invariant re-established for the same ghost items, so that whatever look-ahead is queried the items "
                   "visited are items[0..N) in order. The clauses of the statement about the else branch and the loop filter, and "
                   "the wiring `loop(reciter, loop_render_func, depth)` of recursive loops, concern code emitted by "
                   "CodeGenerator.visit_For; they are covered by the compiler-side emission obligations (C07.emit.else, "
                   "C07.emit.filter) added with the compiler contracts, not by this module.",
    "assumptions": [
        "A1 integers are mathematical", "A7 await is a transparent call; an async comprehension over an async iterator collects what "
        "__anext__ yields until StopAsyncIteration",
        "A-EQ == on item/argument values is an equivalence coinciding with identity of abstract values (used by loop.changed)",
        "the iterable's items never are the internal `missing` sentinel; the len() of a sized iterable that is not its own iterator equals the number of items "
        "its iterator yields; the len() of an iterator that has one is either the number of items left or the constant total (both conventions "
        "are modelled, obligations C07.*.length[...sized_iterator]; hunt report C07_3)",
        "loop attributes are specified inside the loop body (index0 >= 0); previtem before the first iteration is left unspecified",
    ],
    "trusted_base": ["z3 / cvc5", "pyvc symbolic executor (python ast -> VCs)",
                     "dependency specs: iter/next/list/len on iterators, StopIteration.value, the async iterator protocol (__anext__/StopAsyncIteration)"],
}

try:  # compiler-side half (c07_emit.py); a failure to load it must not take the runtime half down
    from contracts import c07_emit as _e; TASKS = list(TASKS) + list(_e.TASKS)
except Exception as _ex:  # noqa
    import sys as _sys; print(f"contracts.c07_emit not loaded: {_ex!r}", file=_sys.stderr)
