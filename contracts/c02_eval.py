"""C02.bounded.eval -- bounded differential stand-in for property C02.

"Compiled expressions evaluate as the documented expression semantics."

Design (tree based, no reference tokenizer/parser):

* a seeded, type-directed generator produces small expression TREES (nested json lists, depth <= 4);
* ``to_source(tree)`` derives the Jinja source text with MINIMAL parentheses from the documented
  precedence / associativity (plus explicit ``par`` nodes for redundant parentheses), so a precedence or
  associativity bug of the real parser changes the meaning of the text and shows up as a disagreement;
* ``ref_eval(tree, data, flags)`` evaluates the tree directly and recursively with the semantics written
  down in /repo/docs/templates.rst ("Variables", "Filters", "Tests", "Expressions", "If Expression",
  "Python Methods", the "Implementation" note on subscriptions), docs/api.rst ("Undefined Types") and the
  documented doc-strings of the builtin filters/tests, on top of Python's operator semantics;
* the differential check compares ``env.compile_expression(src, undefined_to_none=False)(**data)`` and the
  rendered ``{{ src }}`` template with the reference, under five environments.

The reference never imports or calls jinja2's lexer, parser, compiler, nodes or Environment.getattr/getitem.
jinja2 is only used by the differential driver (the system under test).
"""
from __future__ import annotations

import collections.abc
import json
import numbers
import random
import re
import signal
import threading
import time
import types
import warnings

from markupsafe import Markup

from pyvc.contract import Res, FnTask

PROP = "C02"
NAME = "C02.bounded.eval"

# ---------------------------------------------------------------------------------------------------------
# documentation decisions and generator restrictions (reported verbatim in the evidence)
# ---------------------------------------------------------------------------------------------------------

DOC_DECISIONS = [
    {"id": "D1-precedence-python",
     "decision": "Relative precedence of or < and < not < comparisons/in/not in < +,- < *,/,//,% and chained "
                 "comparisons follow Python.",
     "doc": "templates.rst Expressions: 'Jinja allows basic expressions everywhere. These work very similarly to "
            "regular Python'; Logic: 'foo not in bar instead of not foo in bar' (not binds looser than in/is); "
            "CHANGES 2.2: 'Priority of not raised. It's now possible to write not foo in bar as an alias to "
            "foo not in bar like in python.'"},
    {"id": "D2-pow-left",
     "decision": "a ** b ** c is (a ** b) ** c.",
     "doc": "templates.rst Math: 'Unlike Python, chained pow is evaluated left to right. {{ 3**3**3 }} is evaluated "
            "as (3**3)**3 in Jinja'"},
    {"id": "D3-tilde-level",
     "decision": "~ binds tighter than + and - and looser than * / // % (a ~ b + c is (a ~ b) + c, a * b ~ c is "
                 "(a * b) ~ c).  The documentation gives no precedence for ~ (Python has no such binary operator); "
                 "the level is the one requested by the property's mechanism anchor (parse_math1 > parse_concat > "
                 "parse_math2).  UNDOCUMENTED: reported to the owner.",
     "doc": "templates.rst Other Operators: '~ (tilde) Converts all operands into strings and concatenates them.' "
            "(no precedence statement)"},
    {"id": "D4-unary-vs-pow",
     "decision": "Unary + and - bind tighter than ** on their operand: -a ** b is (-a) ** b (Python: -(a ** b)).  The "
                 "documentation does not mention unary minus at all; the pow entry reads the chain strictly left to "
                 "right ('Raise the left operand to the power of the right operand', 'chained pow is evaluated left "
                 "to right'), so the operand written to the left of ** is -a.  Set NEG_POW_PYTHON_LIKE = True to "
                 "check the Python reading instead (then '-2 ** 2' is a disagreement: real 4, Python -4).  "
                 "UNDOCUMENTED: reported to the owner.",
     "doc": "templates.rst Math '**'; CHANGES 2.5.3: 'Statements like \"-foo.bar\" had their implicit parentheses "
            "applied around the first part of the expression (\"(-foo).bar\") instead of the more correct "
            "\"-(foo.bar)\"' (unary binds looser than postfix)."},
    {"id": "D5-filter-test-postfix",
     "decision": "Filters (|f) and tests (is t) apply to the operand directly to their left, i.e. they bind tighter "
                 "than every binary operator (a + b|f is a + (b|f), a + b is t is a + (b is t)), chain left to right "
                 "(x|f|g, x|f is t), and looser than attribute/subscript/call postfixes.",
     "doc": "templates.rst Filters: 'Filters are separated from the variable by a pipe symbol (|)... Multiple filters "
            "can be chained. The output of one filter is applied to the next.'; Tests: 'you add is plus the name of "
            "the test after the variable'."},
    {"id": "D6-unary-vs-filter",
     "decision": "A signed operand is filtered/tested as a whole: -x|abs is (-x)|abs, -1 is number is (-1) is number.",
     "doc": "templates.rst Filters: 'Filters are separated from the variable by a pipe symbol' - the variable is the "
            "whole (possibly signed) operand to the left; docs otherwise silent.  UNDOCUMENTED."},
    {"id": "D7-condexpr",
     "decision": "'A if B else C': A and B are or-level expressions, C may itself be a conditional expression "
                 "(a if b else c if d else e is a if b else (c if d else e)); without else the false case is an "
                 "instance of the BASE Undefined class also under StrictUndefined.",
     "doc": "templates.rst If Expression: 'The general syntax is <do something> if <something is true> else <do "
            "something else>. The else part is optional. If not provided, the else block implicitly evaluates into "
            "an Undefined object (regardless of what undefined in the environment is set to)'; Python's grammar."},
    {"id": "D8-lookup-signals",
     "decision": "'there is not an attribute' means getattr raised AttributeError; 'there is not an item' means "
                 "obj[key] raised LookupError or TypeError (Python's signals for a missing key/index and for an "
                 "unsubscriptable object / unhashable key).  The attribute fallback of foo[x] applies only when x "
                 "is a string (an attribute name is a string).",
     "doc": "templates.rst Variables, admonition 'Implementation' (foo.bar / foo['bar'] lookup order)."},
    {"id": "D9-undefined-ops",
     "decision": "Default Undefined: str() is '', iteration yields nothing, bool is False, the defined/undefined "
                 "tests and the default filter work, every other operation (arithmetic, ordering, call, attribute, "
                 "subscript, unary) raises UndefinedError.  StrictUndefined: everything but defined/undefined/"
                 "default raises UndefinedError (including str, iteration, bool, ==).  ~ and the string/join/list "
                 "filters print / iterate the value, so they are allowed on the default Undefined.",
     "doc": "templates.rst Variables: 'the default behavior is to evaluate to an empty string if printed or iterated "
            "over, and to fail for every other operation'; api.rst Undefined doc-strings."},
    {"id": "D10-call-args",
     "decision": "Calls pass positional arguments, *args, keyword arguments and **kwargs exactly as the same Python "
                 "call would (keyword order preserved).",
     "doc": "templates.rst Other Operators '()': 'Inside of the parentheses you can use positional arguments and "
            "keyword arguments like in Python'."},
    {"id": "D11-first-last-min-max-empty",
     "decision": "first/last/min/max of an empty sequence give an undefined value.",
     "doc": "templates.rst Variables: 'If a variable or attribute does not exist, you will get back an undefined "
            "value'; documented signatures '-> V | Undefined'."},
    {"id": "D12-number-test",
     "decision": "'is number' is Python's numbers.Number (bool is a number); 'is sequence' on builtin values is "
                 "'iterable container' (str, list, tuple, dict true; numbers, None false).",
     "doc": "tests doc-strings: 'Return true if the variable is a number.', 'Return true if the variable is a "
            "sequence. Sequences are variables that are iterable.'"},
    {"id": "D13-globals-shadowing",
     "decision": "A variable passed to render/compile_expression shadows an environment global of the same name; a "
                 "top-level {% set %} in the template shadows a passed variable of the same name inside a block.",
     "doc": "api.rst The Global Namespace: 'variables and functions that should be available without needing to pass "
            "them to Template.render ... Data that is specific to a render should be passed as context'; "
            "templates.rst Assignments: 'Assignments at top level ... are exported from the template'."},
    {"id": "D14-tilde-plain",
     "decision": "With autoescape off ~ returns a plain str of the str() of the operands (also for Markup operands).",
     "doc": "templates.rst: '~ Converts all operands into strings and concatenates them.'"},
    {"id": "D15-empty-test-arglist",
     "decision": "'x is name()' (explicit empty argument list) is the same as 'x is name'.",
     "doc": "templates.rst Tests: 'Tests can accept arguments, too. If the test only takes one argument, you can leave "
            "out the parentheses.'"},
]

GENERATOR_RESTRICTIONS = [
    "values kept small: int literals 0..10, pow exponents are leaves in -1..3, at most two chained **; a reference "
    "value with |int| > 10**40 or a str/list longer than 20000 discards the expression (runtime/memory bound)",
    "floats are only 0.5 and 2.0 (exact binary fractions) and what Python computes from them; the reference uses the "
    "same Python operators so results are bit-identical",
    "no negative numeric literals (a negative number is written as unary minus applied to a literal, which is what "
    "the syntax means); numeric literals are parenthesised before '.' (lexing of '1.x' is C01's business)",
    "string literals contain only [A-Za-z0-9 %{}.,_<>-] (no quotes/backslashes: string lexing is C01); nested closing "
    "braces of dict literals are written '} }' because '}}' ends the print statement (lexer rule, C01)",
    "operations on an undefined value whose documented outcome is unclear are discarded, not compared: ==, != and "
    "'in' with a DEFAULT Undefined operand (doc: 'any other operation raises', real: type equality / False), "
    "len()/|length of it (real: 0), hashing it (dict key / subscript key), any test other than defined/undefined, "
    "any filter other than default/d/string/list/join/first/sum on it",
    "values handed to printf-style % formatting or to a str method (format, join...) must have a documented text (no "
    "undefined nested inside a container, no object whose repr contains a memory address)",
    "slices only on str/list/tuple values (doc describes x[...] as item-then-attribute-then-undefined; the real "
    "compiler emits a plain Python slice so e.g. 5[1:2] raises TypeError instead of being undefined): not compared",
    "string filters upper/lower/capitalize/trim/replace only on plain str values with str arguments; int filter not "
    "on strings containing '.', 'e', '_' or whitespace, and with a base only on strings that are numbers in that base "
    "(doc: 'The base is ignored for decimal numbers' is unclear for e.g. '3'|int(0, 2): real 3); last/reverse only on str/list/tuple; min/max only on "
    "sequences of numbers; join only on sequences without Markup; lower/upper tests only on str; sequence test not "
    "on user objects; sameas only between names and true/false/none (identity of computed values is a CPython "
    "detail)",
    "a bare test without arguments that is directly followed by one of the keywords if / in / not is printed with an "
    "explicit empty argument list 'x is defined() if ...' because the real parser takes the keyword as the test's "
    "argument (TemplateSyntaxError / wrong value on the unchanged tree) - that defect is kept failing separately by "
    "the obligation C02.bounded.test_then_keyword; a test applied to a test result is always parenthesised (the real "
    "parser rejects 'x is a is b' with an explicit message); a bare (parenthesis-less) test argument is only used "
    "when the argument is a name/literal/postfix chain that does not start with '(' (doc: 'If the test only takes "
    "one argument, you can leave out the parentheses' - '(1, 2)' would be ambiguous with an argument list)",
    "the left operand of ** is never a name-free (constant-foldable) expression with a negative value: the optimizer "
    "folds it into a bare negative literal written in front of ** in the generated Python, so '(1 - 4) ** i2' is -9 in "
    "the default environment and 9 with optimized=False (real defect on the unchanged tree, kept failing separately "
    "by the obligation C02.bounded.negconst_pow)",
    "for the StrictUndefined environment: no tree with a constant-foldable sub-expression whose evaluation raises "
    "UndefinedError (e.g. \"1 if bt else ('<'[3] or 2)\"): the optimizer evaluates and/or/~/if-expression constants at "
    "compile time without a guard, so compilation raises UndefinedError even when the branch is never taken (real "
    "defect on the unchanged tree, kept failing separately by the obligation C02.bounded.strict_fold_untaken)",
    "a call is never applied directly to a filter/test result without parentheses; call arguments are written "
    "positional, then *args, then keywords, then **kwargs (or keywords before *args), never positional after *args "
    "(doc only promises Python-like positional and keyword arguments)",
    "Markup only appears as operand of ~, +, ==, in, string test, |string, |length and printing",
    "SandboxedEnvironment: an expression that raises SecurityError is skipped (the reference has no sandbox rules); "
    "skips are counted and must stay < 5 %",
    "generated trees whose reference evaluation raises an ordinary exception (TypeError, ZeroDivisionError, "
    "UndefinedError...) are kept with probability 0.4 only (error outcomes are compared by class name and are less "
    "informative than values); sources longer than 160 characters are discarded",
    "not generated, because another property owns the obligation that reports it (hunt round b): the filters map / select / reject / "
    "selectattr / rejectattr feeding sort / min / max / batch / reverse / `in` / `is iterable` in the async environment (C22.async_variant[*], "
    "C09.variant.result_consumable.*), sum with a str start value (C22.async.do_sum[*].same_as_builtin_sum_of_the_collected_items), string "
    "literals with a backslash (C14.bounded.unescape), str.format in the sandbox (C02.bounded.sandbox_str_format), names that are not in NFKC "
    "form (C02.names.identifier_injective), keywords repeated through ** (C02.emit.signature), compile_expression on an async environment "
    "(only the rendered template is compared there; C02.TemplateExpression.__call__)",
    "each expression is checked on the default environment (compile_expression + rendered template) and on ONE of the "
    "other four environments in rotation (budget: ~1.1 ms per compilation)",
]

#: flip to check the Python reading of '-a ** b' (see D4); the unchanged tree then disagrees on e.g. '-2 ** 2'
NEG_POW_PYTHON_LIKE = False


# ---------------------------------------------------------------------------------------------------------
# reference values
# ---------------------------------------------------------------------------------------------------------

class UndefinedError(Exception):
    """Reference counterpart of the documented UndefinedError (compared by class NAME with the real one)."""


class DocSilent(BaseException):
    """The documentation does not define the outcome of this operation: the expression is discarded."""


class RefUndefined:
    """Reference undefined value, written from api.rst 'Undefined Types' / templates.rst 'Variables'."""

    __slots__ = ("name", "strict")

    def __init__(self, name=None, strict=False):
        self.name = name
        self.strict = strict

    def _fail(self, *a, **k):
        raise UndefinedError(f"{self.name!r} is undefined")

    def _silent_or_fail(self, *a, **k):
        if self.strict:
            self._fail()
        raise DocSilent("comparison/hash/len of default Undefined")

    # allowed on the default type
    def __str__(self):
        if self.strict:
            self._fail()
        return ""

    def __iter__(self):
        if self.strict:
            self._fail()
        return iter(())

    def __bool__(self):
        if self.strict:
            self._fail()
        return False

    def __repr__(self):
        return "RefStrictUndefined" if self.strict else "RefUndefined"

    def __getattr__(self, name):
        if name[:2] == "__":
            raise AttributeError(name)
        self._fail()

    __eq__ = __ne__ = __hash__ = __len__ = _silent_or_fail
    __add__ = __radd__ = __sub__ = __rsub__ = __mul__ = __rmul__ = _fail
    __truediv__ = __rtruediv__ = __floordiv__ = __rfloordiv__ = __mod__ = __rmod__ = _fail
    __pow__ = __rpow__ = __neg__ = __pos__ = __abs__ = __int__ = __float__ = __index__ = _fail
    __lt__ = __le__ = __gt__ = __ge__ = __call__ = __getitem__ = __complex__ = _fail


def is_undef(v):
    return isinstance(v, RefUndefined)


# ---------------------------------------------------------------------------------------------------------
# fixed data context
# ---------------------------------------------------------------------------------------------------------

class Obj:
    """attributes AND items; attribute and item of the same name differ."""

    def __init__(self):
        self.x = "attr-x"
        self.y = "attr-y"
        self.only_attr = "oa"

    _items = {"x": "item-x", "z": "item-z", "only_item": "oi", "y": "item-y", 0: "zero"}

    def __getitem__(self, key):
        return self._items[key]

    def m(self, a, b=7):
        return ["m", a, b]

    def __eq__(self, other):
        return type(other) is Obj and self.__dict__ == other.__dict__

    __hash__ = None

    def __repr__(self):
        return "<Obj>"


class Prop:
    """attribute lookup raises AttributeError through a property; the item of the same name exists."""

    @property
    def bad(self):
        raise AttributeError("bad")

    ok = "attr-ok"

    def __getitem__(self, key):
        if key == "bad":
            return "item-bad"
        if key == "ok":
            return "item-ok"
        raise KeyError(key)

    def __eq__(self, other):
        return type(other) is Prop

    __hash__ = None

    def __repr__(self):
        return "<Prop>"


def f(*args, **kwargs):
    """records its arguments"""
    return ["f", list(args), [[k, v] for k, v in kwargs.items()]]


def h(a, b=5, *, cc=0):
    return ["h", a, b, cc]


GLOBALS = {"g": "global-g", "gonly": "global-only"}

INT_NAMES = {"i0": 0, "i1": 1, "i2": 2, "i3": 3, "i7": 7, "i10": 10, "n1": -1, "n2": -2}
FLOAT_NAMES = {"fl": 0.5, "f2": 2.0}
STR_NAMES = {"s": "hello", "t": "World", "e": "", "sp": "  pad ", "sa": "a", "sn": "3", "g": "data-g",
             "sv": "data-sv"}
BOOL_NAMES = {"bt": True, "bf": False}
UNDEF_NAMES = ["u", "u2"]


def make_data():
    """fresh, equal copy of the fixed context (real side and reference side never share mutable objects)"""
    dt = {}
    dt.update(INT_NAMES)
    dt.update(FLOAT_NAMES)
    dt.update(STR_NAMES)
    dt.update(BOOL_NAMES)
    dt.update({
        "l": [1, 2, 3], "l2": ["a", "b"], "le": [], "ls": [3, 1, 2],
        "tp": (1, 2),
        "d": {"a": 1, "b": 2, "items": "ITEM", "get": "GET", "x": "dx", 1: "one"},
        "de": {},
        "kw": {"p": 1, "q": 2},
        "nested": {"k": [10, 20], "o": Obj()},
        "o": Obj(), "p": Prop(), "nn": None, "mk": Markup("<b>"),
        "f": f, "h": h,
    })
    return dt


DATA_KEYS = sorted(make_data())


# ---------------------------------------------------------------------------------------------------------
# trees -> source text
# ---------------------------------------------------------------------------------------------------------
# node forms (json lists):
#   ["c", value, style]   ["n", name]   ["list", [..]]   ["tuple", [..]]   ["dict", [[k, v]..]]
#   ["neg", x] ["pos", x] ["not", x]    ["bin", op, l, r] (+ - * / // % ** ~)   ["and", l, r] ["or", l, r]
#   ["cmp", first, [[op, x]..]] (== != < <= > >= in notin)    ["cond", then, test, else|None]
#   ["attr", x, name] ["item", x, sub] ["slice", x, a|None, b|None, c|None]
#   ["call", fn, [args], [[k, v]..], dyn|None, dynkw|None, kw_first(0/1)]
#   ["filter", x, name, [args], [[k, v]..], spaced(0/1)]
#   ["test", x, name, [args], negated(0/1), parens(0/1)]
#   ["par", x]  redundant parentheses

P_COND, P_OR, P_AND, P_NOT, P_CMP, P_ADD, P_CAT, P_MUL, P_POW, P_FILT, P_UNARY, P_POST, P_ATOM = range(13)
_BIN_PREC = {"+": P_ADD, "-": P_ADD, "~": P_CAT, "*": P_MUL, "/": P_MUL, "//": P_MUL, "%": P_MUL, "**": P_POW}
_CMP_TXT = {"==": "==", "!=": "!=", "<": "<", "<=": "<=", ">": ">", ">=": ">=", "in": "in", "notin": "not in"}
BARE = "\x01"  # marks the end of a bare zero-argument test


def prec(n):
    t = n[0]
    if t == "c":
        v = n[1]
        if isinstance(v, (int, float)) and not isinstance(v, bool) and v < 0:
            raise ValueError("negative literal")
        return P_ATOM
    if t in ("n", "list", "tuple", "dict", "par"):
        return P_ATOM
    if t in ("neg", "pos"):
        return P_UNARY
    if t == "not":
        return P_NOT
    if t == "bin":
        return _BIN_PREC[n[1]]
    if t == "and":
        return P_AND
    if t == "or":
        return P_OR
    if t == "cmp":
        return P_CMP
    if t == "cond":
        return P_COND
    if t in ("attr", "item", "slice", "call"):
        return P_POST
    if t in ("filter", "test"):
        return P_FILT
    raise ValueError(t)


def _lit(n):
    v, style = n[1], n[2]
    if v is None:
        return "None" if style else "none"
    if v is True:
        return "True" if style else "true"
    if v is False:
        return "False" if style else "false"
    if isinstance(v, str):
        q = '"' if style else "'"
        assert q not in v and "\\" not in v and "'" not in v and '"' not in v
        return q + v + q
    return repr(v)


def _args(args, kwargs, dyn=None, dynkw=None, kw_first=0):
    pos = [_s(a, P_COND) for a in args]
    kws = [k + "=" + _s(v, P_COND) for k, v in kwargs]
    star = ["*" + _s(dyn, P_COND)] if dyn is not None else []
    sstar = ["**" + _s(dynkw, P_COND)] if dynkw is not None else []
    mid = kws + star if kw_first else star + kws
    return "(" + ", ".join(pos + mid + sstar) + ")"


def _s(n, minprec):
    txt = _r(n)
    if prec(n) < minprec:
        return "(" + txt + ")"
    return txt


def _r(n):
    t = n[0]
    if t == "c":
        return _lit(n)
    if t == "n":
        return n[1]
    if t == "par":
        return "(" + _s(n[1], P_COND) + ")"
    if t == "list":
        return "[" + ", ".join(_s(x, P_COND) for x in n[1]) + "]"
    if t == "tuple":
        items = [_s(x, P_COND) for x in n[1]]
        if len(items) == 1:
            return "(" + items[0] + ",)"
        return "(" + ", ".join(items) + ")"
    if t == "dict":
        return "{" + ", ".join(_s(k, P_COND) + ": " + _s(v, P_COND) for k, v in n[1]) + "}"
    if t in ("neg", "pos"):
        if NEG_POW_PYTHON_LIKE and n[1][0] == "bin" and n[1][1] == "**":
            inner = _r(n[1])  # Python reading: -a ** b is -(a ** b)
        else:
            inner = _s(n[1], P_UNARY)
        sign = "-" if t == "neg" else "+"
        return sign + (" " if inner[:1] in "+-" else "") + inner
    if t == "not":
        return "not " + _s(n[1], P_NOT)
    if t == "bin":
        p = _BIN_PREC[n[1]]
        if n[1] == "**":
            # left associative (D2); operands are filter-level expressions, unary binds tighter (D4)
            left_min = P_POW
            if NEG_POW_PYTHON_LIKE and n[2][0] in ("neg", "pos"):
                left_min = P_ATOM  # Python reading: (-a) ** b needs parentheses
            return _s(n[2], left_min) + " ** " + _s(n[3], P_FILT)
        return _s(n[2], p) + " " + n[1] + " " + _s(n[3], p + 1)
    if t == "and":
        return _s(n[1], P_AND) + " and " + _s(n[2], P_NOT)
    if t == "or":
        return _s(n[1], P_OR) + " or " + _s(n[2], P_AND)
    if t == "cmp":
        out = _s(n[1], P_ADD)
        for op, x in n[2]:
            out += " " + _CMP_TXT[op] + " " + _s(x, P_ADD)
        return out
    if t == "cond":
        out = _s(n[1], P_OR) + " if " + _s(n[2], P_OR)
        if n[3] is not None:
            out += " else " + _s(n[3], P_COND)
        return out
    if t == "attr":
        base = n[1]
        if base[0] == "c" and isinstance(base[1], (int, float)) and not isinstance(base[1], bool):
            return "(" + _r(base) + ")." + n[2]
        return _s(base, P_POST) + "." + n[2]
    if t == "item":
        return _s(n[1], P_POST) + "[" + _s(n[2], P_COND) + "]"
    if t == "slice":
        parts = ["" if x is None else _s(x, P_COND) for x in n[2:5]]
        if n[4] is None:
            return _s(n[1], P_POST) + "[" + parts[0] + ":" + parts[1] + "]"
        return _s(n[1], P_POST) + "[" + ":".join(parts) + "]"
    if t == "call":
        return _s(n[1], P_POST) + _args(n[2], n[3], n[4], n[5], n[6])
    if t == "filter":
        pipe = " | " if n[5] else "|"
        out = _s(n[1], P_FILT) + pipe + n[2]
        if n[3] or n[4]:
            out += _args(n[3], n[4])
        return out
    if t == "test":
        operand = n[1]
        if operand[0] == "test":
            left = "(" + _r(operand) + ")"
        else:
            left = _s(operand, P_FILT)
        out = left + " is " + ("not " if n[4] else "") + n[2]
        args = n[3]
        if not args:
            return out + ("()" if n[5] else BARE)
        if len(args) == 1 and not n[5] and prec(args[0]) >= P_POST:
            a = _r(args[0])
            if not a.startswith("("):
                return out + " " + a
        return out + _args(args, [])
    raise ValueError(t)


_BARE_FOLLOW = re.compile(r"\x01(\s*)(if|in|not)\b")


def to_source(tree, bare_tests_ok=False):
    """Jinja source of the tree with minimal parentheses according to the documented precedence."""
    txt = _r(tree)
    if not bare_tests_ok:
        txt = _BARE_FOLLOW.sub(lambda m: "()" + m.group(1) + m.group(2), txt)
    txt = txt.replace(BARE, "")
    while "}}" in txt:
        txt = txt.replace("}}", "} }")
    return txt


def names_of(tree):
    out = set()

    def walk(n):
        if isinstance(n, list):
            if n and n[0] == "n" and len(n) == 2 and isinstance(n[1], str):
                out.add(n[1])
                return
            start = 2 if n and n[0] == "c" else 0
            for x in n[start:]:
                walk(x)
    walk(tree)
    return out


# ---------------------------------------------------------------------------------------------------------
# reference evaluator
# ---------------------------------------------------------------------------------------------------------

BIG_INT = 10 ** 40
BIG_LEN = 20000


class Cx:
    def __init__(self, data, flags):
        self.data = data
        self.strict = bool(flags.get("strict"))
        self.globals = GLOBALS

    def undef(self, name=None):
        return RefUndefined(name, self.strict)


def _small(v):
    if isinstance(v, int) and not isinstance(v, bool):
        if abs(v) > BIG_INT:
            raise DocSilent("too big")
    elif isinstance(v, (str, list, tuple)):
        if len(v) > BIG_LEN:
            raise DocSilent("too long")
    elif isinstance(v, float):
        if v != v or v in (float("inf"), float("-inf")):
            raise DocSilent("non-finite float")
    return v


def to_str(v):
    """'printed': str() of the value; the default Undefined prints as '', the strict one raises"""
    if not printable(v):
        raise DocSilent("str() of a value whose text contains a memory address / nested undefined")
    return str(v)


def truth(v):
    return bool(v)


def ref_getattr(cx, obj, name):
    # templates.rst 'Implementation': foo.bar -> getattr(foo, 'bar'), then foo['bar'], then undefined
    if is_undef(obj):
        obj._fail()
    try:
        return getattr(obj, name)
    except AttributeError:
        pass
    try:
        return obj[name]
    except (LookupError, TypeError):
        return cx.undef(name)


def ref_getitem(cx, obj, key):
    # foo['bar'] -> foo['bar'], then getattr(foo, 'bar'), then undefined
    if is_undef(obj):
        obj._fail()
    if is_undef(key):
        raise DocSilent("subscript with an undefined key")
    try:
        return obj[key]
    except (LookupError, TypeError):
        pass
    if isinstance(key, str):
        try:
            return getattr(obj, key)
        except AttributeError:
            pass
    return cx.undef(key)


def _binop(op, a, b):
    if op == "+":
        return a + b
    if op == "-":
        return a - b
    if op == "*":
        if isinstance(a, int) and isinstance(b, (str, list, tuple)) and a * len(b) > BIG_LEN:
            raise DocSilent("too long")
        if isinstance(b, int) and isinstance(a, (str, list, tuple)) and b * len(a) > BIG_LEN:
            raise DocSilent("too long")
        return a * b
    if op == "/":
        return a / b
    if op == "//":
        return a // b
    if op == "%":
        if isinstance(a, str):  # printf-style formatting prints the arguments
            for x in (b if isinstance(b, tuple) else (b,)):
                if not printable(x):
                    raise DocSilent("formatting a value whose text is not defined")
        return a % b
    if op == "**":
        if isinstance(a, (int, float)) and isinstance(b, (int, float)) and not isinstance(a, RefUndefined):
            if abs(b) > 200 and abs(a) > 1:
                raise DocSilent("too big")
        return a ** b
    raise ValueError(op)


def _cmpop(op, a, b):
    if op == "==":
        return a == b
    if op == "!=":
        return a != b
    if op == "<":
        return a < b
    if op == "<=":
        return a <= b
    if op == ">":
        return a > b
    if op == ">=":
        return a >= b
    if op in ("in", "notin"):
        if is_undef(a):
            raise DocSilent("containment of an undefined value")
        r = a in b  # default Undefined container: iterated -> nothing -> False; strict raises
        return r if op == "in" else not r
    raise ValueError(op)


# --- filters (doc-strings of the builtin filters; documented signatures) -------------------------------

def _plain_str(v):
    if not isinstance(v, str) or isinstance(v, Markup):
        raise DocSilent("string filter on non-str")
    return v


def F_abs(cx, v):
    return abs(v)


def F_length(cx, v):
    return len(v)  # RefUndefined.__len__: DocSilent / strict raises


def F_upper(cx, v):
    return _plain_str(v).upper()


def F_lower(cx, v):
    return _plain_str(v).lower()


def F_capitalize(cx, v):
    v = _plain_str(v)
    return v[:1].upper() + v[1:].lower()


def F_trim(cx, v, chars=None):
    if chars is not None:
        _plain_str(chars)
    return _plain_str(v).strip(chars)


def F_replace(cx, v, old, new, count=None):
    v = _plain_str(v)
    _plain_str(old)
    _plain_str(new)
    if count is None:
        return v.replace(old, new)
    if not isinstance(count, int) or isinstance(count, bool):
        raise DocSilent("replace count")
    return v.replace(old, new, count)


def F_first(cx, v):
    for x in v:
        return x
    return cx.undef("first")


def F_last(cx, v):
    if not isinstance(v, (str, list, tuple)):
        raise DocSilent("last on non-sequence")
    if len(v):
        return v[-1]
    return cx.undef("last")


def F_default(cx, v, default_value="", boolean=False):
    if is_undef(v) or (truth(boolean) and not truth(v)):
        return default_value
    return v


def F_int(cx, v, default=0, base=10):
    if is_undef(v):
        raise DocSilent("int of undefined")
    if isinstance(v, str):
        if isinstance(v, Markup) or re.search(r"[.eE_\s]", v) and re.search(r"\d", v):
            raise DocSilent("int of fancy string")
        try:
            return int(v, base)
        except ValueError:
            if base != 10:
                raise DocSilent("int with a base on a string that is not a number in that base")
            return default
    if isinstance(v, (bool, int, float)):
        return int(v)
    if v is None or isinstance(v, (list, tuple, dict)):
        return default
    raise DocSilent("int of object")


def F_string(cx, v):
    if isinstance(v, str):
        return v
    return to_str(v)


def F_list(cx, v):
    return list(v)


def F_join(cx, v, d="", attribute=None):
    if attribute is not None:
        raise DocSilent("join attribute")
    if is_undef(d) or isinstance(d, Markup) or not isinstance(d, str):
        raise DocSilent("join separator")
    items = list(v)
    for x in items:
        if isinstance(x, Markup) or is_undef(x) or hasattr(x, "__html__"):
            raise DocSilent("join of markup/undefined")
    return d.join(to_str(x) for x in items)


def F_reverse(cx, v):
    if isinstance(v, Markup):
        raise DocSilent("reverse markup")
    if isinstance(v, str):
        return v[::-1]
    if isinstance(v, (list, tuple)):
        return reversed(v)
    raise DocSilent("reverse on non-sequence")


def F_sum(cx, v, attribute=None, start=0):
    if attribute is not None:
        raise DocSilent("sum attribute")
    total = start
    for x in v:
        total = total + x
    return total


def _numbers_only(v):
    if is_undef(v) or not isinstance(v, (list, tuple)):
        raise DocSilent("min/max on non-sequence")
    for x in v:
        if isinstance(x, bool) or not isinstance(x, (int, float)):
            raise DocSilent("min/max of non-numbers")
    return v


def F_min(cx, v, case_sensitive=False, attribute=None):
    v = _numbers_only(v)
    if attribute is not None:
        raise DocSilent("min attribute")
    return min(v) if v else cx.undef("min")


def F_max(cx, v, case_sensitive=False, attribute=None):
    v = _numbers_only(v)
    if attribute is not None:
        raise DocSilent("max attribute")
    return max(v) if v else cx.undef("max")


FILTERS = {"abs": F_abs, "length": F_length, "count": F_length, "upper": F_upper, "lower": F_lower,
           "capitalize": F_capitalize, "trim": F_trim, "replace": F_replace, "first": F_first, "last": F_last,
           "default": F_default, "d": F_default, "int": F_int, "string": F_string, "list": F_list,
           "join": F_join, "reverse": F_reverse, "sum": F_sum, "min": F_min, "max": F_max}
UNDEF_OK_FILTERS = {"default", "d", "string", "list", "join", "first", "sum", "length", "count"}


# --- tests (doc-strings of the builtin tests) ----------------------------------------------------------

def _str_only(v):
    if not isinstance(v, str):
        raise DocSilent("lower/upper test on non-str")
    return v


def _builtin_only(v):
    if isinstance(v, (Obj, Prop)):
        raise DocSilent("sequence test on user object")
    return v


def _iterable(v):
    try:
        iter(v)
    except TypeError:
        return False
    return True


TESTS = {
    "none": lambda v: v is None,
    "number": lambda v: isinstance(v, numbers.Number),
    "string": lambda v: isinstance(v, str),
    "even": lambda v: v % 2 == 0,
    "odd": lambda v: v % 2 == 1,
    "divisibleby": lambda v, num: v % num == 0,
    "sameas": lambda v, other: v is other,
    "in": lambda v, seq: v in seq,
    "mapping": lambda v: isinstance(v, collections.abc.Mapping),
    "sequence": lambda v: _iterable(_builtin_only(v)),
    "iterable": _iterable,
    "callable": callable,
    "true": lambda v: v is True,
    "false": lambda v: v is False,
    "lower": lambda v: _str_only(v).islower(),
    "upper": lambda v: _str_only(v).isupper(),
    "eq": lambda a, b: a == b,
    "ne": lambda a, b: a != b,
    "lt": lambda a, b: a < b,
    "gt": lambda a, b: a > b,
    "le": lambda a, b: a <= b,
    "ge": lambda a, b: a >= b,
}


def _sameas_operand(n):
    while n[0] == "par":
        n = n[1]
    return n[0] == "n" or (n[0] == "c" and (n[1] is None or isinstance(n[1], bool)))


def ev(n, cx):
    t = n[0]
    if t == "c":
        return n[1]
    if t == "n":
        name = n[1]
        if name in cx.data:
            return cx.data[name]
        if name in cx.globals:
            return cx.globals[name]
        return cx.undef(name)
    if t == "par":
        return ev(n[1], cx)
    if t == "list":
        return [ev(x, cx) for x in n[1]]
    if t == "tuple":
        return tuple([ev(x, cx) for x in n[1]])
    if t == "dict":
        out = {}
        for k, v in n[1]:
            kv = ev(k, cx)
            out[kv] = ev(v, cx)
        return out
    if t == "neg":
        return -ev(n[1], cx)
    if t == "pos":
        return +ev(n[1], cx)
    if t == "not":
        return not truth(ev(n[1], cx))
    if t == "bin":
        a = ev(n[2], cx)
        b = ev(n[3], cx)
        if n[1] == "~":
            return _small(to_str(a) + to_str(b))
        return _small(_binop(n[1], a, b))
    if t == "and":
        a = ev(n[1], cx)
        return ev(n[2], cx) if truth(a) else a
    if t == "or":
        a = ev(n[1], cx)
        return a if truth(a) else ev(n[2], cx)
    if t == "cmp":
        left = ev(n[1], cx)
        res = True
        for op, x in n[2]:
            right = ev(x, cx)
            res = _cmpop(op, left, right)
            if not truth(res):
                return res
            left = right
        return res
    if t == "cond":
        if truth(ev(n[2], cx)):
            return ev(n[1], cx)
        if n[3] is None:
            return RefUndefined(None, False)  # base Undefined regardless of the environment (D7)
        return ev(n[3], cx)
    if t == "attr":
        return ref_getattr(cx, ev(n[1], cx), n[2])
    if t == "item":
        obj = ev(n[1], cx)
        return ref_getitem(cx, obj, ev(n[2], cx))
    if t == "slice":
        obj = ev(n[1], cx)
        parts = [None if x is None else ev(x, cx) for x in n[2:5]]
        if is_undef(obj):
            obj._fail()
        if not isinstance(obj, (str, list, tuple)) or isinstance(obj, Markup):
            raise DocSilent("slice of non-sequence")
        for p in parts:
            if p is not None and (isinstance(p, bool) or not isinstance(p, int)):
                raise DocSilent("slice bound")
        return obj[slice(*parts)]
    if t == "call":
        fn = ev(n[1], cx)
        args = [ev(x, cx) for x in n[2]]
        kwargs = {}
        order = []
        # source order of evaluation: positional, then (*args, keywords) in the written order, then **kwargs
        dyn = None
        if n[6]:
            kw = [(k, ev(v, cx)) for k, v in n[3]]
            if n[4] is not None:
                dyn = ev(n[4], cx)
        else:
            if n[4] is not None:
                dyn = ev(n[4], cx)
            kw = [(k, ev(v, cx)) for k, v in n[3]]
        dynkw = ev(n[5], cx) if n[5] is not None else None
        if is_undef(fn):
            fn._fail()
        if dyn is not None:
            if is_undef(dyn):
                raise DocSilent("*undefined")
            args = args + list(dyn)
        for k, v in kw:
            kwargs[k] = v
            order.append(k)
        if dynkw is not None:
            if is_undef(dynkw) or not isinstance(dynkw, dict):
                raise DocSilent("**non-dict")
            for k, v in dynkw.items():
                if k in kwargs:
                    raise TypeError("multiple values for keyword argument")
                kwargs[k] = v
        if isinstance(getattr(fn, "__self__", None), str):  # str.format & co print their arguments
            for x in list(args) + list(kwargs.values()):
                if not printable(x):
                    raise DocSilent("formatting a value whose text is not defined")
        return _small(fn(*args, **kwargs))
    if t == "filter":
        v = ev(n[1], cx)
        args = [ev(x, cx) for x in n[3]]
        kwargs = {k: ev(x, cx) for k, x in n[4]}
        name = n[2]
        if is_undef(v) and name not in UNDEF_OK_FILTERS:
            raise DocSilent("filter on undefined")
        return _small(FILTERS[name](cx, v, *args, **kwargs))
    if t == "test":
        v = ev(n[1], cx)
        args = [ev(x, cx) for x in n[3]]
        name = n[2]
        if name == "defined":
            if args:
                raise DocSilent("defined with arguments")
            r = not is_undef(v)
        elif name == "undefined":
            if args:
                raise DocSilent("undefined with arguments")
            r = is_undef(v)
        else:
            if is_undef(v) or any(is_undef(a) for a in args):
                raise DocSilent("test on undefined")
            if name == "sameas" and not (_sameas_operand(n[1]) and len(n[3]) == 1 and _sameas_operand(n[3][0])):
                raise DocSilent("identity of computed values")
            r = TESTS[name](v, *args)
        return (not r) if n[4] else r
    raise ValueError(t)


def ref_eval(src_or_tree, data=None, env_flags=None):
    """Reference value of an expression TREE (json list, or its json text) over `data`.

    env_flags: {"strict": bool}.  Raises the documented exception class (UndefinedError is this module's own class
    of the same name) or DocSilent when the documentation does not define the outcome.
    """
    tree = json.loads(src_or_tree) if isinstance(src_or_tree, str) else src_or_tree
    return ev(tree, Cx(make_data() if data is None else data, env_flags or {}))


def ref_print(v):
    """what '{{ expr }}' prints (autoescape off, no finalize): str() of the value"""
    return to_str(v)


def printable(v, top=True):
    """is str(v) well defined by the documentation / free of memory addresses?"""
    if is_undef(v):
        return top
    if v is None or isinstance(v, (bool, int, float, str, Obj, Prop)):
        return True
    if isinstance(v, (list, tuple)):
        return all(printable(x, False) for x in v)
    if isinstance(v, dict):
        return all(printable(k, False) and printable(x, False) for k, x in v.items())
    return False


# ---------------------------------------------------------------------------------------------------------
# generator
# ---------------------------------------------------------------------------------------------------------

MAX_DEPTH = 4


def C(v, style=0):
    return ["c", v, style]


def N(name):
    return ["n", name]


LOOKUP_ATTR = [("d", "a"), ("d", "items"), ("d", "get"), ("d", "x"), ("d", "zz"), ("d", "keys"), ("o", "x"),
               ("o", "y"), ("o", "z"), ("o", "only_attr"), ("o", "only_item"), ("o", "missing"), ("o", "m"),
               ("p", "bad"), ("p", "ok"), ("p", "zz"), ("nn", "x"), ("i1", "x"), ("i1", "real"), ("s", "upper"),
               ("s", "zz"), ("l", "zz"), ("l", "index"), ("u", "x"), ("nested", "k"), ("nested", "o"),
               ("kw", "p"), ("de", "a"), ("tp", "count"), ("mk", "zz")]
LOOKUP_ITEM = [("d", "a"), ("d", "items"), ("d", "get"), ("d", "x"), ("d", "zz"), ("d", 1), ("d", 2), ("o", "x"),
               ("o", "y"), ("o", "z"), ("o", "only_attr"), ("o", "only_item"), ("o", "missing"), ("o", 0), ("o", 5),
               ("o", "m"), ("p", "bad"), ("p", "ok"), ("p", "zz"), ("nn", "x"), ("i1", 0), ("i1", "real"),
               ("s", 0), ("s", 9), ("s", "upper"), ("l", 0), ("l", 5), ("l", "a"), ("l", "index"), ("tp", 1),
               ("u", 0), ("u", "x"), ("de", "a"), ("nested", "k"), ("kw", "q"), ("d", "keys")]

NOARG_TESTS = ["defined", "undefined", "none", "number", "string", "mapping", "sequence", "iterable", "callable",
               "true", "false", "even", "odd", "lower", "upper"]
ARG_TESTS = ["divisibleby", "sameas", "in", "eq", "ne", "lt", "gt", "le", "ge"]
CMP_OPS = ["==", "!=", "<", "<=", ">", ">="]
STR_CONSTS = ["a", "b", "hello", "World", "x y", "", "3", "l", "<", "ab"]


class Gen:
    def __init__(self, rng):
        self.r = rng

    # -- helpers
    def ch(self, p):
        return self.r.random() < p

    def pick(self, xs):
        return xs[self.r.randrange(len(xs))]

    def wpick(self, pairs):
        total = sum(w for w, _ in pairs)
        x = self.r.random() * total
        for w, v in pairs:
            x -= w
            if x < 0:
                return v
        return pairs[-1][1]

    def style(self):
        return self.r.randrange(2)

    # -- leaves
    def int_leaf(self):
        if self.ch(0.55):
            return N(self.pick(list(INT_NAMES)))
        return C(self.pick([0, 1, 2, 3, 4, 5, 7, 10]))

    def small_int_leaf(self):
        return self.pick([C(0), C(1), C(2), C(3), N("i0"), N("i1"), N("i2"), N("i3"), N("n1")])

    def exp_leaf(self):
        k = self.r.random()
        if k < 0.08:
            return ["neg", C(1)]
        if k < 0.12:
            return N("n1")
        return self.pick([C(0), C(1), C(2), C(2), C(3), N("i2"), N("i3"), N("i1")])

    def float_leaf(self):
        return self.pick([C(0.5), C(2.0), N("fl"), N("f2")])

    def str_leaf(self):
        if self.ch(0.5):
            return N(self.pick(list(STR_NAMES) + ["gonly"]))
        return C(self.pick(STR_CONSTS), self.style())

    def bool_leaf(self):
        return self.pick([C(True, 0), C(False, 0), C(True, 1), C(False, 1), N("bt"), N("bf")])

    def list_leaf(self):
        return N(self.pick(["l", "l2", "le", "ls", "l", "ls"]))

    def none_leaf(self):
        return self.pick([C(None, 0), C(None, 1), N("nn")])

    def undef_leaf(self):
        return N(self.pick(UNDEF_NAMES))

    def any_leaf(self):
        return self.wpick([(4, self.int_leaf), (1, self.float_leaf), (4, self.str_leaf), (2, self.bool_leaf),
                           (2, self.list_leaf), (1, self.none_leaf), (1.5, self.undef_leaf),
                           (1, lambda: N(self.pick(["d", "tp", "o", "mk", "de", "f", "kw", "p"])))])()

    def maybe_par(self, n):
        return ["par", n] if self.ch(0.06) else n

    # -- generic pieces
    def cond(self, sub, d, else_less=False):
        then = sub(d - 1)
        test = self.g_bool(d - 1) if self.ch(0.7) else self.g_any(d - 1)
        if else_less:
            return ["cond", then, test, None]
        return ["cond", then, test, sub(d - 1)]

    def andor(self, sub, d):
        return [self.pick(["and", "or"]), sub(d - 1), sub(d - 1)]

    def filt(self, x, name, args=(), kwargs=()):
        return ["filter", x, name, list(args), [list(p) for p in kwargs], 1 if self.ch(0.15) else 0]

    def test(self, x, name, args=(), neg=None, parens=None):
        if neg is None:
            neg = 1 if self.ch(0.3) else 0
        if parens is None:
            parens = 1 if self.ch(0.35) else 0
        return ["test", x, name, list(args), neg, parens]

    # -- ints
    def g_int(self, d):
        if d <= 0 or self.ch(0.2):
            return self.int_leaf()
        k = self.wpick([(40, "arith"), (12, "pow"), (9, "unary"), (10, "filter"), (6, "item"), (5, "method"),
                        (6, "cond"), (5, "andor"), (4, "par"), (2, "any")])
        if k == "arith":
            return ["bin", self.pick(["+", "-", "*", "//", "%", "+", "-", "*"]), self.g_int(d - 1), self.g_int(d - 1)]
        if k == "pow":
            return self.g_pow(d)
        if k == "unary":
            return [self.pick(["neg", "neg", "pos"]), self.g_int(d - 1)]
        if k == "filter":
            j = self.r.randrange(8)
            if j == 0:
                return self.filt(self.g_int(d - 1), "abs")
            if j == 1:
                x = self.pick([N("sn"), C("12"), C("x"), self.float_leaf(), N("nn"), C("11")])
                args = self.pick([[], [], [C(7)], [C(0), C(2)]])
                if self.ch(0.2):
                    return self.filt(x, "int", [], [["default", C(9)]])
                return self.filt(x, "int", args)
            if j == 2:
                return self.filt(self.g_str(d - 1) if self.ch(0.5) else self.g_list(d - 1), self.pick(["length", "count"]))
            if j == 3:
                if self.ch(0.4):
                    return self.filt(self.g_intlist(d - 1), "sum", [], [["start", self.int_leaf()]])
                return self.filt(self.g_intlist(d - 1), "sum")
            if j == 4:
                return self.filt(self.g_intlist(d - 1), self.pick(["min", "max", "first", "last"]))
            if j == 5:
                return self.filt(self.pick([N("u"), N("nn"), self.int_leaf(), N("i0"), C(0), C("", 0), C(None)]), self.pick(["default", "d"]),
                                 self.pick([[self.int_leaf()], [self.int_leaf(), self.bool_leaf()]]))
            if j == 6:
                return self.filt(self.pick([N("u"), N("i0"), N("e")]), "default", [self.int_leaf()],
                                 [["boolean", self.bool_leaf()]])
            return self.filt(["neg", self.int_leaf()], "abs")
        if k == "item":
            j = self.r.randrange(6)
            if j == 0:
                return ["item", N(self.pick(["l", "ls", "tp"])), self.small_int_leaf()]
            if j == 1:
                return ["item", N("l"), self.g_int(d - 1)]
            if j == 2:
                return ["attr", N("d"), self.pick(["a", "b"])]
            if j == 3:
                return ["item", N("d"), C(self.pick(["a", "b"]), self.style())]
            if j == 4:
                return ["item", ["attr", N("nested"), "k"], self.small_int_leaf()]
            return ["item", ["list", [self.g_int(d - 1), self.int_leaf()]], self.small_int_leaf()]
        if k == "method":
            j = self.r.randrange(5)
            if j == 0:
                return ["call", ["attr", N(self.pick(["l", "ls"])), "index"], [self.small_int_leaf()], [], None, None, 0]
            if j == 1:
                return ["call", ["attr", self.str_leaf(), "count"], [C("l")], [], None, None, 0]
            if j == 2:
                return ["call", ["attr", N("d"), "get"], [C(self.pick(["a", "zz"])), self.int_leaf()], [], None, None, 0]
            if j == 3:
                return ["call", ["attr", N("tp"), "count"], [self.small_int_leaf()], [], None, None, 0]
            return ["call", ["attr", self.str_leaf(), "find"], [C(self.pick(["l", "o", "z"]))], [], None, None, 0]
        if k == "cond":
            return self.cond(self.g_int, d)
        if k == "andor":
            return self.andor(self.g_int, d)
        if k == "par":
            return ["par", self.g_int(d - 1)]
        return self.g_any(d - 1)

    def g_pow(self, d):
        k = self.r.randrange(10)
        if k < 3:
            base = self.small_int_leaf() if self.ch(0.5) else self.int_leaf()
        elif k < 5:
            base = ["bin", "**", self.small_int_leaf(), self.exp_leaf()]  # a ** b ** c
        elif k < 7:
            base = [self.pick(["neg", "neg", "pos"]), self.small_int_leaf()]  # -a ** b
        elif k < 8:
            base = ["bin", self.pick(["+", "-", "*"]), self.small_int_leaf(), self.small_int_leaf()]
        elif k < 9:
            base = self.filt(self.pick([N("n2"), N("n1"), ["neg", C(2)]]), "abs")
        else:
            base = self.g_int(min(d - 1, 1))
            if _has_pow(base):
                base = self.small_int_leaf()
        e = self.exp_leaf()
        j = self.r.random()
        if j < 0.08:
            e = ["bin", "**", self.pick([C(2), C(1), N("i2")]), self.pick([C(0), C(1), C(2)])]  # a ** (b ** c)
        elif j < 0.14:
            e = self.filt(self.exp_leaf(), "abs")  # a ** b|abs
        elif j < 0.2:
            e = ["bin", self.pick(["+", "-", "*"]), self.pick([C(0), C(1), C(2)]), self.pick([C(0), C(1)])]
        return ["bin", "**", base, e]

    def g_num(self, d):
        if d <= 0 or self.ch(0.65):
            return self.g_int(d)
        k = self.r.randrange(5)
        if k == 0:
            return self.float_leaf()
        if k == 1:
            return ["bin", "/", self.g_int(d - 1), self.g_int(d - 1)]
        if k == 2:
            return ["bin", self.pick(["*", "+", "-", "//", "%"]), self.g_int(d - 1), self.float_leaf()]
        if k == 3:
            return ["bin", self.pick(["*", "+", "-", "/"]), self.float_leaf(), self.g_int(d - 1)]
        return ["neg", self.float_leaf()]

    # -- strings
    def tilde_operand(self, d):
        return self.wpick([(4, lambda: self.g_str(d)), (4, lambda: self.g_int(d)), (1, lambda: self.g_num(d)),
                           (1, lambda: self.g_bool(d)), (0.6, self.undef_leaf), (0.5, self.none_leaf),
                           (0.4, lambda: N("mk")), (0.5, lambda: self.g_list(d))])()

    def g_str(self, d):
        if d <= 0 or self.ch(0.2):
            return self.str_leaf()
        k = self.wpick([(30, "concat"), (9, "add"), (6, "mul"), (4, "fmt"), (16, "filter"), (8, "method"),
                        (9, "item"), (5, "cond"), (4, "andor"), (3, "par"), (2, "any")])
        if k == "concat":
            return ["bin", "~", self.tilde_operand(d - 1), self.tilde_operand(d - 1)]
        if k == "add":
            return ["bin", "+", self.g_str(d - 1), self.g_str(d - 1)]
        if k == "mul":
            if self.ch(0.5):
                return ["bin", "*", self.g_str(d - 1), self.small_int_leaf()]
            return ["bin", "*", self.small_int_leaf(), self.g_str(d - 1)]
        if k == "fmt":
            if self.ch(0.5):
                return ["bin", "%", C("%s-%s", self.style()), ["tuple", [self.g_int(d - 1), self.str_leaf()]]]
            return ["bin", "%", C("<%s>", self.style()), self.g_int(d - 1)]
        if k == "filter":
            j = self.r.randrange(11)
            x = self.g_str(d - 1) if self.ch(0.7) else C(self.pick(STR_CONSTS), self.style())
            if j == 0:
                return self.filt(x, self.pick(["upper", "lower", "capitalize"]))
            if j == 1:
                return self.filt(x, "trim") if self.ch(0.6) else self.filt(x, "trim", [C(self.pick(["h", "ol", " "]))])
            if j == 2:
                a, b = self.pick([("l", "L"), ("o", "0"), ("a", "bb"), ("", "-")])
                if a == "":
                    a = "l"
                k3 = self.r.randrange(3)
                if k3 == 0:
                    return self.filt(x, "replace", [C(a), C(b)])
                if k3 == 1:
                    return self.filt(x, "replace", [C(a), C(b), self.pick([C(1), C(0), N("i1")])])
                return self.filt(x, "replace", [C(a)], [["new", C(b)]])
            if j == 3:
                return self.filt(self.g_any(d - 1), "string")
            if j == 4:
                src = self.g_list(d - 1) if self.ch(0.7) else self.pick([N("tp"), N("s"), N("u")])
                k3 = self.r.randrange(3)
                if k3 == 0:
                    return self.filt(src, "join")
                if k3 == 1:
                    return self.filt(src, "join", [C(self.pick([", ", "-", "|"]))])
                return self.filt(src, "join", [], [["d", C("+")]])
            if j == 5:
                return self.filt(x, "reverse")
            if j == 6:
                return self.filt(self.pick([N("u"), N("u2"), N("e"), x, ["attr", N("d"), "zz"]]), self.pick(["default", "d"]),
                                 self.pick([[self.str_leaf()], [self.str_leaf(), self.bool_leaf()], []]))
            if j == 7:
                return self.filt(self.pick([N("l2"), x, N("le")]), self.pick(["first", "last"]))
            if j == 8:
                return self.filt(self.filt(x, "upper"), self.pick(["lower", "trim", "reverse", "capitalize"]))
            if j == 9:
                return self.filt(self.pick([N("e"), N("u"), x]), "default", [self.str_leaf()], [["boolean", self.bool_leaf()]])
            return self.filt(self.g_int(d - 1), "string")
        if k == "method":
            j = self.r.randrange(6)
            x = self.g_str(d - 1)
            if j == 0:
                return ["call", ["attr", x, self.pick(["upper", "lower", "strip", "title", "swapcase"])], [], [], None, None, 0]
            if j == 1:
                return ["call", ["attr", x, "replace"], [C("l"), C("L")] + self.pick([[], [C(1)]]), [], None, None, 0]
            if j == 2:
                return ["call", ["attr", C("{}-{}", self.style()), "format"], [self.g_int(d - 1), self.str_leaf()], [], None, None, 0]
            if j == 3:
                return ["call", ["attr", C(self.pick(["-", ", "]), self.style()), "join"], [N("l2")], [], None, None, 0]
            if j == 4:
                return ["call", ["attr", C("{a}:{b}", self.style()), "format"], [], [["b", self.int_leaf()], ["a", self.str_leaf()]], None, None, 0]
            return ["call", ["attr", N("d"), "get"], [C(self.pick(["x", "zz", "items"])), self.str_leaf()], [], None, None, 0]
        if k == "item":
            j = self.r.randrange(8)
            if j == 0:
                return ["item", self.g_str(d - 1), self.small_int_leaf()]
            if j == 1:
                return self.g_slice(self.g_str(d - 1))
            if j == 2:
                b, a = self.pick([("d", "items"), ("d", "get"), ("d", "x"), ("o", "x"), ("o", "y"), ("o", "z"),
                                  ("o", "only_item"), ("o", "only_attr"), ("p", "bad"), ("p", "ok")])
                return ["item", N(b), C(a, self.style())]
            if j == 3:
                b, a = self.pick([("d", "x"), ("o", "x"), ("o", "y"), ("o", "z"), ("o", "only_item"),
                                  ("o", "only_attr"), ("p", "bad"), ("p", "ok")])
                return ["attr", N(b), a]
            if j == 4:
                return ["item", N("d"), self.pick([C(1), N("i1"), N("sa"), ["bin", "~", C("ite"), C("ms")]])]
            if j == 5:
                return ["attr", ["attr", N("nested"), "o"], self.pick(["x", "z", "y"])]
            if j == 6:
                return ["item", ["item", N("nested"), C("o")], C(self.pick(["x", "z", "y"]))]
            return ["item", N("l2"), self.small_int_leaf()]
        if k == "cond":
            return self.cond(self.g_str, d)
        if k == "andor":
            return self.andor(self.g_str, d)
        if k == "par":
            return ["par", self.g_str(d - 1)]
        return self.g_any(d - 1)

    def g_slice(self, x):
        def part():
            return self.pick([None, None, C(0), C(1), C(2), ["neg", C(1)], N("i1"), N("n1"), N("i2")])
        a, b = part(), part()
        c = self.pick([None, None, None, C(2), ["neg", C(1)], C(1), N("i2")])
        return ["slice", x, a, b, c]

    # -- lists
    def g_intlist(self, d):
        if d <= 0 or self.ch(0.4):
            return self.pick([N("l"), N("ls"), N("le"), N("tp"), N("l")])
        k = self.r.randrange(5)
        if k == 0:
            return ["list", [self.g_int(d - 1) for _ in range(self.r.randrange(4))]]
        if k == 1:
            return ["bin", "+", self.g_intlist(d - 1), ["list", [self.int_leaf()]]]
        if k == 2:
            return self.g_slice(self.g_intlist(d - 1))
        if k == 3:
            return ["tuple", [self.g_int(d - 1) for _ in range(self.r.randrange(3))]]
        return ["bin", "*", N("l"), self.pick([C(0), C(1), C(2)])]

    def g_list(self, d):
        if d <= 0 or self.ch(0.3):
            return self.list_leaf()
        k = self.r.randrange(11)
        if k == 0:
            return ["list", [self.g_any(d - 1) for _ in range(self.r.randrange(4))]]
        if k == 1:
            return ["bin", "+", self.g_list(d - 1), self.g_list(d - 1)]
        if k == 2:
            return self.g_slice(self.g_list(d - 1))
        if k == 3:
            return self.filt(self.pick([self.g_str(d - 1), N("tp"), N("d"), N("u"), N("kw")]), "list")
        if k == 4:
            return self.filt(self.filt(self.g_list(d - 1), "reverse"), "list")
        if k == 5:
            return ["call", ["attr", self.g_str(d - 1), "split"], [C(self.pick(["l", " ", "o"]))], [], None, None, 0]
        if k == 6:
            m = self.pick(["keys", "values", "items"])
            return self.filt(["call", ["attr", N(self.pick(["kw", "d", "de"])), m], [], [], None, None, 0], "list")
        if k == 7:
            return self.g_intlist(d)
        if k == 8:
            return self.g_call(d)
        if k == 9:
            return self.cond(self.g_list, d)
        return ["list", [self.g_str(d - 1), self.g_int(d - 1)]]

    # -- booleans
    def g_bool(self, d):
        if d <= 0 or self.ch(0.12):
            return self.bool_leaf()
        k = self.wpick([(30, "cmp"), (13, "in"), (14, "not"), (13, "andor"), (22, "test"), (4, "cond"), (3, "par")])
        if k == "cmp":
            j = self.r.random()
            sub = self.g_num if j < 0.75 else (self.g_str if j < 0.9 else self.g_any)
            nops = self.wpick([(6, 1), (3, 2), (1, 3)])
            ops = []
            for _ in range(nops):
                if self.ch(0.08):
                    ops.append([self.pick(["in", "notin"]), self.g_list(d - 1)])
                else:
                    ops.append([self.pick(CMP_OPS), sub(d - 1)])
            first = sub(d - 1)
            if self.ch(0.25):
                ops[0][1] = json.loads(json.dumps(first)) if self.ch(0.6) else ["par", json.loads(json.dumps(first))]
            return ["cmp", first, ops]
        if k == "in":
            op = self.pick(["in", "in", "notin"])
            j = self.r.randrange(5)
            if j == 0:
                return ["cmp", self.g_int(d - 1), [[op, self.g_intlist(d - 1)]]]
            if j == 1:
                return ["cmp", self.str_leaf(), [[op, self.g_str(d - 1)]]]
            if j == 2:
                return ["cmp", C(self.pick(["a", "items", "zz"]), self.style()), [[op, N(self.pick(["d", "kw", "u"]))]]]
            if j == 3:
                return ["cmp", self.g_any(d - 1), [[op, self.g_list(d - 1)]]]
            return ["cmp", self.g_int(d - 1), [[op, self.g_intlist(d - 1)], [self.pick(CMP_OPS), self.g_bool(d - 1)]]]
        if k == "not":
            return ["not", self.g_bool(d - 1) if self.ch(0.75) else self.g_any(d - 1)]
        if k == "andor":
            return self.andor(self.g_bool, d)
        if k == "test":
            return self.g_test(d)
        if k == "cond":
            return self.cond(self.g_bool, d)
        return ["par", self.g_bool(d - 1)]

    def g_test(self, d):
        k = self.r.randrange(12)
        if k <= 1:
            x = self.wpick([(3, self.undef_leaf), (3, self.any_leaf), (2, lambda: self.lookup()),
                            (1, lambda: ["par", self.cond(self.g_int, d, else_less=True)]),
                            (2, lambda: self.g_any(d - 1))])()
            return self.test(x, self.pick(["defined", "undefined"]))
        if k == 2:
            return self.test(self.g_int(d - 1), self.pick(["even", "odd"]))
        if k == 3:
            return self.test(self.g_int(d - 1), "divisibleby", [self.pick([C(2), C(3), N("i2"), C(0), self.int_leaf()])])
        if k == 4:
            a = self.pick([N("i1"), N("bt"), N("nn"), N("l"), N("bf"), N("s"), N("o")])
            b = self.pick([C(True), C(False), C(None), N("l"), N("i1"), N("nn"), N("bt"), N("o"), N("ls")])
            return self.test(a, "sameas", [b])
        if k == 5:
            return self.test(self.g_int(d - 1), "in", [self.g_intlist(d - 1)])
        if k == 6:
            return self.test(self.g_num(d - 1), self.pick(["eq", "ne", "lt", "gt", "le", "ge"]), [self.g_num(d - 1)])
        if k == 7:
            return self.test(self.g_str(d - 1), self.pick(["lower", "upper", "string"]))
        if k == 8:
            return self.test(self.g_bool(d - 1) if self.ch(0.6) else self.g_int(d - 1), self.pick(["true", "false"]))
        if k == 9:
            x = self.pick([N("f"), N("h"), ["attr", N("d"), "get"], ["attr", N("s"), "upper"], N("i1"), N("s"),
                           ["attr", N("o"), "m"], ["item", N("d"), C("get")]])
            return self.test(x, "callable")
        x = self.g_any(d - 1)
        return self.test(x, self.pick(["none", "number", "string", "mapping", "sequence", "iterable", "callable"]))

    # -- lookups, calls, anything
    def lookup(self):
        if self.ch(0.5):
            b, a = self.pick(LOOKUP_ATTR)
            return ["attr", N(b), a]
        b, a = self.pick(LOOKUP_ITEM)
        return ["item", N(b), C(a, self.style()) if isinstance(a, str) else C(a)]

    def g_call(self, d):
        k = self.r.randrange(10)
        if k < 5:
            pos = [self.g_arg(d - 1) for _ in range(self.r.randrange(3))]
            kws = []
            names = ["a", "b", "k", "z"]
            self.r.shuffle(names)
            for i in range(self.r.randrange(3)):
                kws.append([names[i], self.g_arg(d - 1)])
            dyn = self.pick([None, None, N("l"), N("tp"), ["list", [self.int_leaf(), self.str_leaf()]], N("le")])
            dynkw = self.pick([None, None, N("kw"), ["dict", [[C("y"), self.int_leaf()], [C("w"), self.str_leaf()]]], N("de")])
            return ["call", N("f"), pos, kws, dyn, dynkw, 1 if self.ch(0.3) else 0]
        if k < 8:
            variants = [
                ([self.int_leaf()], [], None, None),
                ([self.int_leaf(), self.int_leaf()], [], None, None),
                ([self.int_leaf()], [["cc", self.int_leaf()]], None, None),
                ([], [["b", self.int_leaf()], ["a", self.str_leaf()]], None, None),
                ([], [["cc", self.int_leaf()]], N("tp"), None),
                ([], [], None, ["dict", [[C("a"), self.int_leaf()], [C("cc"), self.int_leaf()]]]),
                ([self.int_leaf()], [["b", self.str_leaf()]], None, ["dict", [[C("cc"), self.int_leaf()]]]),
                ([], [], None, None),
                ([self.int_leaf()], [["a", self.int_leaf()]], None, None),
            ]
            pos, kws, dyn, dynkw = self.pick(variants)
            return ["call", N("h"), pos, kws, dyn, dynkw, 1 if self.ch(0.3) else 0]
        if k < 9:
            pos, kws = self.pick([([self.int_leaf()], []), ([self.int_leaf(), self.str_leaf()], []),
                                  ([self.str_leaf()], [["b", self.int_leaf()]]), ([], [["b", C(1)], ["a", C(2)]])])
            callee = self.pick([["attr", N("o"), "m"], ["item", N("o"), C("m")], ["attr", ["attr", N("nested"), "o"], "m"]])
            return ["call", callee, pos, kws, None, None, 0]
        return ["call", self.pick([N("u"), N("i1"), N("s"), ["attr", N("d"), "items"], ["item", N("d"), C("items")]]),
                [], [], None, None, 0]

    def g_arg(self, d):
        return self.wpick([(3, self.int_leaf), (2, self.str_leaf), (2, lambda: self.g_int(d)), (1, lambda: self.g_str(d)),
                           (1, lambda: self.g_any(d))])()

    def g_any(self, d):
        if d <= 0:
            return self.any_leaf()
        k = self.wpick([(14, "int"), (4, "num"), (14, "str"), (12, "bool"), (7, "list"), (3, "tuple"), (3, "dict"),
                        (10, "lookup"), (3, "leaf"), (7, "call"), (4, "cond1"), (4, "cond"), (6, "andor"),
                        (4, "default"), (3, "chain")])
        if k == "int":
            return self.g_int(d)
        if k == "num":
            return self.g_num(d)
        if k == "str":
            return self.g_str(d)
        if k == "bool":
            return self.g_bool(d)
        if k == "list":
            return self.g_list(d)
        if k == "tuple":
            return ["tuple", [self.g_any(d - 1) for _ in range(self.r.randrange(4))]]
        if k == "dict":
            keys = [C("a", self.style()), C("k", self.style()), C(1), C("items", self.style())]
            self.r.shuffle(keys)
            return ["dict", [[keys[i], self.g_any(d - 1)] for i in range(self.r.randrange(3))]]
        if k == "lookup":
            return self.lookup()
        if k == "leaf":
            return self.any_leaf()
        if k == "call":
            return self.g_call(d)
        if k == "cond1":
            return self.cond(self.g_any, d, else_less=True)
        if k == "cond":
            return self.cond(self.g_any, d)
        if k == "andor":
            return self.andor(self.g_any, d)
        if k == "default":
            x = self.pick([self.undef_leaf(), self.lookup(), self.any_leaf()])
            return self.filt(x, self.pick(["default", "d"]), self.pick([[self.any_leaf()], [self.any_leaf(), self.bool_leaf()], []]))
        # postfix chain on a literal / call result / filter: a.b[c](d)|f
        j = self.r.randrange(5)
        if j == 0:
            return self.filt(["call", ["item", ["attr", N("nested"), "o"], C("m")], [self.int_leaf()], [], None, None, 0], "first")
        if j == 1:
            return ["item", ["dict", [[C("items"), self.int_leaf()], [C("a"), self.str_leaf()]]], C(self.pick(["items", "a", "zz"]))]
        if j == 2:
            return ["attr", ["dict", [[C("items"), self.int_leaf()], [C("a"), self.str_leaf()]]], self.pick(["items", "a", "zz"])]
        if j == 3:
            return ["item", self.g_call(d - 1), self.small_int_leaf()]
        return ["attr", ["par", self.filt(N("d"), "default", [C(1)])], self.pick(["a", "items", "x"])]

    # -- loose precedence pairs: two operators over three leaves, either grouping, decorated
    def g_pair(self):
        levels = [["or"], ["and"], ["==", "!=", "<", "<=", ">", ">=", "in", "notin"], ["+", "-"], ["~"],
                  ["*", "/", "//", "%"], ["**"]]
        o1, o2 = self.pick(self.pick(levels)), self.pick(self.pick(levels))

        def leaf(op, right):
            if op in ("in", "notin") and right:
                return self.pick([N("l"), N("ls"), ["list", [C(1), C(2)]], N("s"), N("tp")])
            if op == "**" and right:
                return self.exp_leaf()
            k = self.r.random()
            if k < 0.7:
                return self.small_int_leaf() if op == "**" else self.int_leaf()
            if k < 0.8:
                return self.pick([N("sn"), N("sa"), C("3"), C("a")])
            if k < 0.88:
                return self.bool_leaf()
            if k < 0.94:
                return self.float_leaf()
            return self.pick([N("u"), N("nn"), N("l"), N("e")])

        def deco(x):
            k = self.r.random()
            if k < 0.1:
                return ["neg", x]
            if k < 0.14:
                return ["pos", x]
            if k < 0.2:
                return ["not", x]
            if k < 0.27:
                return self.filt(x, self.pick(["abs", "string", "int"]))
            if k < 0.32:
                return self.test(x, self.pick(["even", "odd", "number", "string", "defined"]))
            if k < 0.35:
                return self.test(x, self.pick(["eq", "lt", "divisibleby"]), [self.pick([C(1), C(2), N("i3")])])
            if k < 0.38:
                return ["neg", self.filt(x, "abs")]
            if k < 0.41:
                return self.filt(["neg", x], "abs")
            return x

        def mk(op, a, b):
            if op in ("and", "or"):
                return [op, a, b]
            if op in CMP_OPS or op in ("in", "notin"):
                if a[0] == "cmp" and self.ch(0.6):
                    return ["cmp", a[1], a[2] + [[op, b]]]  # chain a < b < c
                return ["cmp", a, [[op, b]]]
            return ["bin", op, a, b]

        if self.ch(0.5):
            t = mk(o2, mk(o1, deco(leaf(o1, False)), deco(leaf(o1, True))), deco(leaf(o2, True)))
        else:
            t = mk(o1, deco(leaf(o1, False)), mk(o2, deco(leaf(o2, False)), deco(leaf(o2, True))))
        k = self.r.random()
        if k < 0.08:
            t = ["not", t]
        elif k < 0.14:
            t = ["neg", t]
        elif k < 0.2:
            t = self.filt(t, self.pick(["string", "abs", "int"]))
        elif k < 0.25:
            t = self.test(t, self.pick(["number", "string", "even", "true", "false"]))
        elif k < 0.33:
            t = ["cond", t, self.pick([self.bool_leaf(), self.int_leaf(), N("u")]), self.pick([None, self.int_leaf()])]
        elif k < 0.38:
            t = ["cond", self.int_leaf(), t, self.int_leaf()]
        elif k < 0.43:
            t = ["cond", self.int_leaf(), self.bool_leaf(), t]
        return t

    def g_condchain(self):
        a, b, c = self.int_leaf(), self.int_leaf(), self.int_leaf()
        p, q = self.pick([self.bool_leaf(), self.int_leaf(), N("u")]), self.pick([self.bool_leaf(), self.int_leaf(), N("e")])
        k = self.r.randrange(6)
        if k == 0:
            return ["cond", a, p, ["cond", b, q, c]]
        if k == 1:
            return ["cond", ["cond", a, p, b], q, c]
        if k == 2:
            return ["cond", a, ["cond", p, q, self.bool_leaf()], c]
        if k == 3:
            return ["cond", ["or", a, b], ["and", p, q], ["or", c, a]]
        if k == 4:
            return ["cond", a, p, ["cond", b, q, None]]
        if self.ch(0.5):
            return ["cond", a, self.pick([N("bf"), C(False), N("i0"), N("e"), q]), None]
        return ["or", ["cond", a, p, b], c]

    def g_logic(self):
        def leaf():
            return self.pick([N("i0"), N("i1"), N("i2"), C(0), C(3), N("e"), N("s"), C("", 0), C("a", 0), N("bt"), N("bf"),
                              C(True), C(False), N("u"), N("nn"), N("le"), N("l")])

        def build(n):
            if n <= 1:
                x = leaf()
                return ["not", x] if self.ch(0.15) else x
            k = self.r.randrange(1, n)
            t = [self.pick(["and", "or"]), build(k), build(n - k)]
            return ["not", t] if self.ch(0.1) else t
        return build(self.pick([3, 3, 4]))

    def g_cmpeq(self):
        a = self.g_num(1)
        b = json.loads(json.dumps(a))
        if self.ch(0.3):
            b = ["par", b]
        op = self.pick(CMP_OPS)
        k = self.r.randrange(5)
        if k == 0:
            return ["cmp", a, [[op, b], [self.pick(CMP_OPS), self.int_leaf()]]]
        if k == 1:
            return ["cmp", self.int_leaf(), [[self.pick(CMP_OPS), a], [op, b]]]
        if k == 2:
            return self.test(a, self.pick(["le", "ge", "lt", "gt", "eq", "ne"]), [b])
        return ["cmp", a, [[op, b]]]

    def root(self):
        k = self.wpick([(5, "logic"), (4, "cmpeq"), (22, "pair"), (5, "condchain"), (12, "int"), (4, "num"), (14, "str"), (14, "bool"), (6, "list"),
                        (20, "any")])
        d = self.pick([2, 3, 3, 4])
        if k == "pair":
            return self.g_pair()
        if k == "condchain":
            return self.g_condchain()
        if k == "logic":
            return self.g_logic()
        if k == "cmpeq":
            return self.g_cmpeq()
        return {"int": self.g_int, "num": self.g_num, "str": self.g_str, "bool": self.g_bool, "list": self.g_list,
                "any": self.g_any}[k](d)


def _const_of(v, style=0):
    if v is None or isinstance(v, (bool, str)) and not isinstance(v, Markup):
        return C(v, style)
    if isinstance(v, (int, float)) and not isinstance(v, bool):
        return ["neg", C(-v)] if v < 0 else C(v)
    if isinstance(v, list):
        return ["list", [_const_of(x) for x in v]]
    if isinstance(v, tuple):
        return ["tuple", [_const_of(x) for x in v]]
    return None


_CONSTIFY = None


def constify(n, rng):
    """replace names of plain values by literals: exercises the optimizer's constant folding (as_const tables)"""
    global _CONSTIFY
    if _CONSTIFY is None:
        dt = make_data()
        _CONSTIFY = {k: dt[k] for k in list(INT_NAMES) + list(FLOAT_NAMES) + list(STR_NAMES) + list(BOOL_NAMES)
                     + ["l", "l2", "le", "ls", "tp", "nn"] if k not in ("g", "sv")}
    if not isinstance(n, list) or not n:
        return n
    if n[0] == "c":
        return n
    if n[0] == "n" and len(n) == 2 and isinstance(n[1], str):
        if n[1] in _CONSTIFY and rng.random() < 0.9:
            c = _const_of(_CONSTIFY[n[1]], rng.randrange(2))
            if c is not None:
                return c
        return n
    return [constify(x, rng) if isinstance(x, list) else x for x in n]


def _has_pow(n):
    if not isinstance(n, list):
        return False
    if n and n[0] == "bin" and n[1] == "**":
        return True
    return any(_has_pow(x) for x in n if isinstance(x, list))


def node_depth(n):
    """operator nesting depth of a tree (leaves 0)"""
    if not isinstance(n, list) or not n:
        return 0
    if isinstance(n[0], str) and n[0] in ("c", "n"):
        return 0
    best = 0
    for x in n[1:] if isinstance(n[0], str) else n:
        if isinstance(x, list):
            best = max(best, node_depth(x))
    return best + (1 if isinstance(n[0], str) else 0)


def pow_chain_ok(n):
    """at most two directly chained ** (runtime bound under right-associative misparses)"""
    if not isinstance(n, list):
        return True
    if n and n[0] == "bin" and n[1] == "**":
        cnt = 0
        m = n
        while m[0] == "bin" and m[1] == "**":
            cnt += 1
            m = m[2]
        if cnt > 2:
            return False
    return all(pow_chain_ok(x) for x in n if isinstance(x, list))


class _TouchedName(BaseException):
    pass


class _NoNames(dict):
    """data context of the constant folder: touching any name aborts the evaluation"""

    def __contains__(self, key):
        raise _TouchedName(key)


def _fold_outcome(n, strict):
    """outcome of evaluating `n` the way a constant folder could (no names available): ('ok', v) | ('exc', name) |
    None when a name is needed"""
    try:
        return ("ok", ev(n, Cx(_NoNames(), {"strict": strict})))
    except _TouchedName:
        return None
    except DocSilent:
        return None
    except Exception as ex:  # noqa: BLE001
        return ("exc", type(ex).__name__)


def _subtrees(n):
    if isinstance(n, list) and n:
        if isinstance(n[0], str) and n[0] not in ("c", "n"):
            yield n
        for x in (n[1:] if isinstance(n[0], str) else n):
            if isinstance(x, list):
                yield from _subtrees(x)


def strict_fold_hazard(tree):
    """a constant-foldable sub-expression that raises UndefinedError under StrictUndefined: the optimizer evaluates it
    at COMPILE time without a guard (and/or/~/if-expression), also in branches that are never taken (real defect,
    obligation C02.bounded.strict_fold_untaken)"""
    for sub in _subtrees(tree):
        o = _fold_outcome(sub, True)
        if o is not None and o[0] == "exc" and o[1] == "UndefinedError":
            return True
    return False


def negconst_pow(n):
    """a ** whose left operand is a name-free (constant-foldable) expression with a negative value: the optimizer
    folds it to a bare negative literal in front of ** (real defect, obligation C02.bounded.negconst_pow)"""
    if not isinstance(n, list) or not n:
        return False
    if n[0] == "bin" and n[1] == "**":
        o = _fold_outcome(n[2], False)  # also e.g. '(-4 or x) ** y': 'or' folds by short circuit
        if o is not None and o[0] == "ok":
            v = o[1]
            if isinstance(v, (int, float)) and not isinstance(v, bool) and v < 0:
                return True
    return any(negconst_pow(x) for x in n if isinstance(x, list))


def gen_expression(seed, idx, flags_list=({"strict": False},)):
    """-> (tree, source) ; deterministic in (seed, idx).  Discards DocSilent trees and most erroring trees."""
    rng = random.Random((seed * 1000003 + idx) * 7919 + 17)
    g = Gen(rng)
    for attempt in range(60):
        tree = g.root()
        if rng.random() < 0.2:
            tree = constify(tree, rng)
        if node_depth(tree) > MAX_DEPTH + 2 or not pow_chain_ok(tree):
            continue
        try:
            src = to_source(tree)
        except (ValueError, AssertionError):
            continue
        if len(src) > 160 or negconst_pow(tree):
            continue
        if any(fl.get("strict") for fl in flags_list) and strict_fold_hazard(tree):
            continue
        ok = True
        err = False
        for fl in flags_list:
            try:
                ev(tree, Cx(make_data(), fl))
            except DocSilent:
                ok = False
                break
            except RecursionError:
                ok = False
                break
            except Exception:
                err = True
        if not ok:
            continue
        if err and rng.random() < 0.6:
            continue
        return tree, src
    return C(1), "1"


# ---------------------------------------------------------------------------------------------------------
# the system under test
# ---------------------------------------------------------------------------------------------------------

import asyncio  # noqa: E402,F401  (imported here so that no alarm can interrupt its first import)
import jinja2  # noqa: E402  (the harness arranges sys.path: unchanged tree or a scratch copy)
import jinja2.sandbox  # noqa: E402

ENV_NAMES = ["default", "unoptimized", "async", "sandbox", "strict"]
OTHER_ENVS = ENV_NAMES[1:]
ENV_FLAGS = {"default": {"strict": False}, "unoptimized": {"strict": False}, "async": {"strict": False},
             "sandbox": {"strict": False}, "strict": {"strict": True}}
BLOCK_TEMPLATE = "{%% set sv = 'set-sv' %%}{%% block b %%}{{ %s }}{%% endblock %%}"


def make_env(name):
    if name == "default":
        env = jinja2.Environment()
    elif name == "unoptimized":
        env = jinja2.Environment(optimized=False)
    elif name == "async":
        env = jinja2.Environment(enable_async=True)
    elif name == "sandbox":
        env = jinja2.sandbox.SandboxedEnvironment()
    elif name == "strict":
        env = jinja2.Environment(undefined=jinja2.StrictUndefined)
    else:
        raise KeyError(name)
    env.globals.update(GLOBALS)
    return env


class _Timeout(Exception):
    pass


def _guarded(fn, seconds=30):
    """run fn() with an alarm when we are on the main thread (runaway pow under a misparse)"""
    use_alarm = threading.current_thread() is threading.main_thread() and hasattr(signal, "setitimer")
    if not use_alarm:
        return fn()

    def on_alarm(signum, frame):
        raise _Timeout()
    try:
        old = signal.signal(signal.SIGALRM, on_alarm)
    except (ValueError, OSError):
        return fn()
    signal.setitimer(signal.ITIMER_REAL, seconds)
    try:
        return fn()
    finally:
        signal.setitimer(signal.ITIMER_REAL, 0)
        signal.signal(signal.SIGALRM, old)


def outcome(fn):
    """-> ('ok', value) | ('exc', class name, message)"""
    try:
        return ("ok", _guarded(fn))
    except DocSilent:
        raise
    except _Timeout:
        return ("exc", "Timeout", "")
    except Exception as ex:  # noqa: BLE001
        return ("exc", type(ex).__name__, str(ex)[:120])
    except RecursionError as ex:  # pragma: no cover
        return ("exc", "RecursionError", str(ex)[:120])


def same(real, ref):
    """same type and equal value; undefined values compare by class"""
    if is_undef(ref):
        if not isinstance(real, jinja2.Undefined):
            return False
        return type(real) is (jinja2.StrictUndefined if ref.strict else jinja2.Undefined)
    if isinstance(real, jinja2.Undefined):
        return False
    if type(real) is not type(ref):
        return False
    if isinstance(ref, (list, tuple)):
        return len(real) == len(ref) and all(same(a, b) for a, b in zip(real, ref))
    if isinstance(ref, dict):
        return (len(real) == len(ref) and all(same(a, b) for a, b in zip(real.keys(), ref.keys()))
                and all(same(a, b) for a, b in zip(real.values(), ref.values())))
    if isinstance(ref, float):
        return real == ref or (real != real and ref != ref)
    if isinstance(ref, (types.BuiltinMethodType, types.MethodType)):
        if getattr(real, "__name__", None) != getattr(ref, "__name__", None):
            return False
        return same(getattr(real, "__self__", None), getattr(ref, "__self__", None))
    if hasattr(ref, "__next__") and hasattr(real, "__next__"):
        return same(list(real), list(ref))
    try:
        return bool(real == ref)
    except Exception:  # noqa: BLE001
        return False


def _short(x, n=200):
    try:
        r = repr(x)
        if isinstance(x, jinja2.Undefined):
            r = type(x).__name__
    except BaseException as ex:  # noqa: BLE001
        r = f"<repr failed: {type(ex).__name__}>"
    return r if len(r) <= n else r[:n] + "..."


def _show(o):
    if o[0] == "ok":
        return "value " + _short(o[1])
    return f"raises {o[1]}" + (f" ({o[2]})" if len(o) > 2 and o[2] else "")


class Envs:
    def __init__(self):
        self.cache = {}

    def get(self, name):
        if name not in self.cache:
            self.cache[name] = make_env(name)
        return self.cache[name]


def check_one(tree, src, envname, envs, paths=("expr", "render", "block")):
    with warnings.catch_warnings():
        warnings.simplefilter("ignore", SyntaxWarning)  # e.g. '5[1:2]' in the generated Python
        return _check_one(tree, src, envname, envs, paths)


def _check_one(tree, src, envname, envs, paths):
    """Compare the real evaluation of `src` in the named environment with the reference value of `tree`.

    -> (status, problems) with status 'ok' | 'skip' and problems a list of dicts (path, real, reference).
    Raises DocSilent when the reference is undefined for this environment's flags.
    """
    env = envs.get(envname)
    flags = ENV_FLAGS[envname]
    problems = []
    ref = outcome(lambda: ev(tree, Cx(make_data(), flags)))

    def security(o):
        return envname == "sandbox" and o[0] == "exc" and o[1] == "SecurityError"

    # path 1: compile_expression (sync environments only)
    if "expr" in paths and envname != "async":
        real = outcome(lambda: env.compile_expression(src, undefined_to_none=False)(**make_data()))
        if security(real):
            return "skip", []
        if ref[0] == "ok":
            agree = real[0] == "ok" and same(real[1], ref[1])
        else:
            agree = real[0] == "exc" and real[1] == ref[1]
        if not agree:
            problems.append({"path": "expr", "real": _show(real), "reference": _show(ref)})
    # path 2: rendered template
    want = None
    if ref[0] == "exc":
        want = ref
    elif printable(ref[1]):
        want = outcome(lambda: ref_print(ref[1]))
    if "render" in paths and want is not None:
        real = outcome(lambda: env.from_string("{{ " + src + " }}").render(**make_data()))
        if security(real):
            return "skip", []
        agree = real[0] == want[0] and (real[1] == want[1] if real[0] == "exc" else
                                        (type(real[1]) is str and real[1] == want[1]))
        if not agree:
            problems.append({"path": "render", "real": _show(real), "reference": _show(want)})
    # path 3: top-level set shadows a passed variable inside a block (default environment, name sv only)
    if "block" in paths and envname == "default" and re.search(r"\bsv\b", src) and "sv" in names_of(tree):
        data2 = make_data()
        data2["sv"] = "set-sv"
        ref2 = outcome(lambda: ev(tree, Cx(data2, flags)))
        want2 = None
        if ref2[0] == "exc":
            want2 = ref2
        elif printable(ref2[1]):
            want2 = outcome(lambda: ref_print(ref2[1]))
        if want2 is not None:
            real = outcome(lambda: env.from_string(BLOCK_TEMPLATE % src).render(**make_data()))
            agree = real[0] == want2[0] and real[1] == want2[1]
            if not agree:
                problems.append({"path": "block", "real": _show(real), "reference": _show(want2)})
    return "ok", problems


def _children(n):
    """sub-expressions of a node (for shrinking)"""
    out = []
    t = n[0]
    if t in ("c", "n"):
        return out
    if t in ("list", "tuple"):
        return list(n[1])
    if t == "dict":
        for k, v in n[1]:
            out += [k, v]
        return out
    if t == "cmp":
        out.append(n[1])
        out += [x for _, x in n[2]]
        if len(n[2]) > 1:
            out.append(["cmp", n[1], n[2][:-1]])
            out.append(["cmp", n[2][0][1], n[2][1:]])
        return out
    if t == "call":
        out.append(n[1])
        out += n[2]
        out += [v for _, v in n[3]]
        out += [x for x in (n[4], n[5]) if x is not None]
        return out
    if t in ("filter",):
        out.append(n[1])
        out += n[3]
        out += [v for _, v in n[4]]
        return out
    if t == "test":
        return [n[1]] + list(n[3])
    for x in n[1:]:
        if isinstance(x, list) and x and isinstance(x[0], str):
            out.append(x)
    return out


def shrink(tree, envname, envs, budget=60):
    """greedy: replace the tree by a disagreeing sub-expression while one exists"""
    cur = tree
    while budget > 0:
        progressed = False
        for sub in sorted(_children(cur), key=lambda x: len(json.dumps(x))):
            budget -= 1
            if budget <= 0:
                break
            try:
                src = to_source(sub)
                st, probs = check_one(sub, src, envname, envs)
            except (DocSilent, ValueError, AssertionError):
                continue
            if st == "ok" and probs:
                cur = sub
                progressed = True
                break
        if not progressed:
            break
    return cur


def witness_of(tree, envname, envs):
    src = to_source(tree)
    st, probs = check_one(tree, src, envname, envs)
    p = probs[0] if probs else {"path": "?", "real": "?", "reference": "?"}
    return {"source": src, "env": envname, "path": p["path"], "data_keys": sorted(names_of(tree) & set(DATA_KEYS) | (names_of(tree) & set(GLOBALS))),
            "real": p["real"], "reference": p["reference"], "tree": tree}


N_QUICK = 3000
N_THOROUGH = 100000


def run_slice(task, tier, seed, shard=0, nshards=1):
    t0 = time.time()
    total = N_QUICK if tier == "quick" else N_THOROUGH
    envs = Envs()
    name = task.name if task is not None else NAME
    n_expr = n_checks = n_skip = n_sandbox = n_err = 0
    found = []  # (len(src), src, tree, env)
    for idx in range(shard, total, nshards):
        other = OTHER_ENVS[(idx // nshards) % len(OTHER_ENVS)]
        flag_sets = [ENV_FLAGS["default"]] + ([ENV_FLAGS["strict"]] if other == "strict" else [])
        tree, src = gen_expression(seed, idx, flag_sets)
        n_expr += 1
        for envname in ("default", other):
            try:
                st, probs = check_one(tree, src, envname, envs)
            except DocSilent:
                continue
            n_checks += 1
            if envname == "sandbox":
                n_sandbox += 1
                if st == "skip":
                    n_skip += 1
            if probs:
                found.append((len(src), src, tree, envname))
        if len(found) >= 25:
            break
    secs = time.time() - t0
    bound = (f"{n_expr} seeded random expression trees (generator depth <= {MAX_DEPTH}, source <= 160 chars) x 2 of "
             f"{len(ENV_NAMES)} environments each (default + one of unoptimized/async/sandbox/strict in rotation; "
             f"compile_expression and rendered '{{{{ expr }}}}'), fixed data context of {len(DATA_KEYS)} names, "
             f"seed {seed}, slice {shard}/{nshards}")
    if task is not None:
        task.bound_text = bound
    skip_pct = 100.0 * n_skip / max(1, n_sandbox)
    detail = (f"{n_expr} expressions, {n_checks} environment checks agree with the reference evaluator; sandbox skips "
              f"{n_skip}/{n_sandbox} ({skip_pct:.1f}%)")
    if found:
        found.sort(key=lambda x: (x[0], x[1]))
        _, src, tree, envname = found[0]
        small = shrink(tree, envname, envs)
        wit = witness_of(small, envname, envs)
        wit["seed"] = seed
        wit["original_source"] = src
        detail = (f"{len(found)} disagreement(s) in {n_expr} expressions; smallest: env={envname} path={wit['path']} "
                  f"source={wit['source']!r}: real {wit['real']} / documented {wit['reference']}")
        return [Res(name, "refuted", "native", time.time() - t0, detail, "bounded", wit)]
    if skip_pct >= 5.0:
        return [Res(name, "error", "native", secs, "sandbox skips >= 5 %: " + detail, "bounded")]
    return [Res(name, "bounded-ok", "native", secs, detail, "bounded")]


def bounded_eval(task, tier, seed):
    return run_slice(task, tier, seed, 0, 1)


def replay_eval(witness):
    """re-run the REAL code on the witness source and the reference on the witness tree"""
    tree = witness["tree"]
    src = to_source(tree, bare_tests_ok=bool(witness.get("bare_tests")))
    if src != witness["source"]:
        return (None, f"witness source {witness['source']!r} does not match its tree ({src!r})")
    envs = Envs()
    try:
        st, probs = check_one(tree, src, witness["env"], envs)
    except DocSilent as ex:
        return (False, f"reference undefined for this expression ({ex})")
    if st == "skip":
        return (False, "sandbox SecurityError: skipped")
    if probs:
        p = probs[0]
        return (True, f"{witness['env']} env, {p['path']} path, {src!r}: real {p['real']} but documented semantics "
                      f"give {p['reference']}")
    return (False, f"{src!r}: real and reference agree in env {witness['env']}")


# ---------------------------------------------------------------------------------------------------------
# known real-code defect kept failing on its own obligation: bare test followed by a keyword
# ---------------------------------------------------------------------------------------------------------

def _negconst_pow_trees():
    three = ["bin", "-", C(1), C(4)]
    return [["bin", "**", three, N("i2")],                                   # (1 - 4) ** i2
            ["bin", "**", ["par", ["neg", C(3)]], N("i2")],                    # (-3) ** i2
            ["bin", "**", ["item", ["list", [["neg", C(3)]]], C(0)], N("i2")],  # [-3][0] ** i2
            ["bin", "**", ["bin", "-", C(1), C(1.5)], N("i2")],                # (1 - 1.5) ** i2
            ["bin", "**", ["bin", "-", N("i1"), C(4)], N("i2")],               # (i1 - 4) ** i2   (control: agrees)
            ["bin", "**", three, C(2)]]                                        # (1 - 4) ** 2     (control: agrees)


def _strict_fold_trees():
    first = ["filter", ["list", []], "first", [], [], 0]
    item = ["item", C("<"), C(3)]
    attr = ["attr", ["dict", []], "a"]
    return [["cond", C(1), N("bt"), ["or", first, C(2)]],              # 1 if bt else ([]|first or 2)
            ["cond", C(1), N("bt"), ["bin", "~", C("x"), item]],       # 1 if bt else 'x' ~ '<'[3]
            ["or", N("i1"), ["and", item, C(2)]],                      # i1 or '<'[3] and 2
            ["cond", C(1), N("bt"), ["cond", C(2), attr, C(3)]],       # 1 if bt else 2 if {}.a else 3
            ["and", N("i0"), ["bin", "~", first, C("x")]],             # i0 and []|first ~ 'x'
            ["cond", C(1), N("bt"), ["or", ["filter", N("le"), "first", [], [], 0], C(2)]]]  # control (name): agrees


def _then_keyword_trees():
    x, y = N("i1"), N("u")
    out = []
    for name in ("defined", "none", "number"):
        for operand in (x, y) if name == "defined" else (x,):
            t = ["test", operand, name, [], 0, 0]
            out.append(["cond", t, N("bt"), C(5)])                       # x is defined if bt else 5
            out.append(["cond", t, N("bf"), None])                       # x is defined if bf
            out.append(["cmp", t, [["in", ["list", [C(True)]]]]])        # x is defined in [true]
            out.append(["cmp", t, [["notin", ["list", [C(False)]]]]])    # x is defined not in [false]
    return out


def _fixed(trees_fn, envnames, bare, what, why):
    """an obligation over a fixed list of documented-valid expressions (kept separate from the random differential)"""

    def run(task, tier, seed):
        t0 = time.time()
        envs = Envs()
        trees = trees_fn()
        task.bound_text = f"{len(trees)} fixed expressions ({what}) on environments {', '.join(envnames)}"
        bad = []
        for tree in trees:
            src = to_source(tree, bare_tests_ok=bare)
            for envname in envnames:
                st, probs = check_one(tree, src, envname, envs, paths=("expr", "render"))
                if probs:
                    bad.append((src, tree, envname, probs[0]))
        if not bad:
            return [Res(task.name, "bounded-ok", "native", time.time() - t0, f"{len(trees)} expressions agree", "bounded")]
        bad.sort(key=lambda x: (len(x[0]), x[0]))
        src, tree, envname, p = bad[0]
        wit = {"source": src, "env": envname, "path": p["path"], "data_keys": sorted(names_of(tree)), "real": p["real"],
               "reference": p["reference"], "tree": tree, "bare_tests": bare,
               "all_failing": sorted({x[0] for x in bad})}
        detail = (f"{len(wit['all_failing'])}/{len(trees)} documented-valid expressions disagree, e.g. env={envname} "
                  f"{src!r}: real {p['real']} / documented {p['reference']} ({why})")
        return [Res(task.name, "refuted", "native", time.time() - t0, detail, "bounded", wit)]

    def replay(witness):
        tree = witness["tree"]
        src = to_source(tree, bare_tests_ok=bool(witness.get("bare_tests")))
        st, probs = check_one(tree, src, witness["env"], Envs(), paths=("expr", "render"))
        if probs:
            return (True, f"{witness['env']} env {src!r}: real {probs[0]['real']} but documented semantics give "
                          f"{probs[0]['reference']}")
        return (False, f"{src!r}: agree")

    return run, replay


class _KnownTask(FnTask):
    """finding_key identifies the specific failing sources, so a different failing input is still a violation"""

    def finding_key(self, res):
        w = res.witness or {}
        return "|".join(w.get("all_failing", [w.get("source", "?")]))


_kw_run, _kw_replay = _fixed(_then_keyword_trees, ["default"], True, "'<x> is <test> if|in|not in ...'",
                             "the keyword after an argument-less test is parsed as the test's argument")
_np_run, _np_replay = _fixed(_negconst_pow_trees, ["default", "unoptimized"], False,
                             "'<negative constant expression> ** <name>'",
                             "the optimizer folds the left operand to a bare negative literal in front of **")
_sf_run, _sf_replay = _fixed(_strict_fold_trees, ["strict"], False,
                             "'<value> if <true> else <constant expression using an undefined value>'",
                             "the optimizer evaluates the untaken constant branch at compile time without a guard")
EXTRA_TASKS = [_KnownTask(PROP, "C02.bounded.test_then_keyword", _kw_run, "bounded", _kw_replay),
               _KnownTask(PROP, "C02.bounded.negconst_pow", _np_run, "bounded", _np_replay),
               _KnownTask(PROP, "C02.bounded.strict_fold_untaken", _sf_run, "bounded", _sf_replay)]


def make_tasks(nshards=4):
    tasks = []
    for i in range(nshards):
        def fn(task, tier, seed, i=i):
            return run_slice(task, tier, seed, i, nshards)
        tasks.append(FnTask(PROP, f"{NAME}[{i}/{nshards}]", fn, "bounded", replay_eval))
    return tasks


TASKS = [FnTask(PROP, NAME, bounded_eval, "bounded", replay_eval)] + EXTRA_TASKS
