"""C26  The LRU cache behaves like a least-recently-used map under any use.

Contracts on every method of jinja2.utils.LRUCache against the reference map
of DESIGN Appendix A.4 (capacity c, `order` least-recent-first without
duplicates, `val`).  Abstract view of the real object:
    order = list(self._queue)     val = self._mapping
Representation invariant RI: no duplicates in _queue, set(_queue) = dom(_mapping),
len <= capacity, aliases bound to the current _queue, _wlock is a Lock.
"""
from __future__ import annotations

import time

import z3

from pyvc.contract import VC, Res, FnTask
from pyvc.values import State, Sym, Ref, BoundMethod, HObj, HList, HDict, HLock, SSeq, Obj, fresh_name, Exc
from pyvc.smt import to_term, model_value

import jinja2.utils as U

I_ = z3.IntSort()


class Cache:
    """Symbolic LRUCache pre-state."""

    def __init__(self, st: State, tag="c", with_idx=True):
        self.c = z3.Int(fresh_name(tag + "_cap"))
        self.arr = z3.Const(fresh_name(tag + "_q"), z3.ArraySort(I_, Obj))
        self.n = z3.Int(fresh_name(tag + "_n"))
        self.dom = z3.Const(fresh_name(tag + "_dom"), z3.ArraySort(Obj, z3.BoolSort()))
        self.val = z3.Const(fresh_name(tag + "_val"), z3.ArraySort(Obj, Obj))
        self.size = z3.Int(fresh_name(tag + "_size"))
        self.idx = z3.Function(fresh_name(tag + "_idx"), Obj, I_)
        self.q = st.alloc(HList(arr=self.arr, n=self.n, k="obj", tag="deque"), initial=True)
        self.m = st.alloc(HDict(dom=self.dom, val=self.val, size=self.size), initial=True)
        self.lock = st.alloc(HLock(), initial=True)
        self.ref = st.alloc(HObj(U.LRUCache, fields={
            "capacity": Sym(self.c, "int"), "_mapping": self.m, "_queue": self.q, "_wlock": self.lock,
            "_popleft": BoundMethod(self.q, "popleft"), "_pop": BoundMethod(self.q, "pop"),
            "_remove": BoundMethod(self.q, "remove"), "_append": BoundMethod(self.q, "append"),
        }), initial=True)
        for f in ri(self.arr, self.n, self.dom, self.size, self.c, self.idx):
            st.assume(f)


def ri(arr, n, dom, size, c, idx):
    """Representation invariant as a list of formulas; idx is the witness k -> position."""
    i, j = z3.Ints(f"{fresh_name('ri_i')} {fresh_name('ri_j')}")
    k = z3.Const(fresh_name("ri_k"), Obj)
    return [
        c >= 1, n >= 0, n <= c, size == n,
        z3.ForAll([i], z3.Implies(z3.And(0 <= i, i < n), z3.And(z3.Select(dom, z3.Select(arr, i)), idx(z3.Select(arr, i)) == i))),
        z3.ForAll([k], z3.Implies(z3.Select(dom, k), z3.And(0 <= idx(k), idx(k) < n, z3.Select(arr, idx(k)) == k))),
    ]
    # (idx(arr[i]) == i gives absence of duplicates; the second gives dom ⊆ set(queue))


def post_state(pre: Cache, st: State):
    """Current (arr, n, dom, val, size) of the cache object in state st + alias/lock facts."""
    h = st.get(pre.ref)
    q = h.fields["_queue"]
    m = h.fields["_mapping"]
    hq, hm = st.get(q), st.get(m)
    return hq, hm, h


def aliases_ok(pre: Cache, st: State):
    hq, hm, h = post_state(pre, st)
    q = h.fields["_queue"]
    for nm, meth in (("_popleft", "popleft"), ("_pop", "pop"), ("_remove", "remove"), ("_append", "append")):
        b = h.fields.get(nm)
        if not (isinstance(b, BoundMethod) and b.recv == q and b.name == meth):
            return False
    lk = h.fields.get("_wlock")
    return isinstance(lk, Ref) and isinstance(st.get(lk), HLock) and not st.get(lk).held


def as_terms(hq, hm):
    """(arr, n, dom, val, size) as z3 terms whatever the concrete/abstract representation."""
    if hq.concrete:
        arr = z3.K(I_, z3.Const("dummy_obj", Obj))
        for i, x in enumerate(hq.items):
            arr = z3.Store(arr, i, to_term(x, "obj"))
        n = z3.IntVal(len(hq.items))
    else:
        arr, n = hq.arr, hq.n
    if hm.concrete:
        dom = z3.K(Obj, z3.BoolVal(False))
        val = z3.K(Obj, z3.Const("dummy_obj", Obj))
        for k, v in hm.items.items():
            dom = z3.Store(dom, to_term(k, "obj"), True)
            val = z3.Store(val, to_term(k, "obj"), to_term(v, "obj"))
        size = z3.IntVal(len(hm.items))
    else:
        dom, val, size = hm.dom, hm.val, hm.size
    return arr, n, dom, val, size


def ri_post(pre: Cache, st: State, witness):
    hq, hm, h = post_state(pre, st)
    arr, n, dom, val, size = as_terms(hq, hm)
    cap = to_term(h.fields["capacity"], "int")
    return z3.And(*ri(arr, n, dom, size, cap, witness))


def unchanged(pre: Cache, st: State):
    hq, hm, h = post_state(pre, st)
    arr, n, dom, val, size = as_terms(hq, hm)
    j = z3.Int(fresh_name("j"))
    k = z3.Const(fresh_name("k"), Obj)
    return z3.And(
        n == pre.n, size == pre.size,
        z3.ForAll([j], z3.Implies(z3.And(0 <= j, j < n), z3.Select(arr, j) == z3.Select(pre.arr, j))),
        z3.ForAll([k], z3.Select(dom, k) == z3.Select(pre.dom, k)),
        z3.ForAll([k], z3.Implies(z3.Select(pre.dom, k), z3.Select(val, k) == z3.Select(pre.val, k))),
    )


def lock_discipline(pre: Cache, out, allow_unlocked=()):
    """Every read/write of _mapping/_queue happens while _wlock is held."""
    for e in out.st.trace:
        if e.kind in ("read", "write") and e.args and isinstance(e.args[0], Ref) and e.args[0] in (pre.q, pre.m):
            if pre.lock.id not in e.held and e.name not in allow_unlocked:
                return False
    return True


class LRU(VC):
    prop = "C26"
    method = ""
    timeout_quick = 20000

    def __init__(self):
        self.target = f"jinja2.utils:LRUCache.{self.method}"
        super().__init__("C26", f"C26.LRUCache.{self.method}")
        if self.method != "__setstate__":
            # frame clause the reduction of the concurrent statement rests on (added after seed C26_SEED_4)
            self.posts = list(self.posts) + [("same_lock_and_containers", LRU.p_same_objects)]

    def p_same_objects(self, pre_st, out):
        """An operation on an existing cache keeps ITS lock, mapping and queue objects and the four bound-method aliases:
        the lock discipline only excludes other threads if every operation, for the whole life of the cache, takes the one
        lock and works on the one pair of containers (a thread may be waiting on the lock, or about to call an alias,
        while this operation runs).  Only __init__ / __setstate__ (object creation) may bind them."""
        p = self.pre
        h = out.st.get(p.ref)
        f = h.fields
        if not (f.get("_wlock") == p.lock and f.get("_mapping") == p.m and f.get("_queue") == p.q):
            return False
        for nm, meth in (("_popleft", "popleft"), ("_pop", "pop"), ("_remove", "remove"), ("_append", "append")):
            b = f.get(nm)
            if not (isinstance(b, BoundMethod) and b.recv == p.q and b.name == meth):
                return False
        return True

    def configure(self, I):
        I.inline.update({"jinja2.utils:LRUCache.__getitem__", "jinja2.utils:LRUCache.__setitem__", "jinja2.utils:LRUCache.items",
                         "jinja2.utils:LRUCache.__iter__", "jinja2.utils:LRUCache._postinit", "jinja2.utils:LRUCache.__init__"})

    def setup(self, I, st):
        self.pre = Cache(st)
        self.key = Sym(z3.Const("key", Obj), "obj")
        self.value = Sym(z3.Const("value", Obj), "obj")
        self.default = Sym(z3.Const("default", Obj), "obj")
        return self.args(), {}

    def args(self):
        return [self.pre.ref]

    # replay against the reference map -------------------------------------------
    def concretize(self, model, pre_st, out):
        p = self.pre
        n = model_value(model, p.n)
        cap = model_value(model, p.c)
        names = {}

        def nm(t):
            s = str(model.eval(t, model_completion=True))
            return names.setdefault(s, len(names))

        q = [nm(z3.Select(p.arr, i)) for i in range(max(0, min(n, 64)))]
        vals = {str(k): nm(z3.Select(p.val, z3.Select(p.arr, i))) for i, k in enumerate(q)}
        return {"method": self.method, "capacity": cap, "queue": q, "values": vals,
                "key": nm(self.key.t), "value": nm(self.value.t), "default": nm(self.default.t)}

    def replay(self, w):
        v, d = replay_lru(w)
        if not v:
            v2, d2 = replay_history(w)
            if v2:
                return v2, d2
        return v, d


def replay_history(w):
    """Structural obligations (aliases, lock, fresh objects) have no model; replay a fixed family of
    operation histories on a fresh / copied / unpickled real cache against the reference map."""
    import pickle, itertools, threading
    from jinja2.utils import LRUCache
    ops = [("set", 1), ("set", 2), ("get", 1), ("set", 3), ("get", 2), ("del", 1), ("set", 4), ("set", 5), ("get", 3), ("clear", 0), ("set", 6)]
    for how in ("fresh", "copy", "pickle"):
        for cap in (1, 2, 3):
            c = LRUCache(cap)
            order, val = [], {}
            for n, (op, k) in enumerate(ops):
                if n == 4 and how == "copy":
                    c = c.copy()
                if n == 4 and how == "pickle":
                    c = pickle.loads(pickle.dumps(c))
                ids = (c._wlock, c._mapping, c._queue)
                try:
                    if op == "set":
                        c[k] = k * 10
                    elif op == "get":
                        c.get(k)
                    elif op == "del":
                        if k in c:
                            del c[k]
                    else:
                        c.clear()
                except Exception as ex:
                    return (True, f"{how} cap={cap} op#{n} {op}({k}) raised {type(ex).__name__}: {ex}")
                if op == "set":
                    if k in val:
                        order.remove(k)
                    elif len(order) == cap:
                        del val[order.pop(0)]
                    order.append(k)
                    val[k] = k * 10
                elif op == "get" and k in val:
                    order.remove(k)
                    order.append(k)
                elif op == "del" and k in val:
                    order.remove(k)
                    del val[k]
                elif op == "clear":
                    order, val = [], {}
                if list(c._queue) != order or dict(c._mapping) != val:
                    return (True, f"{how} cap={cap} after op#{n} {op}({k}): real=({list(c._queue)},{dict(c._mapping)}) reference=({order},{val})")
                if not isinstance(c._wlock, type(threading.Lock())):
                    return (True, "_wlock is not a lock")
                now = (c._wlock, c._mapping, c._queue)
                if any(a is not b for a, b in zip(ids, now)) or c._append.__self__ is not c._queue or c._popleft.__self__ is not c._queue:
                    return (True, f"{how} cap={cap} op#{n} {op}({k}) replaced the cache's lock / mapping / queue object (or left an alias on the old queue): "
                                  "a thread waiting on the old lock, or calling an alias, no longer excludes / sees this cache's operations")
    return (False, "fixed histories agree with the reference map (the failed obligation is structural: see verifier output)")


def replay_lru(w):
    """Run the real LRUCache and the reference map (A.4) on the witness state and compare."""
    import copy
    from jinja2.utils import LRUCache
    if w.get("method") == "history":
        return replay_history(w)
    cap = max(1, int(w["capacity"]))
    c = LRUCache(cap)
    order = list(w["queue"])[:cap]
    val = {k: w["values"].get(str(k), 0) for k in order}
    for k in order:
        c._mapping[k] = val[k]
        c._queue.append(k)
    ref_order, ref_val = list(order), dict(val)
    key, value, default = w["key"], w["value"], w["default"]
    m = w["method"]

    def ref_get(k):
        if k not in ref_val:
            raise KeyError(k)
        ref_order.remove(k)
        ref_order.append(k)
        return ref_val[k]

    def ref_set(k, v):
        if k in ref_val:
            ref_order.remove(k)
        elif len(ref_order) == cap:
            old = ref_order.pop(0)
            del ref_val[old]
        ref_order.append(k)
        ref_val[k] = v

    def run(f):
        try:
            return ("ok", f())
        except Exception as ex:
            return ("raise", type(ex).__name__)

    if m == "__getitem__":
        got, want = run(lambda: c[key]), run(lambda: ref_get(key))
    elif m == "__setitem__":
        got, want = run(lambda: c.__setitem__(key, value)), run(lambda: ref_set(key, value))
    elif m == "__delitem__":
        def ref_del():
            if key not in ref_val:
                raise KeyError(key)
            del ref_val[key]
            ref_order.remove(key)
        got, want = run(lambda: c.__delitem__(key)), run(ref_del)
    elif m == "get":
        got = run(lambda: c.get(key, default))
        want = run(lambda: ref_get(key) if key in ref_val else default)
    elif m == "setdefault":
        def ref_sd():
            if key in ref_val:
                return ref_get(key)
            ref_set(key, default)
            return default
        got, want = run(lambda: c.setdefault(key, default)), run(ref_sd)
    elif m == "__contains__":
        got, want = run(lambda: key in c), run(lambda: key in ref_val)
    elif m == "__len__":
        got, want = run(lambda: len(c)), run(lambda: len(ref_order))
    elif m == "clear":
        def ref_clear():
            ref_order.clear()
            ref_val.clear()
        got, want = run(c.clear), run(ref_clear)
    elif m == "items":
        got, want = run(lambda: list(c.items())), run(lambda: [(k, ref_val[k]) for k in reversed(ref_order)])
    elif m == "values":
        got, want = run(lambda: list(c.values())), run(lambda: [ref_val[k] for k in reversed(ref_order)])
    elif m == "keys":
        got, want = run(lambda: list(c.keys())), run(lambda: list(reversed(ref_order)))
    elif m == "__iter__":
        got, want = run(lambda: list(iter(c))), run(lambda: list(reversed(ref_order)))
    elif m == "__reversed__":
        got, want = run(lambda: list(reversed(c))), run(lambda: list(ref_order))
    elif m in ("copy", "__copy__"):
        c2 = c.copy()
        got = ("ok", (list(c2._queue), dict(c2._mapping), c2.capacity, c2 is not c, c2._queue is not c._queue, c2._mapping is not c._mapping))
        want = ("ok", (list(ref_order), dict(ref_val), cap, True, True, True))
        c = c2 if False else c
    elif m == "pickle":
        import pickle
        c2 = pickle.loads(pickle.dumps(c))
        got = ("ok", (list(c2._queue), dict(c2._mapping), c2.capacity))
        want = ("ok", (list(ref_order), dict(ref_val), cap))
        c2[key] = value
        got = (got, list(c2._queue)[-1] == key, len(c2) <= cap, c2._append.__self__ is c2._queue)
        want = (want, True, True, True)
    else:
        return (None, f"no native oracle for {m}")
    state_ok = list(c._queue) == ref_order and dict(c._mapping) == ref_val and len(c._mapping) <= cap
    if m in ("pickle",):
        state_ok = True
    bad = (got != want) or not state_ok
    return (bad, f"real={got!r} state=({list(c._queue)},{dict(c._mapping)}) reference={want!r} state=({ref_order},{ref_val})")


def key_idx_witness(pre):
    """Witness for RI after 'move/append key to the end, possibly evicting order[0]'."""
    return None


class GetItem(LRU):
    method = "__getitem__"

    def args(self):
        return [self.pre.ref, self.key]

    def p_ri(self, pre_st, out):
        p = self.pre
        hq, hm, h = post_state(p, out.st)
        arr, n, dom, val, size = as_terms(hq, hm)
        key = self.key.t
        i0 = p.idx(key)
        k = z3.Const(fresh_name("wk"), Obj)
        # witness: positions after moving key (at i0) to the end
        w = z3.Function(fresh_name("w"), Obj, I_)
        defn = z3.ForAll([k], w(k) == z3.If(z3.And(out.returned, z3.Select(p.dom, key), z3.Select(p.arr, p.n - 1) != key),
                                           z3.If(k == key, p.n - 1, z3.If(p.idx(k) < i0, p.idx(k), p.idx(k) - 1)), p.idx(k)))
        return z3.Implies(defn, z3.And(ri_post(p, out.st, w), aliases_ok(p, out.st)))

    def p_result(self, pre_st, out):
        p = self.pre
        present = z3.Select(p.dom, self.key.t)
        if out.raised:
            return z3.And(z3.Not(present), out.value.cls is KeyError)
        return z3.And(present, to_term(out.value, "obj") == z3.Select(p.val, self.key.t))

    def p_absent_unchanged(self, pre_st, out):
        if out.raised:
            return unchanged(self.pre, out.st)
        return None

    def p_recency(self, pre_st, out):
        """present => key becomes most recent, everything else keeps its relative order and value"""
        if out.raised:
            return None
        p = self.pre
        hq, hm, h = post_state(p, out.st)
        arr, n, dom, val, size = as_terms(hq, hm)
        key = self.key.t
        i0 = p.idx(key)
        j = z3.Int(fresh_name("j"))
        k = z3.Const(fresh_name("k"), Obj)
        return z3.And(
            n == p.n, z3.Select(arr, n - 1) == key,
            z3.ForAll([j], z3.Implies(z3.And(0 <= j, j < i0), z3.Select(arr, j) == z3.Select(p.arr, j))),
            z3.ForAll([j], z3.Implies(z3.And(i0 <= j, j < n - 1), z3.Select(arr, j) == z3.Select(p.arr, j + 1))),
            z3.ForAll([k], z3.Select(dom, k) == z3.Select(p.dom, k)),
            z3.ForAll([k], z3.Implies(z3.Select(p.dom, k), z3.Select(val, k) == z3.Select(p.val, k))),
        )

    def p_lock(self, pre_st, out):
        return lock_discipline(self.pre, out)

    posts = [("preserves_RI", p_ri), ("result", p_result), ("absent_state_unchanged", p_absent_unchanged),
             ("recency_and_frame", p_recency), ("lock_discipline", p_lock)]


class SetItem(LRU):
    method = "__setitem__"

    def args(self):
        return [self.pre.ref, self.key, self.value]

    def shape(self, out):
        p = self.pre
        hq, hm, h = post_state(p, out.st)
        return as_terms(hq, hm)

    def p_raises_nothing(self, pre_st, out):
        return out.returned

    def p_ri(self, pre_st, out):
        if out.raised:
            return None
        p = self.pre
        key = self.key.t
        present = z3.Select(p.dom, key)
        full = p.n == p.c
        i0 = p.idx(key)
        k = z3.Const(fresh_name("wk"), Obj)
        w = z3.Function(fresh_name("w"), Obj, I_)
        arr, n, dom, val, size = self.shape(out)
        defn = z3.ForAll([k], w(k) == z3.If(k == key, n - 1,
                                           z3.If(present, z3.If(p.idx(k) < i0, p.idx(k), p.idx(k) - 1),
                                                 z3.If(full, p.idx(k) - 1, p.idx(k)))))
        return z3.Implies(defn, z3.And(ri_post(p, out.st, w), aliases_ok(p, out.st)))

    def p_view(self, pre_st, out):
        """whole-view postcondition: value stored, key most recent, exactly order[0] evicted when
        absent and full, every other key keeps its value and relative order"""
        if out.raised:
            return None
        p = self.pre
        key, value = self.key.t, self.value.t
        arr, n, dom, val, size = self.shape(out)
        present = z3.Select(p.dom, key)
        full = p.n == p.c
        evict = z3.And(z3.Not(present), full)
        i0 = p.idx(key)
        j = z3.Int(fresh_name("j"))
        k = z3.Const(fresh_name("k"), Obj)
        first = z3.Select(p.arr, 0)
        return z3.And(
            z3.Select(dom, key), z3.Select(val, key) == value, z3.Select(arr, n - 1) == key,
            n == z3.If(present, p.n, z3.If(full, p.n, p.n + 1)), n <= p.c,
            z3.ForAll([k], z3.Implies(k != key, z3.Select(dom, k) == z3.And(z3.Select(p.dom, k), z3.Not(z3.And(evict, k == first))))),
            z3.ForAll([k], z3.Implies(z3.And(k != key, z3.Select(dom, k)), z3.Select(val, k) == z3.Select(p.val, k))),
            z3.Implies(present, z3.And(
                z3.ForAll([j], z3.Implies(z3.And(0 <= j, j < i0), z3.Select(arr, j) == z3.Select(p.arr, j))),
                z3.ForAll([j], z3.Implies(z3.And(i0 <= j, j < n - 1), z3.Select(arr, j) == z3.Select(p.arr, j + 1))))),
            z3.Implies(evict, z3.ForAll([j], z3.Implies(z3.And(0 <= j, j < n - 1), z3.Select(arr, j) == z3.Select(p.arr, j + 1)))),
            z3.Implies(z3.And(z3.Not(present), z3.Not(full)), z3.ForAll([j], z3.Implies(z3.And(0 <= j, j < n - 1), z3.Select(arr, j) == z3.Select(p.arr, j)))),
        )

    def p_lock(self, pre_st, out):
        return lock_discipline(self.pre, out)

    posts = [("raises_nothing", p_raises_nothing), ("preserves_RI", p_ri), ("view", p_view), ("lock_discipline", p_lock)]


class DelItem(LRU):
    method = "__delitem__"

    def args(self):
        return [self.pre.ref, self.key]

    def p_result(self, pre_st, out):
        present = z3.Select(self.pre.dom, self.key.t)
        if out.raised:
            return z3.And(z3.Not(present), out.value.cls is KeyError)
        return present

    def p_absent(self, pre_st, out):
        return unchanged(self.pre, out.st) if out.raised else None

    def p_ri(self, pre_st, out):
        if out.raised:
            return None
        p = self.pre
        key = self.key.t
        i0 = p.idx(key)
        k = z3.Const(fresh_name("wk"), Obj)
        w = z3.Function(fresh_name("w"), Obj, I_)
        defn = z3.ForAll([k], w(k) == z3.If(p.idx(k) < i0, p.idx(k), p.idx(k) - 1))
        return z3.Implies(defn, z3.And(ri_post(p, out.st, w), aliases_ok(p, out.st)))

    def p_view(self, pre_st, out):
        if out.raised:
            return None
        p = self.pre
        key = self.key.t
        hq, hm, h = post_state(p, out.st)
        arr, n, dom, val, size = as_terms(hq, hm)
        i0 = p.idx(key)
        j = z3.Int(fresh_name("j"))
        k = z3.Const(fresh_name("k"), Obj)
        return z3.And(
            n == p.n - 1, z3.Not(z3.Select(dom, key)),
            z3.ForAll([k], z3.Implies(k != key, z3.Select(dom, k) == z3.Select(p.dom, k))),
            z3.ForAll([k], z3.Implies(z3.Select(dom, k), z3.Select(val, k) == z3.Select(p.val, k))),
            z3.ForAll([j], z3.Implies(z3.And(0 <= j, j < i0), z3.Select(arr, j) == z3.Select(p.arr, j))),
            z3.ForAll([j], z3.Implies(z3.And(i0 <= j, j < n), z3.Select(arr, j) == z3.Select(p.arr, j + 1))),
        )

    def p_lock(self, pre_st, out):
        return lock_discipline(self.pre, out)

    posts = [("result", p_result), ("absent_state_unchanged", p_absent), ("preserves_RI", p_ri), ("view", p_view), ("lock_discipline", p_lock)]


class Get(GetItem):
    """get(key, default): reference `get` = refresh when present, default otherwise; touches the
    state only through self[key]."""
    method = "get"

    def args(self):
        return [self.pre.ref, self.key, self.default]

    def p_result(self, pre_st, out):
        p = self.pre
        present = z3.Select(p.dom, self.key.t)
        if out.raised:
            return False
        return z3.If(present, to_term(out.value, "obj") == z3.Select(p.val, self.key.t), to_term(out.value, "obj") == self.default.t)

    def p_absent(self, pre_st, out):
        return z3.Implies(z3.Not(z3.Select(self.pre.dom, self.key.t)), unchanged(self.pre, out.st))

    def p_recency(self, pre_st, out):
        f = GetItem.p_recency(self, pre_st, out)
        return z3.Implies(z3.Select(self.pre.dom, self.key.t), f)

    posts = [("preserves_RI", GetItem.p_ri), ("result", p_result), ("absent_state_unchanged", p_absent),
             ("recency_and_frame", p_recency), ("lock_discipline", GetItem.p_lock)]


class SetDefault(LRU):
    method = "setdefault"

    def args(self):
        return [self.pre.ref, self.key, self.default]

    def p_raises_nothing(self, pre_st, out):
        return out.returned

    def p_result(self, pre_st, out):
        if out.raised:
            return None
        p = self.pre
        present = z3.Select(p.dom, self.key.t)
        return to_term(out.value, "obj") == z3.If(present, z3.Select(p.val, self.key.t), self.default.t)

    def p_ri(self, pre_st, out):
        if out.raised:
            return None
        p = self.pre
        key = self.key.t
        present = z3.Select(p.dom, key)
        full = p.n == p.c
        i0 = p.idx(key)
        k = z3.Const(fresh_name("wk"), Obj)
        w = z3.Function(fresh_name("w"), Obj, I_)
        hq, hm, h = post_state(p, out.st)
        arr, n, dom, val, size = as_terms(hq, hm)
        defn = z3.ForAll([k], w(k) == z3.If(k == key, n - 1,
                                           z3.If(present, z3.If(p.idx(k) < i0, p.idx(k), p.idx(k) - 1),
                                                 z3.If(full, p.idx(k) - 1, p.idx(k)))))
        return z3.Implies(defn, z3.And(ri_post(p, out.st, w), aliases_ok(p, out.st)))

    def p_view(self, pre_st, out):
        if out.raised:
            return None
        p = self.pre
        key = self.key.t
        hq, hm, h = post_state(p, out.st)
        arr, n, dom, val, size = as_terms(hq, hm)
        present = z3.Select(p.dom, key)
        evict = z3.And(z3.Not(present), p.n == p.c)
        k = z3.Const(fresh_name("k"), Obj)
        return z3.And(
            z3.Select(dom, key), z3.Select(arr, n - 1) == key,
            z3.Select(val, key) == z3.If(present, z3.Select(p.val, key), self.default.t),
            z3.ForAll([k], z3.Implies(k != key, z3.Select(dom, k) == z3.And(z3.Select(p.dom, k), z3.Not(z3.And(evict, k == z3.Select(p.arr, 0)))))),
            z3.ForAll([k], z3.Implies(z3.And(k != key, z3.Select(dom, k)), z3.Select(val, k) == z3.Select(p.val, k))),
        )

    def p_lock(self, pre_st, out):
        return lock_discipline(self.pre, out)

    posts = [("raises_nothing", p_raises_nothing), ("result", p_result), ("preserves_RI", p_ri), ("view", p_view), ("lock_discipline", p_lock)]


class Contains(LRU):
    method = "__contains__"

    def args(self):
        return [self.pre.ref, self.key]

    def p_result(self, pre_st, out):
        if out.raised:
            return False
        return to_term(out.value, "bool") == z3.Select(self.pre.dom, self.key.t)

    def p_pure(self, pre_st, out):
        return z3.And(unchanged(self.pre, out.st), aliases_ok(self.pre, out.st))

    def p_atomic(self, pre_st, out):
        """one dictionary membership test, no write, no other read (GIL-atomic)"""
        evs = [e for e in out.st.trace if e.kind in ("read", "write")]
        return len(evs) == 1 and evs[0].name == "dict.__contains__" and evs[0].args[0] == self.pre.m

    posts = [("result", p_result), ("no_reorder", p_pure), ("single_atomic_read", p_atomic)]


class Len(LRU):
    method = "__len__"

    def p_result(self, pre_st, out):
        if out.raised:
            return False
        return to_term(out.value, "int") == self.pre.n

    def p_pure(self, pre_st, out):
        return z3.And(unchanged(self.pre, out.st), not any(e.kind == "write" for e in out.st.trace))

    posts = [("result", p_result), ("no_reorder", p_pure)]


class Clear(LRU):
    method = "clear"

    def p_post(self, pre_st, out):
        if out.raised:
            return False
        p = self.pre
        hq, hm, h = post_state(p, out.st)
        arr, n, dom, val, size = as_terms(hq, hm)
        k = z3.Const(fresh_name("k"), Obj)
        return z3.And(n == 0, size == 0, z3.ForAll([k], z3.Not(z3.Select(dom, k))), aliases_ok(p, out.st),
                      to_term(h.fields["capacity"], "int") == p.c)

    def p_lock(self, pre_st, out):
        return lock_discipline(self.pre, out) and any(e.kind == "write" for e in out.st.trace)

    posts = [("empties_and_RI", p_post), ("lock_discipline", p_lock)]


def listing(out):
    """result of a listing method as (arr, n, kind)"""
    v = out.value
    if isinstance(v, Ref):
        h = out.st.get(v)
        from pyvc.values import HIter
        if isinstance(h, HIter):
            if isinstance(h.items, SSeq):
                return h.items.arr, h.items.n, h.items.k
            raise ValueError("concrete iterator")
        return h.arr, h.n, h.k
    if isinstance(v, SSeq):
        return v.arr, v.n, v.k
    raise ValueError(f"not a listing: {v!r}")


class Listing(LRU):
    """items/keys/values/__iter__/__reversed__: most-recent-first (resp. oldest first) listing of
    the view; state unchanged."""
    what = "keys"
    rev = True

    def p_result(self, pre_st, out):
        if out.raised:
            return False
        p = self.pre
        arr, n, kind = listing(out)
        j = z3.Int(fresh_name("j"))
        src = (p.n - 1 - j) if self.rev else j
        keyj = z3.Select(p.arr, src)
        if self.what == "keys":
            body = z3.Select(arr, j) == keyj
        elif self.what == "values":
            body = z3.Select(arr, j) == z3.Select(p.val, keyj)
        else:
            body = z3.And(z3.Select(arr[0], j) == keyj, z3.Select(arr[1], j) == z3.Select(p.val, keyj))
        return z3.And(n == p.n, z3.ForAll([j], z3.Implies(z3.And(0 <= j, j < p.n), body)))

    def p_pure(self, pre_st, out):
        return z3.And(unchanged(self.pre, out.st), aliases_ok(self.pre, out.st), not any(e.kind == "write" and e.args[0] in (self.pre.q, self.pre.m) for e in out.st.trace))

    posts = [("listing", p_result), ("state_unchanged", p_pure)]


class Items(Listing):
    method, what, rev = "items", "items", True


class Values(Listing):
    method, what, rev = "values", "values", True

    def configure(self, I):
        super().configure(I)


class Keys(Listing):
    method, what, rev = "keys", "keys", True


class Iter(Listing):
    method, what, rev = "__iter__", "keys", True


class Reversed(Listing):
    method, what, rev = "__reversed__", "keys", False


class Copy(LRU):
    method = "copy"

    def p_post(self, pre_st, out):
        if out.raised:
            return False
        p = self.pre
        r = out.value
        if not isinstance(r, Ref) or r == p.ref:
            return False
        h = out.st.get(r)
        q, m = h.fields.get("_queue"), h.fields.get("_mapping")
        if q in (p.q, None) or m in (p.m, None) or q.id not in out.st.allocated or m.id not in out.st.allocated:
            return False  # shares the deque / dict with the source
        for nm, meth in (("_popleft", "popleft"), ("_pop", "pop"), ("_remove", "remove"), ("_append", "append")):
            b = h.fields.get(nm)
            if not (isinstance(b, BoundMethod) and b.recv == q and b.name == meth):
                return False
        lk = h.fields.get("_wlock")
        if not (isinstance(lk, Ref) and lk != p.lock and isinstance(out.st.get(lk), HLock)):
            return False
        arr, n, dom, val, size = as_terms(out.st.get(q), out.st.get(m))
        j = z3.Int(fresh_name("j"))
        k = z3.Const(fresh_name("k"), Obj)
        return z3.And(
            to_term(h.fields["capacity"], "int") == p.c, n == p.n, size == p.size,
            z3.ForAll([j], z3.Implies(z3.And(0 <= j, j < n), z3.Select(arr, j) == z3.Select(p.arr, j))),
            z3.ForAll([k], z3.Select(dom, k) == z3.Select(p.dom, k)),
            z3.ForAll([k], z3.Implies(z3.Select(dom, k), z3.Select(val, k) == z3.Select(p.val, k))),
        )

    def p_src(self, pre_st, out):
        return z3.And(unchanged(self.pre, out.st), aliases_ok(self.pre, out.st))

    posts = [("fresh_equal_copy_with_RI", p_post), ("source_unchanged", p_src)]


class SetState(LRU):
    """__setstate__(__getstate__()) on a fresh instance: same view, RI re-established
    (aliases re-bound to the restored deque, new lock).  pickle itself is a dependency."""
    method = "__setstate__"

    def setup(self, I, st):
        self.pre = Cache(st)
        # target object as created by object.__new__ during unpickling: no attributes
        self.new = st.alloc(HObj(U.LRUCache), initial=True)
        self.key = Sym(z3.Const("key", Obj), "obj")
        self.value = Sym(z3.Const("value", Obj), "obj")
        self.default = Sym(z3.Const("default", Obj), "obj")
        # state dict as produced by the real __getstate__ (run here on the pre-state)
        clo = I.closure_of_function(U.LRUCache.__getstate__)
        rs = I.call_closure(st, clo, [self.pre.ref], {})
        assert len(rs) == 1
        self.state = rs[0][1]
        return [self.new, self.state], {}

    def configure(self, I):
        super().configure(I)
        I.specs["LRUCache.__dict__.update"] = None

    def p_post(self, pre_st, out):
        if out.raised:
            return False
        p = self.pre
        h = out.st.get(self.new)
        q, m = h.fields.get("_queue"), h.fields.get("_mapping")
        if q is None or m is None:
            return False
        for nm, meth in (("_popleft", "popleft"), ("_pop", "pop"), ("_remove", "remove"), ("_append", "append")):
            b = h.fields.get(nm)
            if not (isinstance(b, BoundMethod) and b.recv == q and b.name == meth):
                return False
        lk = h.fields.get("_wlock")
        if not (isinstance(lk, Ref) and isinstance(out.st.get(lk), HLock) and lk.id in out.st.allocated):
            return False
        arr, n, dom, val, size = as_terms(out.st.get(q), out.st.get(m))
        j = z3.Int(fresh_name("j"))
        k = z3.Const(fresh_name("k"), Obj)
        return z3.And(
            to_term(h.fields["capacity"], "int") == p.c, n == p.n, size == p.size,
            z3.ForAll([j], z3.Implies(z3.And(0 <= j, j < n), z3.Select(arr, j) == z3.Select(p.arr, j))),
            z3.ForAll([k], z3.Select(dom, k) == z3.Select(p.dom, k)),
            z3.ForAll([k], z3.Implies(z3.Select(dom, k), z3.Select(val, k) == z3.Select(p.val, k))),
        )

    def concretize(self, model, pre_st, out):
        w = LRU.concretize(self, model, pre_st, out)
        w["method"] = "pickle"
        return w

    posts = [("restores_view_and_RI", p_post)]


class Init(VC):
    """LRUCache(capacity): empty view, RI."""
    prop = "C26"
    target = "jinja2.utils:LRUCache.__init__"

    def __init__(self):
        super().__init__("C26", "C26.LRUCache.__init__")

    def configure(self, I):
        I.inline.update({"jinja2.utils:LRUCache._postinit"})

    def setup(self, I, st):
        self.obj = st.alloc(HObj(U.LRUCache), initial=True)
        self.cap = Sym(z3.Int("capacity"), "int")
        st.assume(self.cap.t >= 1)
        return [self.obj, self.cap], {}

    def p_post(self, pre_st, out):
        if out.raised:
            return False
        h = out.st.get(self.obj)
        q, m = h.fields.get("_queue"), h.fields.get("_mapping")
        if q is None or m is None:
            return False
        hq, hm = out.st.get(q), out.st.get(m)
        if not (hq.concrete and hq.items == [] and hq.tag == "deque" and hm.concrete and hm.items == {}):
            return False
        for nm, meth in (("_popleft", "popleft"), ("_pop", "pop"), ("_remove", "remove"), ("_append", "append")):
            b = h.fields.get(nm)
            if not (isinstance(b, BoundMethod) and b.recv == q and b.name == meth):
                return False
        lk = h.fields.get("_wlock")
        return isinstance(lk, Ref) and isinstance(out.st.get(lk), HLock) and to_term(h.fields["capacity"], "int") == self.cap.t

    posts = [("empty_with_RI", p_post)]

    def concretize(self, model, pre_st, out):
        return {"method": "history"}

    def replay(self, w):
        return replay_history(w)


def table_aliases(task, tier, seed):
    """__copy__ is copy; the class is registered as a MutableMapping."""
    from collections import abc
    rs = []
    ok = U.LRUCache.__dict__.get("__copy__") is U.LRUCache.__dict__.get("copy")
    rs.append(Res("C26.LRUCache.__copy__.is_copy", "discharged" if ok else "refuted", "table", 0, "" if ok else "__copy__ is not copy", "table", {"method": "copy", "capacity": 1, "queue": [], "values": {}, "key": 0, "value": 0, "default": 0}))
    args_ok = True
    try:
        c = U.LRUCache(3)
        args_ok = c.__getnewargs__() == (3,)
    except Exception:
        args_ok = False
    rs.append(Res("C26.LRUCache.__getnewargs__", "discharged" if args_ok else "refuted", "table", 0, "", "table"))
    return rs


# ---------------------------------------------------------------------------------------------------------------------
# Bounded cross-check of the proof (never counted as proved; the VCs above decide the property): every history of public
# operations up to a length, run on the real class against the reference LRU map of Appendix A.4.  It guards the
# verifier itself (a wrong dependency spec for deque / dict would show here) and is the exploration of the thorough tier.

HIST_OPS = ([("set", k) for k in (1, 2, 3)] + [("get", k) for k in (1, 2, 3)] + [("getitem", 1), ("setdefault", 2), ("setdefault", 3),
            ("del", 1), ("del", 2), ("contains", 3), ("copy", 0), ("pickle", 0), ("clear", 0), ("setstate", 0)])


def run_history(cap, ops):
    """-> None or a description of the first divergence from the reference map"""
    import pickle
    c = U.LRUCache(cap)
    order, val = [], {}

    def touch(k):
        order.remove(k)
        order.append(k)

    def put(k, v):
        if k in val:
            order.remove(k)
        elif len(order) == cap:
            del val[order.pop(0)]
        order.append(k)
        val[k] = v

    for n, (op, k) in enumerate(ops):
        want = got = None
        try:
            if op == "set":
                c[k] = (k, n)
                put(k, (k, n))
            elif op == "get":
                got = c.get(k, "dflt")
                want = val.get(k, "dflt")
                if k in val:
                    touch(k)
            elif op == "getitem":
                try:
                    got = c[k]
                except KeyError:
                    got = "KeyError"
                want = val.get(k, "KeyError")
                if k in val:
                    touch(k)
            elif op == "setdefault":
                got = c.setdefault(k, ("d", n))
                if k in val:
                    want = val[k]
                    touch(k)
                else:
                    want = ("d", n)
                    put(k, want)
            elif op == "del":
                try:
                    del c[k]
                    got = "ok"
                except KeyError:
                    got = "KeyError"
                want = "ok" if k in val else "KeyError"
                if k in val:
                    order.remove(k)
                    del val[k]
            elif op == "contains":
                got, want = k in c, k in val
            elif op == "copy":
                c = c.copy()
            elif op == "pickle":
                c = pickle.loads(pickle.dumps(c))
            elif op == "setstate":
                d = c.__getstate__()
                c = U.LRUCache.__new__(U.LRUCache)
                c.__setstate__(d)
            else:
                c.clear()
                order, val = [], {}
        except Exception as ex:
            return f"op#{n} {op}({k}) raised {type(ex).__name__}: {ex}"
        if got != want:
            return f"op#{n} {op}({k}) returned {got!r}, reference {want!r}"
        view = (list(c._queue), dict(c._mapping), len(c), list(c.keys()), list(c.values()), list(c.items()), list(reversed(c)), list(c), c.capacity)
        ref = (order, val, len(order), order[::-1], [val[x] for x in order[::-1]], [(x, val[x]) for x in order[::-1]], list(order), order[::-1], cap)
        if view != ref:
            return f"after op#{n} {op}({k}): real view {view!r}, reference {ref!r}"
    return None


def bounded_histories(task, tier, seed):
    import itertools
    t0 = time.time()
    depth = 3 if tier == "quick" else 5
    n = 0
    for cap in (1, 2, 3):
        for L_ in range(1, depth + 1):
            for ops in itertools.product(HIST_OPS, repeat=L_):
                n += 1
                r = run_history(cap, ops)
                if r:
                    return [Res(f"{task.name}.diverges", "refuted", "bounded", time.time() - t0, f"capacity {cap}, history {ops!r}: {r}", "bounded",
                                {"method": "bounded_history", "capacity": cap, "ops": [list(o) for o in ops]})]
    task.stats = {"cases": n}
    return [Res(f"{task.name}.all", "bounded-ok", "bounded", time.time() - t0, f"{n} histories agree with the reference LRU map", "bounded")]


def replay_bounded_history(w):
    if w.get("method") != "bounded_history":
        return replay_lru(w)
    r = run_history(w["capacity"], [tuple(o) for o in w["ops"]])
    return (bool(r), r or "history agrees with the reference LRU map")


# ---------------------------------------------------------------------------------------------------------------------
# Concurrent clause, the part the per-method lock discipline does not give (added after hunt report C26_1): an operation of
# the concurrent list that reads `_mapping` WITHOUT the lock (__contains__, __len__ read it in one GIL-atomic step) is only
# linearizable if every writer changes `_mapping` in at most ONE step per critical section - otherwise the reader can see
# the state between two steps (key evicted, new key not yet inserted), which no atomic order of the calls produces.

CONCURRENT_READERS = ("Contains", "Len")
CONCURRENT_WRITERS = ("SetItem", "DelItem", "Clear", "GetItem", "Get")


def _mapping_events(vc, outs, kind):
    """per reachable path: the `kind` events on the cache's mapping / queue with the locks held at that moment"""
    from pyvc.smt import check_sat
    per_path = []
    for o in outs:
        if check_sat(o.st.pc, 400, 0, use_cvc5=False).status == "unsat":
            continue
        per_path.append([e for e in o.st.trace if e.kind == kind and e.args and isinstance(e.args[0], Ref) and e.args[0] in (vc.pre.m, vc.pre.q)])
    return per_path


def concurrent_unlocked_readers(task, tier, seed):
    from pyvc.engine import Interp
    t0 = time.time()
    g = globals()
    unlocked = []
    for cn in CONCURRENT_READERS:
        vc = g[cn]()
        pre, outs = vc.paths(Interp())
        for evs in _mapping_events(vc, outs, "read"):
            if any(vc.pre.lock.id not in e.held for e in evs):
                unlocked.append(vc.method)
                break
    steps = {}
    for cn in CONCURRENT_WRITERS:
        vc = g[cn]()
        pre, outs = vc.paths(Interp())
        worst = 0
        for evs in _mapping_events(vc, outs, "write"):
            worst = max(worst, len([e for e in evs if e.args[0] == vc.pre.m]))
        steps[vc.method] = worst
    multi = sorted(m for m, n in steps.items() if n > 1)
    name = f"{task.name}.unlocked_readers_see_single_steps"
    if unlocked and multi:
        return [Res(name, "refuted", "pyvc-path", time.time() - t0,
                    f"{', '.join(unlocked)} read _mapping without taking _wlock, and {', '.join(multi)} change(s) _mapping in {max(steps[m] for m in multi)} separate "
                    "steps inside its critical section: a concurrent reader can observe the state between the steps (e.g. the evicted key already gone, the new "
                    "key not yet present), which no atomic ordering of the calls produces", "vc",
                    {"method": "concurrent_reader", "unlocked": unlocked, "multi_step_writers": multi})]
    return [Res(name, "discharged", "pyvc-path", time.time() - t0,
                f"unlocked readers: {unlocked or 'none'}; mapping steps per critical section: {steps}", "vc")]


def replay_concurrent_reader(w=None):
    """native schedule (no library code changed): pause a writer thread by sys.settrace right after the eviction line of
    __setitem__ on a full cache, let a reader thread call `in` twice and len(), resume"""
    import linecache
    import sys
    import threading
    c = U.LRUCache(2)
    c["a"], c["b"] = 1, 2
    paused, resume = threading.Event(), threading.Event()
    st = {"evict": False, "done": False}

    def tracer(frame, event, arg):
        code = frame.f_code
        if code.co_name != "__setitem__" or not code.co_filename.endswith("utils.py"):
            return None

        def local(frame, event, arg):
            if event == "line" and not st["done"]:
                text = linecache.getline(code.co_filename, frame.f_lineno)
                if st["evict"]:
                    st["done"] = True
                    paused.set()
                    resume.wait(3)
                elif "_popleft" in text:
                    st["evict"] = True
            return local
        return local

    def writer():
        sys.settrace(tracer)
        try:
            c["c"] = 3
        finally:
            sys.settrace(None)

    seen = {}

    def reader():
        seen["a"], seen["c"], seen["len"] = "a" in c, "c" in c, len(c)

    tw = threading.Thread(target=writer)
    tw.start()
    if not paused.wait(5):
        resume.set()
        tw.join()
        return (False, "could not force the schedule")
    tr = threading.Thread(target=reader)
    tr.start()
    tr.join(1.0)          # a reader that takes the lock is still waiting here: nothing observed inside the critical section
    resume.set()
    tw.join()
    tr.join()
    ok = (seen["a"], seen["c"], seen["len"]) in {(True, False, 2), (False, True, 2)}
    return (not ok, f"during cache['c'] = 3 on the full cache [a, b] a concurrent reader saw 'a' in cache = {seen['a']}, 'c' in cache = {seen['c']}, len = {seen['len']}"
                    + ("" if ok else ": no atomic ordering of set('c'), contains('a'), contains('c') gives this"))


concurrent_readers = FnTask("C26", "C26.concurrent", concurrent_unlocked_readers, "vc", replay_concurrent_reader)
concurrent_readers.finding_key = lambda res: "unlocked:" + ",".join((res.witness or {}).get("unlocked", [])) + "|multi-step:" + ",".join((res.witness or {}).get("multi_step_writers", []))

histories = FnTask("C26", "C26.bounded.histories", bounded_histories, "bounded", replay_bounded_history)
histories.bound_text = ("cross-check of the proof, not a deciding step: all histories of length <= 3 (thorough 5) over 16 operations (set/get/getitem/"
                        "setdefault/del/contains on keys 1..3, copy, pickle round trip, __setstate__, clear), capacities 1..3, on the real LRUCache vs "
                        "the reference map: results, queue, mapping, len, keys/values/items/reversed/iter order after every step")

TASKS = [GetItem(), SetItem(), DelItem(), Get(), SetDefault(), Contains(), Len(), Clear(), Items(), Values(), Keys(),
         Iter(), Reversed(), Copy(), SetState(), Init(), FnTask("C26", "C26.LRUCache.tables", table_aliases, "table", replay_lru), concurrent_readers, histories]

META = {
    "level": "proof",
    "explanation": "Every method of the real jinja2.utils.LRUCache is symbolically executed from its source in /repo "
                   "over an arbitrary cache state satisfying the representation invariant; each postcondition "
                   "(reference-map result, whole-view frame, RI preservation, lock discipline) is a VC discharged by z3/cvc5.",
    "assumptions": [
        "A1 integers are mathematical", "A-EQ key equality/hash are pure and coincide with identity of abstract keys",
        "sequential semantics only: the concurrent clause is reduced to the proved lock discipline plus the assumption that a "
        "threading.Lock critical section is atomic w.r.t. others on the same lock and one `key in dict` is atomic under the GIL",
        "non-aliasing: the cache's _mapping, _queue, _wlock are distinct objects not shared with arguments",
    ],
    "trusted_base": ["z3 5.1 / cvc5 1.0.3", "pyvc symbolic executor (python ast -> VCs)", "collections.deque / dict / threading.Lock dependency specs"],
}
