"""C34 additions by the main session (after the seeded-change round):

  C34.block_reference.concat[sync|async]  a block called as a value (`{{ super() }}`, `{{ self.name() }}`) joins its
        stream with the ENVIRONMENT's concat (native_concat for a native environment), then wraps in Markup iff autoescape
  C34.has_safe_repr.exact_types           compiler.has_safe_repr is True only for exact builtin types whose repr()
        evaluates back to an equal value of the same type (the native code generator writes such constants as text)
"""
from __future__ import annotations

import collections
import z3

from pyvc.contract import VC, Res, FnTask
from pyvc.values import Sym, Ref, HObj, HList, sym, SSeq
from pyvc import abstract as A
from pyvc.smt import to_term

import jinja2.runtime as R
import jinja2.compiler as C
from jinja2 import Environment


def native_block_values(w=None):
    """Native oracle: in native environments (sync, async-enabled) a block called as a value returns the native value."""
    from jinja2.nativetypes import NativeEnvironment
    from jinja2 import DictLoader
    problems = []
    for is_async in (False, True):
        env = NativeEnvironment(enable_async=is_async, loader=DictLoader({
            "base": "{% block b %}{{ v }}{% endblock %}",
            "child": "{% extends 'base' %}{% block b %}{{ super() }}{% endblock %}",
            "selfref": "{% block b %}{{ v }}{% endblock %}{{ self.b() }}"}))
        for v in ([1, 2], {"a": 1}, 42, (1, "x")):
            try:
                got = env.get_template("child").render(v=v)
            except Exception as ex:
                got = f"{type(ex).__name__}: {ex}"
            if got != v:
                problems.append(f"async={is_async}: {{{{ super() }}}} over value {v!r} returned {got!r}")
    return (bool(problems), "; ".join(problems[:3]) or "block references return native values")


class BlockRefCall(VC):
    prop = "C34"

    def __init__(self, mode):
        self.mode = mode
        self.target = "jinja2.runtime:BlockReference.__call__" if mode == "sync" else "jinja2.runtime:BlockReference._async_call"
        super().__init__("C34", f"C34.block_reference.concat[{mode}]")

    def configure(self, I):
        I.specs["Environment.concat"] = A.abstract_fn("environment.concat", returns="obj")
        I.specs["call_obj"] = A.abstract_fn("block_render_func", returns="obj")
        I.specs["str.join"] = A.abstract_fn("str.join", returns="str")  # a plain "".join of the stream (not the environment's concat)
        import markupsafe
        I.specs[("fn", id(markupsafe.Markup))] = A.abstract_fn("Markup", returns="obj")

        def comp_abstract(I_, e, g, st, cfr, itv, elt_fn):
            # [x async for x in <stream>] with the identity element: the collected stream itself (A7)
            return [(st, itv)]

        I.specs["comp_abstract"] = comp_abstract

    def setup(self, I, st):
        self.autoescape = sym("autoescape", "bool")
        self.env = A.obj(st, Environment, "environment", fields={"is_async": self.mode == "async"})
        evc = A.obj(st, object, "eval_ctx", fields={"autoescape": self.autoescape})
        st.get(evc).cls = R.EvalContext if hasattr(R, "EvalContext") else object
        self.ctx = A.obj(st, R.Context, "context", fields={"environment": self.env, "eval_ctx": evc})
        self.depth = sym("depth", "int")
        self.stack = A.alist(st, "stack", "obj")
        hs = st.get(self.stack)
        st.assume(self.depth.t >= 0, self.depth.t < hs.n)
        self.hs = hs
        self.ref = A.obj(st, R.BlockReference, "self", fields={"name": sym("name", "str"), "_context": self.ctx, "_stack": self.stack, "_depth": self.depth})
        return [self.ref], {}

    def p_concat(self, pre, out):
        if out.raised:
            return False
        calls = A.calls(out, "block_render_func")
        cc = A.calls(out, "environment.concat")
        if len(calls) != 1 or len(cc) != 1:
            return False
        # the stream joined is the one produced by stack[depth](context)
        stream = cc[0].args[1]
        if stream is not calls[0].result:
            return False
        callee_ok = to_term(calls[0].args[0], "obj") == z3.Select(self.hs.arr, self.depth.t)
        mk = A.calls(out, "Markup")
        if mk:
            if len(mk) != 1 or mk[0].args[0] is not cc[0].result or out.value is not mk[0].result:
                return False
            return z3.And(callee_ok, self.autoescape.t)
        if out.value is not cc[0].result:
            return False
        return z3.And(callee_ok, z3.Not(self.autoescape.t))

    posts = [("joins_with_environment_concat", p_concat)]

    def replay(self, w):
        return native_block_values(w)

    def concretize(self, model, pre, out):
        return {"mode": self.mode}


class P(tuple):
    pass


NT = collections.namedtuple("NT", "x y")


def has_safe_repr_family(task, tier, seed):
    """bounded/table: a family of values incl. instances of container subclasses; True must imply exact type + round trip"""
    from markupsafe import Markup
    import enum

    class IE(enum.IntEnum):
        A = 1

    fam = [None, True, 1, 2.5, 1j, "s", b"b", range(3), ..., NotImplemented, (1, "a"), [1, [2]], {1, 2}, frozenset({1}), {"k": (1, 2)},
           P((1, 2)), NT(1, 2), collections.OrderedDict(a=1), collections.defaultdict(list), collections.Counter("ab"), Markup("<b>"),
           IE.A, (1, NT(1, 2)), [P((1,))], {"k": collections.OrderedDict()}, {NT(1, 2): 1}, float("inf"), float("nan"), -0.0, 10 ** 30, object()]
    rs = []
    bad = []
    for v in fam:
        try:
            ok = C.has_safe_repr(v)
        except Exception as ex:
            bad.append(f"has_safe_repr({v!r}) raised {type(ex).__name__}")
            continue
        if not ok:
            continue

        def exact(x):
            if type(x) in (tuple, list, set, frozenset):
                return all(exact(y) for y in x)
            if type(x) is dict:
                return all(exact(k) and exact(y) for k, y in x.items())
            return type(x) in (type(None), type(NotImplemented), type(...), bool, int, float, complex, range, str, bytes, Markup)
        if not exact(v):
            bad.append(f"has_safe_repr({v!r}) is True for a {type(v).__name__} (subclass / non-literal type): written as text it comes back as a different type")
    st = "refuted" if bad else "discharged"
    rs.append(Res("C34.has_safe_repr.exact_types", st, "table", 0, "; ".join(bad[:3]) or f"{len(fam)} values", "table", {"family": "container subclasses"} if bad else None))
    return rs


def replay_safe_repr(w):
    from jinja2.nativetypes import NativeEnvironment
    env = NativeEnvironment()
    env.filters["nt"] = lambda x: NT(x, 2)
    got = env.from_string("{{ 1|nt }}").render()
    return (type(got) is not NT, f"{{{{ 1|nt }}}} returned {got!r} of type {type(got).__name__}")


TASKS = [BlockRefCall("sync"), BlockRefCall("async"), FnTask("C34", "C34.has_safe_repr", has_safe_repr_family, "table", replay_safe_repr)]
