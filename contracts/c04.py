"""C04  Template inheritance renders the most-derived block overrides.

PROOF-OF-MECHANISM (DESIGN section 5, C04).  Abstract view: `context.blocks[name]` is the stack of block render
functions of `name`, MOST DERIVED FIRST.

Runtime (VCs on the real bodies, jinja2.runtime):
  C04.Context.__init__            blocks = {name: [own block]} (fresh singleton stacks, one per own block, nothing else)
  C04.Context.super               current at first index i of blocks[name] and i+1 < len  ->  BlockReference(name, self,
                                  THE stack, i+1); otherwise environment.undefined(..., name="super")
  C04.Context.derived             same template/eval_ctx, parent = get_all() shared + locals, blocks = per-name COPIES
  C04.BlockReference.__init__     stores (name, context, stack, depth)
  C04.BlockReference.super        depth+1 < len(stack) -> BlockReference(depth+1) on the same stack/context, else undefined
  C04.BlockReference.__call__     renders stack[depth](context), joined by environment.concat, Markup iff autoescape;
                                  async environment: delegates to _async_call
  C04.TemplateReference           self[name] = BlockReference(name, context, context.blocks[name], 0) (depth 0 = most derived),
                                  KeyError for an unknown block; repr names the class and the template
Compiler (emission contracts on the real visitors, jinja2.compiler):
  C04.emit.block / C04.emit.extends / C04.emit.output / C04.emit.template   (see the predicates below)
  C04.emit.for.scoped_block_sees_loop[shape]   visit_For creates the special `loop` variable whenever a scoped block lies ANYWHERE in
                                  the subtree of the loop body (so that an override rendered through derived(locals) sees it)

The mapping name -> stack is modelled *generically*: one unconstrained key `k`, a membership predicate dom and the value at
`k` (a heap list).  A dict comprehension / generator over `.items()` is evaluated once for the generic item (dependency spec
of comprehension semantics); every statement proved for the generic key holds for all keys.
"""
from __future__ import annotations

import ast
import z3

from pyvc.contract import VC, Res, FnTask, Task
from pyvc.emitcheck import EmitTask
from pyvc import emit, abstract as A
from pyvc.values import State, Sym, Ref, HObj, HList, HDict, HSet, Unsupported, sym, fresh, fresh_name, Obj, KIND_SORT, Exc
from pyvc.interp import Raised
from pyvc.smt import to_term, model_value

import jinja2.runtime as R
import jinja2.nodes as N
import jinja2.compiler as C
from jinja2 import Environment
from jinja2.exceptions import TemplateRuntimeError, TemplateAssertionError

from contracts.c34_extra import BlockRefCall
from contracts.emit_common import is_hole, hole_of

I_ = z3.IntSort()


# ================================================================== generic mapping name -> value

class GMap:
    """host class of the abstract mapping objects (HObj fields: dom, k, v)"""


class GItems:
    """`.items()` of a GMap (or the pairs produced from it by a generator expression)"""
    is_abstract_iterable = True

    def __init__(self, dom, k, v, desc="items"):
        self.dom, self.k, self.v, self.desc = dom, k, v, desc

    def __repr__(self):
        return f"GItems({self.desc})"


class Box:
    """host wrapper keeping a z3 array out of the interpreter's way"""

    def __init__(self, t):
        self.t = t

    def __repr__(self):
        return "Box"


def gmap(st, prefix, key, value, dom=None, initial=True):
    """mapping whose membership is `dom` and whose value at the generic key `key` is `value`"""
    if dom is None:
        dom = z3.Const(fresh_name(prefix + "_dom"), z3.ArraySort(KIND_SORT[key.k], z3.BoolSort()))
    return st.alloc(HObj(GMap, fields={"dom": Box(dom), "k": key, "v": value}, path=prefix), initial=initial)


def install_gmap(I):
    def getitem(I_, st, args, kwargs, node):
        m, idx = args
        h = st.get(m)
        k = h.fields["k"]
        if k is None:
            return [(st, Raised(Exc(KeyError, (idx,), origin=getattr(node, "lineno", None))))]
        if not (isinstance(idx, Sym) and idx.t.eq(k.t)):
            raise Unsupported("generic mapping read at a key other than its generic key", node)
        out = []
        for s, b in I_.fork_bool(st, z3.Select(h.fields["dom"].t, k.t)):
            if b:
                out.append((s, s.get(m).fields["v"]))
            else:
                out.append((s, Raised(Exc(KeyError, (idx,), origin=getattr(node, "lineno", None)))))
        return out

    def items(I_, st, args, kwargs, node):
        h = st.get(args[0])
        return [(st, GItems(h.fields["dom"].t, h.fields["k"], h.fields["v"]))]

    def update(I_, st, args, kwargs, node):
        m, src = args
        h = st.get(m)
        if not isinstance(src, GItems) or h.fields["k"] is not None:
            raise Unsupported("GMap.update of a non-empty mapping / non-generic source", node)
        k, v = src.v  # element of the generator: (key, value)
        if not (isinstance(k, Sym) and k.t.eq(src.k.t)):
            raise Unsupported("GMap.update: key expression is not the generic key", node)
        h.fields.update({"dom": Box(src.dom), "k": src.k, "v": v})
        st.written.add((m.id, "*"))
        return [(st, None)]

    I.specs["GMap.__getitem__"] = getitem
    I.specs["GMap.items"] = items
    I.specs["GMap.update"] = update

    def comp(I_, e, g, st, cfr, itv, elt_fn):
        if not isinstance(itv, GItems):
            return None
        out = []
        for s1, r in I_.assign(g.target, (itv.k, itv.v), st, cfr):
            if isinstance(r, Raised):
                out.append((s1, r))
                continue
            for s2, val in elt_fn(s1, cfr):
                if isinstance(val, Raised):
                    out.append((s2, val))
                    continue
                x = val[0]
                if isinstance(e, ast.DictComp):
                    kk, vv = x
                    if not (isinstance(kk, Sym) and kk.t.eq(itv.k.t)):
                        raise Unsupported("dict comprehension over a generic mapping changes the key", e)
                    out.append((s2, gmap(s2, "comp", itv.k, vv, dom=itv.dom, initial=False)))
                else:
                    out.append((s2, GItems(itv.dom, itv.k, x, desc="generator")))
        return out

    I.specs["comp_abstract"] = comp


def gm(st, ref):
    """(dom, k, v) of a GMap value, or None"""
    if isinstance(ref, Ref) and isinstance(st.get(ref), HObj) and st.get(ref).cls is GMap:
        f = st.get(ref).fields
        return f["dom"].t, f["k"], f["v"]
    return None


def undefined_spec():
    return A.abstract_fn("environment.undefined", returns="obj", tags=("undefined",))


def is_blockref(st, v, name, ctx, stack, depth_term):
    """structural part: v is a fresh BlockReference over (name, ctx, stack); returns the z3 condition on depth"""
    if not isinstance(v, Ref) or not isinstance(st.get(v), HObj) or st.get(v).cls is not R.BlockReference:
        return False
    f = st.get(v).fields
    if v.id not in st.allocated:
        return False
    if f.get("name") is not name or f.get("_context") != ctx or f.get("_stack") != stack:
        return False
    return to_term(f.get("_depth"), "int") == depth_term


# ================================================================== native oracle

def _src_block(name, body, scoped=False, required=False):
    return "{% block " + name + (" scoped" if scoped else "") + (" required" if required else "") + " %}" + body + "{% endblock %}"


def native_inheritance(w=None):
    try:
        v, d = _native_inheritance(w)
        # families of defects found in the hunt round and repaired since (f3dda99 required blocks, ef1cab4 block function names)
        for fam in (native_required_anywhere, native_block_names):
            if not v:
                v, d = fam(w)
        return v, d
    except Exception as ex:  # the family itself never fails on a correct tree
        return (True, f"inheritance family failed with {type(ex).__name__}: {str(ex)[:160]}")


def _native_inheritance(w=None):
    """Native oracle: families of inheritance chains rendered from a DictLoader and compared with an independent
    resolver (most-derived definition per block; super() = next less-derived; self.b() = most derived; content outside
    blocks in children dropped; scoped blocks see loop variables; required blocks)."""
    import itertools
    import jinja2
    from jinja2 import DictLoader
    problems = []

    def render(env, name, **kw):
        try:
            return env.get_template(name).render(**kw)
        except Exception as ex:
            return f"{type(ex).__name__}"

    for is_async in (False, True):
        # --- chains of depth 1..4 over blocks a, b; every template t_i (i > 0) extends t_{i-1}; each level either does not
        # define a block, overrides it plainly, or overrides it calling super()
        for depth in (1, 2, 3, 4):
            for choice in itertools.product(("none", "plain", "super"), repeat=2 * (depth - 1)):
                tpl = {"t0": "[" + _src_block("a", "a0") + "|" + _src_block("b", "b0") + "]"}
                defs = {"a": ["a0"], "b": ["b0"]}  # least derived first: list of (kind, text)
                kinds = {"a": ["plain"], "b": ["plain"]}
                for lvl in range(1, depth):
                    src = "{% extends 't" + str(lvl - 1) + "' %}OUTSIDE" + str(lvl)
                    for bi, bn in enumerate("ab"):
                        c = choice[(lvl - 1) * 2 + bi]
                        if c == "none":
                            continue
                        txt = f"{bn}{lvl}"
                        body = txt if c == "plain" else "<" + txt + "{{ super() }}>"
                        src += _src_block(bn, body)
                        defs[bn].append(txt)
                        kinds[bn].append(c)
                    tpl[f"t{lvl}"] = src + "TAIL"

                def resolve(bn, i):
                    # text of definition i (index into defs, most derived = last)
                    if kinds[bn][i] == "super":
                        return "<" + defs[bn][i] + (resolve(bn, i - 1) if i > 0 else "") + ">"
                    return defs[bn][i]

                want = "[" + resolve("a", len(defs["a"]) - 1) + "|" + resolve("b", len(defs["b"]) - 1) + "]"
                env = jinja2.Environment(loader=DictLoader(tpl), enable_async=is_async)
                got = render(env, f"t{depth - 1}")
                if got != want:
                    problems.append(f"async={is_async} chain {tpl}: rendered {got!r}, resolver says {want!r}")
                if len(problems) > 5:
                    return (True, "; ".join(problems[:3]))
        fam = {
            "base": "<{% block a %}A0{% endblock %}|{% block b %}B0{% endblock %}|{{ self.a() }}>",
            "mid": "{% extends 'base' %}{% block a %}A1({{ super() }}){% endblock %}",
            "leaf": "{% extends 'mid' %}x{% block a %}A2({{ super() }})[{{ super.super() }}]{% endblock %}{% block b %}B2{{ self.a() }}{% endblock %}y",
            "loop": "{% for i in [1, 2] %}{% block item scoped %}({{ i }}){% endblock %}{% endfor %}",
            "loop_unscoped": "{% for i in [1, 2] %}{% block item %}({{ i }}){% endblock %}{% endfor %}",
            "loopchild": "{% extends 'loop' %}{% block item %}<{{ i }}{{ super() }}>{% endblock %}",
            # a scoped block anywhere below a loop (not only as its direct child) sees the loop's variables, incl. the special `loop`
            "loop_if": "{% for i in [1, 2, 3] %}{% if i != 2 %}{% block item scoped %}({{ i }}){% endblock %}{% endif %}{% endfor %}",
            "loop_with": "{% for i in [1, 2] %}{% with w = i * 10 %}{% block item scoped %}({{ i }}){% endblock %}{% endwith %}{% endfor %}",
            "loop_filter": "{% for i in ['a', 'b'] %}{% filter upper %}{% block item scoped %}({{ i }}){% endblock %}{% endfilter %}{% endfor %}",
            "loop_loop": "{% for i in [1, 2] %}{% for j in [7] %}{% if j %}{% block item scoped %}({{ i }}{{ j }}){% endblock %}{% endif %}{% endfor %}{% endfor %}",
            "loop_if_child": "{% extends 'loop_if' %}{% block item %}<{{ loop.index }}/{{ loop.length }}:{{ i }}{% if loop.last %}!{% endif %}>{% endblock %}",
            "loop_with_child": "{% extends 'loop_with' %}{% block item %}<{{ loop.index }}:{{ i }}:{{ w }}>{% endblock %}",
            "loop_filter_child": "{% extends 'loop_filter' %}{% block item %}<{{ loop.index0 }}:{{ i }}>{% endblock %}",
            "loop_loop_child": "{% extends 'loop_loop' %}{% block item %}<{{ loop.index }}:{{ i }}{{ j }}>{% endblock %}",
            "loop_direct_child": "{% extends 'loop' %}{% block item %}<{{ loop.index }}:{{ i }}>{% endblock %}",
            "req":"[{% block r required %}{% endblock %}]",
            "req_child": "{% extends 'req' %}{% block r %}R{% endblock %}",
            "req_grandchild_noop": "{% extends 'req_mid' %}",
            "req_mid": "{% extends 'req' %}",
            "dyn": "{% extends parent %}{% block a %}D{% endblock %}",
            "cond": "{% if flag %}{% extends 'base' %}{% endif %}OUT{% block a %}C{% endblock %}",
            "twice": "{% extends 'base' %}{% extends 'base' %}",
            "cond_twice": "{% if flag %}{% extends 'base' %}{% endif %}{% extends 'base' %}",
            "nested": "{% block outer %}o[{% block inner %}i0{% endblock %}]{% endblock %}",
            "nested_child": "{% extends 'nested' %}{% block inner %}i1{{ super() }}{% endblock %}",
            "esc": "{% block a %}<b>{% endblock %}|{{ self.a() }}",
            "nosuper": "{% block a %}{{ super() }}{% endblock %}",
            "nosuper2": "{% block a %}{{ super.super }}x{% endblock %}",
            "onelevel": "{% extends 'base' %}{% block a %}{{ super.super() }}{% endblock %}",
        }
        env = jinja2.Environment(loader=DictLoader(fam), enable_async=is_async)
        cases = [
            ("base", {}, "<A0|B0|A0>"),
            ("mid", {}, "<A1(A0)|B0|A1(A0)>"),
            ("leaf", {}, "<A2(A1(A0))[A0]|B2A2(A1(A0))[A0]|A2(A1(A0))[A0]>"),
            ("loop", {}, "(1)(2)"),
            ("loop_unscoped", {}, "()()"),
            ("loopchild", {}, "<1(1)><2(2)>"),
            ("loop_if", {}, "(1)(3)"),
            ("loop_if_child", {}, "<1/3:1><3/3:3!>"),
            ("loop_with_child", {}, "<1:1:10><2:2:20>"),
            ("loop_filter_child", {}, "<0:A><1:B>"),
            ("loop_loop_child", {}, "<1:17><1:27>"),
            ("loop_direct_child", {}, "<1:1><2:2>"),
            ("req", {}, "TemplateRuntimeError"),
            ("req_child", {}, "[R]"),
            ("req_mid", {}, "TemplateRuntimeError"),
            ("req_grandchild_noop", {}, "TemplateRuntimeError"),
            ("dyn", {"parent": "base"}, "<D|B0|D>"),
            ("dyn", {"parent": "mid"}, "<D|B0|D>"),
            ("cond", {"flag": True}, "<C|B0|C>"),
            ("cond", {"flag": False}, "OUTC"),
            ("twice", {}, "TemplateRuntimeError"),
            ("cond_twice", {"flag": True}, "TemplateRuntimeError"),
            ("cond_twice", {"flag": False}, "<A0|B0|A0>"),
            ("nested", {}, "o[i0]"),
            ("nested_child", {}, "o[i1i0]"),
            ("nosuper", {}, "UndefinedError"),
            ("nosuper2", {}, "UndefinedError"),
            ("onelevel", {}, "UndefinedError"),
        ]
        for name, kw, want in cases:
            got = render(env, name, **kw)
            if got != want:
                problems.append(f"async={is_async} {name} {kw}: rendered {got!r}, documented {want!r}")
        env2 = jinja2.Environment(loader=DictLoader(fam), enable_async=is_async, autoescape=True)
        got = render(env2, "esc")
        if got != "<b>|<b>":
            problems.append(f"async={is_async} autoescape: a block called as value must be Markup: {got!r}")
        got = env.from_string("{{ self }}|{% block a %}{% endblock %}").render() if not is_async else "<TemplateReference None>|"
        if got != "<TemplateReference None>|":
            problems.append(f"repr(self) = {got!r}")
    problems += native_runtime_api()
    return (bool(problems), "; ".join(problems[:3]) or "inheritance template families agree with the independent resolver")


def native_runtime_api():
    """the runtime objects used directly: stacks most-derived first, super index arithmetic, independent derived contexts"""
    import jinja2
    from jinja2 import DictLoader
    from jinja2.runtime import BlockReference, TemplateReference
    problems = []
    env = jinja2.Environment(loader=DictLoader({"p": "{% block a %}P{% endblock %}{% block b %}Pb{% endblock %}",
                                                "c": "{% extends 'p' %}{% block a %}C{% endblock %}"}))
    c, p = env.get_template("c"), env.get_template("p")
    ctx = c.new_context({})
    if {k: len(v) for k, v in ctx.blocks.items()} != {"a": 1} or ctx.blocks["a"][0] is not c.blocks["a"]:
        problems.append(f"a fresh context must hold singleton stacks of the template's own blocks: {ctx.blocks}")
    "".join(c.root_render_func(ctx))
    if ctx.blocks.get("a") != [c.blocks["a"], p.blocks["a"]] or ctx.blocks.get("b") != [p.blocks["b"]]:
        problems.append(f"after extends the stacks must be most-derived first: {ctx.blocks}")
        return problems
    stack = ctx.blocks["a"]
    for i, fn in enumerate(stack):
        r = ctx.super("a", fn)
        if i + 1 < len(stack):
            if not (isinstance(r, BlockReference) and r._depth == i + 1 and r._stack is stack and r._context is ctx):
                problems.append(f"context.super at index {i} of {len(stack)} returned {r!r} depth={getattr(r, '_depth', None)}")
        elif not isinstance(r, jinja2.Undefined):
            problems.append(f"context.super of the least derived definition must be undefined, got {r!r}")
    if not isinstance(ctx.super("nope", stack[0]), jinja2.Undefined):
        problems.append("context.super of an unknown block name must be undefined")
    for d in range(len(stack)):
        r = BlockReference("a", ctx, stack, d).super
        if d + 1 < len(stack):
            if not (isinstance(r, BlockReference) and r._depth == d + 1 and r._stack is stack):
                problems.append(f"BlockReference(depth={d}).super -> {r!r}")
        elif not isinstance(r, jinja2.Undefined):
            problems.append(f"BlockReference(depth={d}).super with a stack of {len(stack)} must be undefined, got depth {getattr(r, '_depth', None)}")
        if BlockReference("a", ctx, stack, d)() != "".join(stack[d](ctx)):
            problems.append(f"BlockReference(depth={d})() does not render stack[{d}]")
    ref = TemplateReference(ctx)["a"]
    if not (ref._depth == 0 and ref._stack is stack and ref._context is ctx):
        problems.append("self.a must refer to depth 0 of the context's stack")
    e2 = jinja2.Environment(loader=DictLoader({"p": "{% set from_parent = 1 %}{% block a %}{% endblock %}", "c": "{% extends 'p' %}{% set from_child = 2 %}"}))
    exp = {k: v for k, v in vars(e2.get_template("c").module).items() if not k.startswith("_")}
    if exp != {"from_parent": 1, "from_child": 2}:
        problems.append(f"the parent's layout must run in the child's own context (module exports {exp})")
    d = ctx.derived({"x": 1})
    if d.blocks != ctx.blocks or any(d.blocks[k] is ctx.blocks[k] for k in ctx.blocks) or d.eval_ctx is not ctx.eval_ctx or d.name != ctx.name:
        problems.append("a derived context must own equal copies of the block stacks and share eval_ctx/name")
    if d.resolve_or_missing("x") != 1:
        problems.append("a derived context must see the locals it was derived with")
    return problems


# ================================================================== runtime VCs

class RuntimeVC(VC):
    prop = "C04"
    timeout_quick = 15000

    def replay(self, w):
        return native_inheritance(w)

    def concretize(self, model, pre, out):
        return {"vc": self.name}

    def discharge(self, name, pc, cond, timeout, seed, pre, out):
        r = VC.discharge(self, name, pc, cond, timeout, seed, pre, out)
        if r.status == "refuted" and r.witness is None:
            r.witness = {"vc": self.name, "side_obligation": name}
        return r


class ContextInit(RuntimeVC):
    """Context(environment, parent, name, blocks, globals): the block stacks are fresh singleton lists of the template's
    own blocks - for every name (generic key)."""
    target = "jinja2.runtime:Context.__init__"

    def __init__(self, with_globals):
        self.with_globals = with_globals
        super().__init__("C04", f"C04.Context.__init__[globals={'mapping' if with_globals else 'None'}]")

    def configure(self, I):
        install_gmap(I)

        def evalctx(I_, st, args, kwargs, node):
            r = st.alloc(HObj(N.EvalContext, fields={"environment": args[0], "name": args[1] if len(args) > 1 else None}, path="eval_ctx"))
            return [(st, r)]

        I.specs[I.spec_key(N.EvalContext)] = evalctx
        base_set = I.specs.get(("fn", id(set)))

        def set_spec(I_, st, args, kwargs, node):
            # dependency spec: set(mapping) is the set of its keys
            if args and isinstance(args[0], Ref) and isinstance(st.get(args[0]), HDict) and not st.get(args[0]).concrete:
                h = st.get(args[0])
                return [(st, st.alloc(HSet(dom=h.dom, size=h.size, kk=h.kk)))]
            return I_.instantiate(st, set, args, kwargs, node)

        I.specs[("fn", id(set))] = set_spec

    def setup(self, I, st):
        self.obj = st.alloc(HObj(R.Context), initial=True)
        self.env = A.obj(st, Environment, "environment")
        self.parent = A.adict(st, "parent", "str", "obj")
        self.tname = sym("template_name", "str")
        self.k = sym("block_name", "str")
        self.own = sym("own_block", "obj")
        self.blocks = gmap(st, "blocks", self.k, self.own)
        self.bdom = gm(st, self.blocks)[0]
        self.globals = A.adict(st, "globals", "str", "obj") if self.with_globals else None
        return [self.obj, self.env, self.parent, self.tname, self.blocks, self.globals], {}

    def p_blocks(self, pre, out):
        if out.raised:
            return False
        f = out.st.get(self.obj).fields
        g = gm(out.st, f.get("blocks"))
        if g is None or f["blocks"] == self.blocks or f["blocks"].id not in out.st.allocated:
            return False
        dom, k, v = g
        if not (dom.eq(self.bdom) and k.t.eq(self.k.t)):
            return False
        # value at the generic name: a list allocated by this call holding exactly the template's own block
        if not (isinstance(v, Ref) and v.id in out.st.allocated and isinstance(out.st.get(v), HList)):
            return False
        arr, n, kind = A.list_terms(out.st, v)
        return z3.And(n == 1, z3.Select(arr, 0) == self.own.t)

    def p_fields(self, pre, out):
        if out.raised:
            return False
        st = out.st
        f = st.get(self.obj).fields
        ok = (f.get("parent") == self.parent and f.get("environment") == self.env and f.get("name") is self.tname)
        v = f.get("vars")
        ok = ok and isinstance(v, Ref) and isinstance(st.get(v), HDict) and st.get(v).concrete and st.get(v).items == {} and v.id in st.allocated
        ex = f.get("exported_vars")
        ok = ok and isinstance(ex, Ref) and isinstance(st.get(ex), HSet) and st.get(ex).items == [] and ex.id in st.allocated
        ec = f.get("eval_ctx")
        ok = ok and isinstance(ec, Ref) and st.get(ec).cls is N.EvalContext and st.get(ec).fields.get("environment") == self.env \
            and st.get(ec).fields.get("name") is self.tname
        if not ok:
            return False
        gk = f.get("globals_keys")
        if not (isinstance(gk, Ref) and isinstance(st.get(gk), HSet) and gk.id in st.allocated):
            return False
        hs = st.get(gk)
        if not self.with_globals:
            return hs.items == []
        q = z3.Const(fresh_name("q"), z3.StringSort())
        hg = st.get(self.globals)
        return z3.ForAll([q], z3.Select(hs.dom, q) == z3.Select(hg.dom, q)) if hs.items is None else False

    def p_frame(self, pre, out):
        """the arguments are not written"""
        ids = {self.parent.id, self.blocks.id, self.env.id} | ({self.globals.id} if self.globals else set())
        return not any(i in ids for i, _ in out.st.written)

    posts = [("blocks_are_fresh_singleton_stacks_of_own_blocks", p_blocks), ("other_fields", p_fields), ("arguments_not_written", p_frame)]


class ContextSuper(RuntimeVC):
    target = "jinja2.runtime:Context.super"

    def __init__(self):
        super().__init__("C04", "C04.Context.super")

    def configure(self, I):
        install_gmap(I)
        I.specs["Environment.undefined"] = undefined_spec()
        I.inline.add("jinja2.runtime:BlockReference.__init__")

    def setup(self, I, st):
        self.env = A.obj(st, Environment, "environment")
        self.bname = sym("name", "str")
        self.current = sym("current", "obj")
        self.stack = A.alist(st, "stack", "obj")
        hs = st.get(self.stack)
        self.arr, self.n = hs.arr, hs.n
        self.blocks = gmap(st, "blocks", self.bname, self.stack)
        self.dom = gm(st, self.blocks)[0]
        self.ctx = A.obj(st, R.Context, "self", fields={"blocks": self.blocks, "environment": self.env})
        # requires (C04.blocks.order): a block function asking for its parent is on the stack of its own name
        j = z3.Int("occ")
        st.assume(z3.Implies(z3.Select(self.dom, self.bname.t), z3.And(0 <= j, j < self.n, z3.Select(self.arr, j) == self.current.t)))
        return [self.ctx, self.bname, self.current], {}

    def first_index(self, i):
        j = z3.Int(fresh_name("fj"))
        return z3.And(0 <= i, i < self.n, z3.Select(self.arr, i) == self.current.t,
                      z3.ForAll([j], z3.Implies(z3.And(0 <= j, j < i), z3.Select(self.arr, j) != self.current.t)))

    def p_result(self, pre, out):
        if out.raised:
            return False
        st = out.st
        known = z3.Select(self.dom, self.bname.t)
        i = z3.Int("first_index")
        und = A.calls(out, "environment.undefined")
        if und:
            if len(und) != 1 or out.value is not und[0].result or und[0].kwargs.get("name") != "super":
                return False
            # undefined exactly when the name has no stack or `current` is the least derived definition
            return z3.Or(z3.Not(known), z3.Implies(self.first_index(i), i + 1 >= self.n))
        v = out.value
        if not isinstance(v, Ref) or st.get(v).cls is not R.BlockReference or v.id not in st.allocated:
            return False
        f = st.get(v).fields
        if not (f.get("name") is self.bname and f.get("_context") == self.ctx and f.get("_stack") == self.stack):
            return False
        d = to_term(f.get("_depth"), "int")
        return z3.And(known, z3.Implies(self.first_index(i), z3.And(d == i + 1, i + 1 < self.n)))

    def p_pure(self, pre, out):
        hs = out.st.get(self.stack)
        return (not any(i in (self.stack.id, self.blocks.id, self.ctx.id) for i, _ in out.st.written)) and hs.arr.eq(self.arr) and hs.n.eq(self.n)

    def p_every_occurrence(self, pre, out):
        """super() is asked by the definition that is being rendered, at WHATEVER depth m of the stack it sits: the result is the
        definition at m+1 (undefined when m is the last).  Context.super only receives the function, so this needs the function to
        occur once on the stack (a template that - conditionally - extends itself puts the same block function on it twice)."""
        if out.raised:
            return None
        m = z3.Int("rendered_depth")
        here = z3.And(0 <= m, m < self.n, z3.Select(self.arr, m) == self.current.t)
        if A.calls(out, "environment.undefined"):
            return z3.Implies(z3.And(z3.Select(self.dom, self.bname.t), here), m + 1 >= self.n)
        f = out.st.get(out.value).fields
        return z3.Implies(here, to_term(f.get("_depth"), "int") == m + 1)

    posts = [("next_less_derived_or_undefined", p_result), ("stacks_not_modified", p_pure),
             ("next_less_derived_for_every_occurrence", p_every_occurrence)]

    def concretize(self, model, pre, out):
        n = max(0, min(6, model_value(model, self.n)))
        return {"vc": self.name, "stack_len": n, "rendered_depth": model_value(model, z3.Int("rendered_depth")),
                "first_index": model_value(model, z3.Int("first_index"))}

    def finding_key(self, res):
        w = res.witness or {}
        if "every_occurrence" in res.name and w.get("rendered_depth") != w.get("first_index"):
            return "same-function-twice-on-stack"
        return "other"

    def discharge(self, name, pc, cond, timeout, seed, pre, out):
        r = RuntimeVC.discharge(self, name, pc, cond, timeout, seed, pre, out)
        if r.status == "refuted" and isinstance(r.witness, dict):
            r.witness["obligation"] = name
        return r

    def replay(self, w):
        if "every_occurrence" in str((w or {}).get("obligation", "")):
            return native_self_extension(w)
        return native_inheritance(w)


def _render_family(templates, cases, label):
    import jinja2
    from jinja2 import DictLoader
    problems = []
    for is_async in (False, True):
        env = jinja2.Environment(loader=DictLoader(templates), enable_async=is_async)
        for name, kw, want in cases:
            try:
                got = env.get_template(name).render(**kw)
            except Exception as ex:
                got = type(ex).__name__
            if got != want:
                problems.append(f"async={is_async} {name} ({templates[name]!r}) {kw or ''}: rendered {got!r}, expected {want!r}")
    return (bool(problems), "; ".join(problems[:2]) or f"{label}: family renders as the statement demands")


def native_required_anywhere(w=None):
    """a required block fails when no descendant overrides it, whichever template of the chain declares it"""
    t = {"a": "A[{% block b %}Ab{% endblock %}]", "root_req": "A[{% block b required %}{% endblock %}]",
         "leaf_req": "{% extends 'a' %}{% block b required %}{% endblock %}", "mid_req": "{% extends 'a' %}{% block b required %}{% endblock %}",
         "below_mid": "{% extends 'mid_req' %}", "redeclared": "{% extends 'root_req' %}{% block b required %}{% endblock %}", "below_re": "{% extends 'redeclared' %}",
         "ok_over_mid": "{% extends 'mid_req' %}{% block b %}X{% endblock %}", "ok_over_re": "{% extends 'redeclared' %}{% block b %}Y{% endblock %}",
         # an override may reach the required block through super() / super.super(): the block IS overridden, nothing fails (75c7dc0)
         "root_ws": "A[{% block b required %} {% endblock %}]", "super_into_req": "{% extends 'root_ws' %}{% block b %}X{{ super() }}Y{% endblock %}",
         "super_mid": "{% extends 'mid_req' %}{% block b %}<{{ super() }}|{{ super.super() }}>{% endblock %}",
         "super_re": "{% extends 'redeclared' %}{% block b %}<{{ super() }}{{ super.super() }}>{% endblock %}",
         "self_req": "{% extends 'root_ws' %}{% block b %}X{% endblock %}{% block c %}{% endblock %}", "self_call": "A[{% block b required %}{% endblock %}]{{ self.b() }}",
         "self_call_child": "{% extends 'self_call' %}{% block b %}Z{% endblock %}"}
    cases = [("super_into_req", {}, "A[X Y]"), ("super_mid", {}, "A[<|Ab>]"), ("super_re", {}, "A[<>]"), ("self_req", {}, "A[X]"),
             ("self_call", {}, "TemplateRuntimeError"), ("self_call_child", {}, "A[Z]Z"),("leaf_req", {}, "TemplateRuntimeError"), ("below_mid", {}, "TemplateRuntimeError"), ("below_re", {}, "TemplateRuntimeError"),
             ("root_req", {}, "TemplateRuntimeError"), ("ok_over_mid", {}, "A[X]"), ("ok_over_re", {}, "A[Y]")]
    return _render_family(t, cases, "required blocks")


def native_outside_blocks(w=None):
    """content outside blocks of a child template is not rendered: includes, call blocks, filter blocks, blocks nested in loops / with"""
    t = {"base": "A[{% block b %}Ab{% endblock %}]", "x": "LEAK",
         "inc": "{% extends 'base' %}{% include 'x' %}{% block b %}M{% endblock %}", "inc_nc": "{% extends 'base' %}{% include 'x' without context %}",
         "inc_dyn": "{% if p %}{% extends p %}{% endif %}{% include 'x' %}{% block b %}M{% endblock %}",
         "call": "{% extends 'base' %}{% macro m() %}<{{ caller() }}>{% endmacro %}{% call m() %}LEAK{% endcall %}",
         "call_dyn": "{% if p %}{% extends p %}{% endif %}{% macro m() %}<{{ caller() }}>{% endmacro %}{% call m() %}C{% endcall %}",
         "filt": "{% extends 'base' %}{% filter default('LEAK', true) %}text{% endfilter %}",
         "filt_dyn": "{% if p %}{% extends p %}{% endif %}{% filter default('F', true) %}{% endfilter %}",
         "for_block": "{% extends 'base' %}{% for i in [1, 2] %}{% block b %}M{% endblock %}{% endfor %}",
         "with_block": "{% extends 'base' %}{% with v = 1 %}{% block b %}M{% endblock %}{% endwith %}",
         "for_block_dyn": "{% if p %}{% extends p %}{% endif %}{% for i in [1, 2] %}{% block b %}M{% endblock %}{% endfor %}"}
    cases = [("inc", {}, "A[M]"), ("inc_nc", {}, "A[Ab]"), ("inc_dyn", {"p": "base"}, "A[M]"), ("inc_dyn", {}, "LEAKM"),
             ("call", {}, "A[Ab]"), ("call_dyn", {"p": "base"}, "A[Ab]"), ("call_dyn", {}, "<C>"),
             ("filt", {}, "A[Ab]"), ("filt_dyn", {"p": "base"}, "A[Ab]"), ("filt_dyn", {}, "F"),
             ("for_block", {}, "A[M]"), ("with_block", {}, "A[M]"), ("for_block_dyn", {"p": "base"}, "A[M]"), ("for_block_dyn", {}, "MM")]
    return _render_family(t, cases, "content outside blocks")


def native_block_names(w=None):
    t = {"base": "{% block ﬁ %}LIG{% endblock %}|{% block fi %}PLAIN{% endblock %}", "child": "{% extends 'base' %}{% block fi %}X{% endblock %}",
         "child2": "{% extends 'base' %}{% block ﬁ %}Y({{ super() }}){% endblock %}"}
    return _render_family(t, [("base", {}, "LIG|PLAIN"), ("child", {}, "LIG|X"), ("child2", {}, "Y(LIG)|PLAIN")], "block names")


def native_self_extension(w=None):
    """a template that conditionally extends itself: the chain holds the same block function twice"""
    import jinja2
    from jinja2 import DictLoader
    problems = []
    for is_async in (False, True):
        env = jinja2.Environment(loader=DictLoader({
            "page": "{% if n is not defined %}{% set n = 1 %}{% extends 'page' %}{% endif %}R[{% block b %}<{% if super %}{{ super() }}{% endif %}>{% endblock %}]"}),
            enable_async=is_async)
        try:
            got = env.get_template("page").render()
        except RecursionError:
            got = "RecursionError"
        except Exception as ex:
            got = type(ex).__name__
        if got != "R[<<>>]":
            problems.append(f"async={is_async}: a template extending itself once rendered {got!r}, expected 'R[<<>>]' (super() of the instance at depth 1 is undefined)")
    return (bool(problems), "; ".join(problems[:2]) or "self-extension renders")


class BlockRefInit(RuntimeVC):
    target = "jinja2.runtime:BlockReference.__init__"

    def __init__(self):
        super().__init__("C04", "C04.BlockReference.__init__")

    def setup(self, I, st):
        self.obj = st.alloc(HObj(R.BlockReference), initial=True)
        self.a = [sym("name", "str"), A.obj(st, R.Context, "context"), A.alist(st, "stack", "obj"), sym("depth", "int")]
        return [self.obj] + self.a, {}

    def p_fields(self, pre, out):
        if out.raised:
            return False
        f = out.st.get(self.obj).fields
        return f.get("name") is self.a[0] and f.get("_context") == self.a[1] and f.get("_stack") == self.a[2] and f.get("_depth") is self.a[3] \
            and set(f) == {"name", "_context", "_stack", "_depth"}

    posts = [("stores_name_context_stack_depth", p_fields)]


class BlockRefSuper(RuntimeVC):
    target = "jinja2.runtime:BlockReference.super"

    def __init__(self):
        super().__init__("C04", "C04.BlockReference.super")

    def configure(self, I):
        I.specs["Environment.undefined"] = undefined_spec()
        I.inline.add("jinja2.runtime:BlockReference.__init__")

    def setup(self, I, st):
        self.env = A.obj(st, Environment, "environment")
        self.ctx = A.obj(st, R.Context, "context", fields={"environment": self.env})
        self.bname = sym("name", "str")
        self.depth = sym("depth", "int")
        self.stack = A.alist(st, "stack", "obj")
        hs = st.get(self.stack)
        self.arr, self.n = hs.arr, hs.n
        st.assume(self.depth.t >= 0, self.depth.t < self.n)
        self.ref = A.obj(st, R.BlockReference, "self", fields={"name": self.bname, "_context": self.ctx, "_stack": self.stack, "_depth": self.depth})
        return [self.ref], {}

    def p_result(self, pre, out):
        if out.raised:
            return False
        has_parent = self.depth.t + 1 < self.n
        und = A.calls(out, "environment.undefined")
        if und:
            if len(und) != 1 or out.value is not und[0].result or und[0].kwargs.get("name") != "super":
                return False
            return z3.Not(has_parent)
        c = is_blockref(out.st, out.value, self.bname, self.ctx, self.stack, self.depth.t + 1)
        if c is False or out.value == self.ref:
            return False
        return z3.And(has_parent, c)

    def p_pure(self, pre, out):
        hs = out.st.get(self.stack)
        f = out.st.get(self.ref).fields
        return (not any(i in (self.stack.id, self.ref.id, self.ctx.id) for i, _ in out.st.written)) and hs.arr.eq(self.arr) and hs.n.eq(self.n) \
            and f["_depth"] is self.depth

    posts = [("depth_plus_one_or_undefined", p_result), ("receiver_and_stack_not_modified", p_pure)]


class BlockRefRender(BlockRefCall):
    """BlockReference.__call__ / _async_call (contract shared with C34.block_reference.concat): the stream rendered is
    stack[depth] applied to THE context; joined with environment.concat; Markup iff autoescape."""
    prop = "C04"

    def __init__(self, mode):
        BlockRefCall.__init__(self, mode)
        self.prop = "C04"
        self.name = f"C04.BlockReference.{'__call__' if mode == 'sync' else '_async_call'}"

    def p_context(self, pre, out):
        if out.raised:
            return False
        calls = A.calls(out, "block_render_func")
        return len(calls) == 1 and len(calls[0].args) == 2 and calls[0].args[1] == self.ctx and not calls[0].kwargs

    def p_pure(self, pre, out):
        return not any(i in (self.stack.id, self.ref.id, self.ctx.id) for i, _ in out.st.written)

    posts = [("renders_stack_depth_joined_markup_iff_autoescape", BlockRefCall.p_concat), ("called_with_the_context", p_context),
             ("nothing_modified", p_pure)]

    def replay(self, w):
        return native_inheritance(w)


class BlockRefCallAsyncDispatch(RuntimeVC):
    """in an async environment __call__ returns the coroutine of _async_call and renders nothing itself"""
    target = "jinja2.runtime:BlockReference.__call__"

    def __init__(self):
        super().__init__("C04", "C04.BlockReference.__call__[async environment]")

    def configure(self, I):
        I.specs["BlockReference._async_call"] = A.abstract_fn("self._async_call", returns="obj")
        I.specs["Environment.concat"] = A.abstract_fn("environment.concat", returns="obj")
        I.specs["call_obj"] = A.abstract_fn("block_render_func", returns="obj")

    def setup(self, I, st):
        self.env = A.obj(st, Environment, "environment", fields={"is_async": True})
        self.ctx = A.obj(st, R.Context, "context", fields={"environment": self.env})
        self.stack = A.alist(st, "stack", "obj")
        self.ref = A.obj(st, R.BlockReference, "self", fields={"name": sym("name", "str"), "_context": self.ctx, "_stack": self.stack, "_depth": sym("depth", "int")})
        return [self.ref], {}

    def p_delegates(self, pre, out):
        if out.raised:
            return False
        c = A.calls(out, "self._async_call")
        return len(c) == 1 and out.value is c[0].result and not A.calls(out, "block_render_func") and not A.calls(out, "environment.concat")

    posts = [("delegates_to_async_call", p_delegates)]


class TemplateRef(RuntimeVC):
    """TemplateReference(context)[name]: runs the real __init__ then the real __getitem__ (the private attribute is only
    touched by these two methods)."""
    target = "jinja2.runtime:TemplateReference.__getitem__"

    def __init__(self):
        super().__init__("C04", "C04.TemplateReference.__getitem__")

    def configure(self, I):
        install_gmap(I)
        I.inline.add("jinja2.runtime:BlockReference.__init__")
        I.inline.add("jinja2.runtime:TemplateReference.__init__")

    def setup(self, I, st):
        self.bname = sym("name", "str")
        self.stack = A.alist(st, "stack", "obj")
        self.blocks = gmap(st, "blocks", self.bname, self.stack)
        self.dom = gm(st, self.blocks)[0]
        self.ctx = A.obj(st, R.Context, "context", fields={"blocks": self.blocks})
        self.obj = st.alloc(HObj(R.TemplateReference), initial=True)
        rs = I.call_method(st, self.obj, "__init__", [self.ctx], {})
        assert len(rs) == 1 and rs[0][0] is st and not isinstance(rs[0][1], Raised)
        return [self.obj, self.bname], {}

    def p_result(self, pre, out):
        known = z3.Select(self.dom, self.bname.t)
        if out.raised:
            return z3.Not(known) if out.value.cls is KeyError else False
        c = is_blockref(out.st, out.value, self.bname, self.ctx, self.stack, z3.IntVal(0))
        if c is False:
            return False
        return z3.And(known, c)

    def p_pure(self, pre, out):
        return not any(i in (self.stack.id, self.blocks.id, self.ctx.id) for i, _ in out.st.written)

    posts = [("depth_zero_reference_on_the_context_stack", p_result), ("nothing_modified", p_pure)]


class TemplateRefRepr(RuntimeVC):
    target = "jinja2.runtime:TemplateReference.__repr__"

    def __init__(self):
        super().__init__("C04", "C04.TemplateReference.__repr__")

    def configure(self, I):
        I.inline.add("jinja2.runtime:TemplateReference.__init__")

    def setup(self, I, st):
        self.tname = sym("template_name", "str")
        self.ctx = A.obj(st, R.Context, "context", fields={"name": self.tname})
        self.obj = st.alloc(HObj(R.TemplateReference), initial=True)
        rs = I.call_method(st, self.obj, "__init__", [self.ctx], {})
        assert len(rs) == 1
        return [self.obj], {}

    def p_repr(self, pre, out):
        if out.raised:
            return False
        from pyvc.models import py_repr_str
        return to_term(out.value, "str") == z3.Concat(z3.StringVal("<TemplateReference "), py_repr_str(self.tname.t), z3.StringVal(">"))

    posts = [("names_class_and_template", p_repr)]


class ContextDerived(RuntimeVC):
    """derived(locals): new_context(environment, name, {}, get_all(), shared=True, globals=None, locals); the new context
    shares eval_ctx and gets, for every block name, a COPY of the stack (same functions, same order, distinct list)."""
    target = "jinja2.runtime:Context.derived"

    def __init__(self):
        super().__init__("C04", "C04.Context.derived")

    def configure(self, I):
        install_gmap(I)
        c = self

        def new_context_spec(I_, st, args, kwargs, node):
            # contract of runtime.new_context (C05.new_context) + Context.__init__ (above) for blocks == {}
            b = gmap(st, "new_blocks", None, None, dom=z3.K(z3.StringSort(), z3.BoolVal(False)), initial=False)
            r = st.alloc(HObj(R.Context, fields={"blocks": b, "eval_ctx": st.alloc(HObj(N.EvalContext, path="new_eval_ctx"))}, path="new_context"))
            A.call_event(st, "new_context", args, kwargs, r, node)
            return [(st, r)]

        I.specs["jinja2.runtime:new_context"] = new_context_spec
        I.specs["Context.get_all"] = A.abstract_fn("self.get_all", returns="obj")

    def setup(self, I, st):
        self.env = A.obj(st, Environment, "environment")
        self.k = sym("block_name", "str")
        self.stack = A.alist(st, "stack", "obj")
        hs = st.get(self.stack)
        self.arr, self.n = hs.arr, hs.n
        self.blocks = gmap(st, "blocks", self.k, self.stack)
        self.dom = gm(st, self.blocks)[0]
        self.evc = A.obj(st, N.EvalContext, "eval_ctx")
        self.tname = sym("template_name", "str")
        self.gkeys = st.alloc(HSet(dom=z3.Const("self_globals_keys", z3.ArraySort(z3.StringSort(), z3.BoolSort())), size=z3.Int("self_n_globals"), kk="str"), initial=True)
        self.tglobals = A.adict(st, "self_template_globals", "str", "obj")
        self.ctx = A.obj(st, R.Context, "self", fields={"blocks": self.blocks, "environment": self.env, "name": self.tname, "eval_ctx": self.evc,
                                                        "globals_keys": self.gkeys, "template_globals": self.tglobals})
        self.locals = A.adict(st, "locals", "str", "obj")
        return [self.ctx, self.locals], {}

    def p_new_context(self, pre, out):
        if out.raised:
            return False
        nc = A.calls(out, "new_context")
        ga = A.calls(out, "self.get_all")
        if len(nc) != 1 or len(ga) != 1 or out.value != nc[0].result or out.value == self.ctx:
            return False
        a = list(nc[0].args)
        kw = nc[0].kwargs
        names = ["environment", "template_name", "blocks", "vars", "shared", "globals", "locals"]
        bound = dict(zip(names, a))
        bound.update(kw)
        b = bound.get("blocks")
        empty = isinstance(b, Ref) and isinstance(out.st.get(b), HDict) and out.st.get(b).items == {}
        return (bound.get("environment") == self.env and bound.get("template_name") is self.tname and empty and bound.get("vars") is ga[0].result
                and bound.get("shared") is True and bound.get("globals") is None and bound.get("locals") == self.locals)

    def p_blocks(self, pre, out):
        if out.raised:
            return False
        st = out.st
        f = st.get(out.value).fields
        if f.get("eval_ctx") != self.evc:
            return False
        g = gm(st, f.get("blocks"))
        if g is None or f["blocks"] == self.blocks:
            return False
        dom, k, v = g
        if k is None or not (dom.eq(self.dom) and k.t.eq(self.k.t)):
            return False
        if not (isinstance(v, Ref) and v != self.stack and v.id in st.allocated and isinstance(st.get(v), HList)):
            return False
        arr, n, kind = A.list_terms(st, v)
        j = z3.Int(fresh_name("j"))
        return z3.And(n == self.n, z3.ForAll([j], z3.Implies(z3.And(0 <= j, j < n), z3.Select(arr, j) == z3.Select(self.arr, j))))

    def p_pure(self, pre, out):
        hs = out.st.get(self.stack)
        return (not any(i in (self.stack.id, self.blocks.id, self.ctx.id, self.locals.id) for i, _ in out.st.written)) and hs.arr.eq(self.arr) and hs.n.eq(self.n)

    posts = [("built_by_new_context_shared_with_locals", p_new_context), ("same_eval_ctx_and_copied_stacks", p_blocks), ("receiver_not_modified", p_pure)]



# ================================================================== emission: visit_Block / visit_Extends / visit_Output

KNOWN = z3.Bool("self.has_known_extends")
SOFAR = z3.Int("self.extends_so_far")
TOP = z3.Bool("frame.toplevel")
ROOT = z3.Bool("frame.rootlevel")
IS_ASYNC = z3.Bool("environment.is_async")
OUTCHECK = z3.Bool("frame.require_output_check")


def gen_pre(st, g, nd):
    """the generator's inheritance bookkeeping is symbolic: any number of extends seen so far, known or not"""
    st.assume(SOFAR >= 0, z3.Implies(KNOWN, SOFAR > 0))  # has_known_extends is only ever set together with the increment
    # frame invariant (visit_Template: the root frame checks output iff the template has an extends; Frame.__init__ copies the
    # flag to inner/soft frames): a top-level frame of a template in which an extends was already visited checks its output
    st.assume(z3.Implies(z3.And(TOP, SOFAR > 0), OUTCHECK))
    FI = C.CodeGenerator._FinalizeInfo
    st.get(g.gen).fields["_finalize"] = st.alloc(HObj(FI, fields={"const": None, "src": None}), initial=True)


GEN_FIELDS = {"extends_so_far": sym("self.extends_so_far", "int"), "has_known_extends": sym("self.has_known_extends", "bool")}


def decide(sc, term):
    if sc.holds(term):
        return True
    if sc.holds(z3.Not(term)):
        return False
    return None


def names_in(tree):
    return {n.id for n in ast.walk(tree) if isinstance(n, ast.Name)}


def is_name(n, ident):
    return isinstance(n, ast.Name) and n.id == ident


def is_repr_of(n, ph, term_text):
    """n is the string constant standing for repr(<term_text>) (e.g. node.name)"""
    if not (isinstance(n, ast.Constant) and isinstance(n.value, str)):
        return False
    p = ph.get(f"'{n.value}'")
    if p is None:
        return n.value == term_text  # concrete name
    return p[0] == "repr" and str(p[1]) == term_text


def is_parent_none_test(t, negated=False):
    return (isinstance(t, ast.Compare) and is_name(t.left, "parent_template") and len(t.ops) == 1
            and isinstance(t.ops[0], ast.IsNot if negated else ast.Is) and isinstance(t.comparators[0], ast.Constant) and t.comparators[0].value is None)


def is_raise_runtime_error(s, needle):
    return (isinstance(s, ast.Raise) and isinstance(s.exc, ast.Call) and is_name(s.exc.func, "TemplateRuntimeError") and len(s.exc.args) == 1
            and isinstance(s.exc.args[0], ast.Constant) and needle in str(s.exc.args[0].value))


def most_derived_call(n, ph, name_term, ctx_check):
    """n is  context.blocks[<name>][0](<ctx>)  - the FIRST entry of the stack of this block's name"""
    if not (isinstance(n, ast.Call) and not n.keywords and len(n.args) == 1):
        return "block is not rendered by a call with exactly the context argument"
    f = n.func
    if not (isinstance(f, ast.Subscript) and isinstance(f.slice, ast.Constant) and f.slice.value == 0 and type(f.slice.value) is int):
        return f"the rendered definition is not entry [0] (most derived) of the stack: {ast.unparse(f)}"
    g = f.value
    if not (isinstance(g, ast.Subscript) and emit.call_name(g.value) == "context.blocks" and is_repr_of(g.slice, ph, name_term)):
        return f"the stack is not context.blocks[<this block's name>]: {ast.unparse(g)}"
    return ctx_check(n.args[0])


def stream_loop(stmts, is_async, buffer, source, what):
    """[<source var> = ..., try: (async) for event in <var>: <emit event> finally: close]  ->  failure or None; stmts[0] is
    the assignment (checked by the caller)"""
    if len(stmts) != 2 or not isinstance(stmts[1], ast.Try):
        return f"{what}: expected assignment + try/finally, got {[type(x).__name__ for x in stmts]}"
    tr = stmts[1]
    if tr.handlers or tr.orelse or len(tr.body) != 1 or len(tr.finalbody) != 1:
        return f"{what}: try statement must have one loop and one finally statement and no handlers"
    lp = tr.body[0]
    if not isinstance(lp, ast.AsyncFor if is_async else ast.For) or not is_name(lp.target, "event") or not is_name(lp.iter, source) or lp.orelse or len(lp.body) != 1:
        return f"{what}: loop is not `{'async ' if is_async else ''}for event in {source}`"
    b = lp.body[0]
    if buffer is None:
        ok = isinstance(b, ast.Expr) and isinstance(b.value, ast.Yield) and is_name(b.value.value, "event")
    else:
        ok = isinstance(b, ast.Expr) and isinstance(b.value, ast.Call) and emit.call_name(b.value) == f"{buffer}.append" and len(b.value.args) == 1 and is_name(b.value.args[0], "event")
    if not ok:
        return f"{what}: every event must be passed on unchanged ({ast.unparse(b)})"
    fin = tr.finalbody[0]
    v = fin.value if isinstance(fin, ast.Expr) else None
    if is_async:
        ok = isinstance(v, ast.Await) and isinstance(v.value, ast.Call) and emit.call_name(v.value) == f"{source}.aclose"
    else:
        ok = isinstance(v, ast.Call) and emit.call_name(v) == f"{source}.close"
    if not ok:
        return f"{what}: the stream is not closed in the finally clause"
    return None


def block_pred(sc, tree, ph, txt):
    if sc.outcome == "raise":
        return [f"visit_Block raises {sc.value!r}"]
    # The statement may run in a template that already has a parent iff the frame belongs to the root render function of a
    # template with extends (require_output_check: inherited by the frames of loops / with blocks / ... nested in it, cleared in
    # macros, set blocks and block functions) and an extends precedes it.  Then the block must not be rendered in place.
    in_child, known = decide(sc, z3.And(OUTCHECK, SOFAR > 0)), decide(sc, KNOWN)
    if in_child is True and known is True and not tree.body:
        return []  # nothing emitted: the parent's layout calls the block (otherwise it must at least be guarded, checked below)
    if in_child is None:
        return [f"[in-place-below-toplevel] whether the block is rendered in place must follow frame.require_output_check and the extends seen so far; "
                f"this path decides only {[str(c)[:40] for c in sc.pc if 'frame.' in str(c) or 'self.' in str(c)][:4]}: in a frame below the top level of a "
                f"child template (loop, with block) the block is rendered in place as well: {txt[:80]!r}"]
    body = list(tree.body)
    fails = []
    if in_child:
        if not (len(body) == 1 and isinstance(body[0], ast.If) and is_parent_none_test(body[0].test) and not body[0].orelse):
            return [f"after an extends a block outside block functions must be guarded by `if parent_template is None:` : {txt!r}"]
        body = list(body[0].body)
    if "parent_template" in names_in(ast.Module(body=body, type_ignores=[])):
        fails.append("unexpected reference to parent_template")
    required = decide(sc, z3.Bool("node.required"))
    scoped = decide(sc, z3.Bool("node.scoped"))
    is_async = decide(sc, IS_ASYNC)
    if None in (required, scoped, is_async):
        return ["path does not decide node.required / node.scoped / environment.is_async"]
    if required:
        g = body[0] if body else None
        ok = (isinstance(g, ast.If) and not g.orelse and len(g.body) == 1 and is_raise_runtime_error(g.body[0], "Required block")
              and isinstance(g.test, ast.Compare) and len(g.test.ops) == 1 and isinstance(g.test.ops[0], ast.LtE)
              and isinstance(g.test.comparators[0], ast.Constant) and g.test.comparators[0].value == 1
              and isinstance(g.test.left, ast.Call) and is_name(g.test.left.func, "len") and len(g.test.left.args) == 1
              and isinstance(g.test.left.args[0], ast.Subscript) and emit.call_name(g.test.left.args[0].value) == "context.blocks"
              and is_repr_of(g.test.left.args[0].slice, ph, "node.name"))
        if not ok:
            return [f"a required block must first check `len(context.blocks[name]) <= 1` and raise TemplateRuntimeError BEFORE rendering: {txt!r}"]
        body = body[1:]
    elif any(isinstance(n, ast.Raise) for n in ast.walk(tree)):
        fails.append("a block that is not required must not raise")

    def ctx_check(a):
        if not scoped:
            return None if is_name(a, "context") else f"an unscoped block must receive the template context itself: {ast.unparse(a)}"
        if not (isinstance(a, ast.Call) and emit.call_name(a) == "context.derived" and len(a.args) == 1 and not a.keywords):
            return f"a scoped block must receive context.derived(<locals>): {ast.unparse(a)}"
        d = a.args[0]
        inner = [x for x in ast.walk(d) if isinstance(x, ast.Name)]
        if not (isinstance(d, (ast.Dict, ast.Set)) and len(inner) == 1 and inner[0].id in ph and "dump_stores" in str(ph[inner[0].id][1])):
            return f"the derived context must be built from the frame's local stores: {ast.unparse(d)}"
        return None

    if not is_async and sc.buffer is None:
        if not (len(body) == 1 and isinstance(body[0], ast.Expr) and isinstance(body[0].value, ast.YieldFrom)):
            return fails + [f"expected a single `yield from context.blocks[name][0](ctx)`: {txt!r}"]
        r = most_derived_call(body[0].value.value, ph, "node.name", ctx_check)
    else:
        if not (body and isinstance(body[0], ast.Assign) and len(body[0].targets) == 1 and is_name(body[0].targets[0], "gen")):
            return fails + [f"expected `gen = context.blocks[name][0](ctx)`: {txt!r}"]
        r = most_derived_call(body[0].value, ph, "node.name", ctx_check) or stream_loop(body, is_async, sc.buffer, "gen", "block stream")
    if r:
        fails.append(r)
    return fails


def extends_pred(sc, tree, ph, txt):
    top = decide(sc, TOP)
    if top is None:
        return ["path does not decide frame.toplevel"]
    if sc.outcome == "raise":
        if sc.value.cls is TemplateAssertionError:
            return [] if top is False else ["extends rejected although it is at the top level"]
        if sc.value.cls is C.CompilerExit:
            # second extends in a template already known to be a child: only the runtime error is emitted, nothing after it
            if not (sc.holds(KNOWN) and sc.holds(SOFAR > 0)):
                return ["CompilerExit although no earlier root-level extends is known"]
            t, _ = sc.texts()[0]
            b = emit.parse_stmts(t).body
            return [] if len(b) == 1 and is_raise_runtime_error(b[0], "extended multiple times") else [f"expected only the runtime error: {t!r}"]
        return [f"visit_Extends raises {sc.value!r}"]
    if top is False:
        return ["extends below the top level must be rejected"]
    sofar, known = decide(sc, SOFAR > 0), decide(sc, KNOWN)
    if sofar is None:
        return ["path does not decide extends_so_far > 0"]
    body = list(tree.body)
    fails = []
    if sofar and known:
        # (CompilerExit normally stops here; code after the unconditional raise is dead)
        if not (body and is_raise_runtime_error(body[0], "extended multiple times")):
            return [f"a second extends of a known child must raise TemplateRuntimeError: {txt!r}"]
        body = body[1:]
    elif sofar:
        if known is None:
            return ["path does not decide has_known_extends"]
        g = body[0] if body else None
        if not (isinstance(g, ast.If) and is_parent_none_test(g.test, negated=True) and not g.orelse and len(g.body) == 1
                and is_raise_runtime_error(g.body[0], "extended multiple times")):
            return [f"a further extends must first raise TemplateRuntimeError when a parent is already set: {txt!r}"]
        body = body[1:]
    elif any(isinstance(n, ast.Raise) for n in ast.walk(tree)):
        fails.append("the first extends must not raise")
    if len(body) != 2:
        return fails + [f"expected `parent_template = ...` and the block registration loop: {txt!r}"]
    a, lp = body
    ok = (isinstance(a, ast.Assign) and len(a.targets) == 1 and is_name(a.targets[0], "parent_template") and isinstance(a.value, ast.Call)
          and emit.call_name(a.value) == "environment.get_template" and len(a.value.args) == 2 and not a.value.keywords
          and is_hole(a.value.args[0], ph, "node.template") and is_repr_of(a.value.args[1], ph, "template_name"))
    if not ok:
        fails.append(f"parent_template must be environment.get_template(<node.template>, <this template's name>): {ast.unparse(a)}")
    # parent blocks are APPENDED (less derived after more derived) to the stack of their name
    ok = (isinstance(lp, ast.For) and not lp.orelse and isinstance(lp.target, ast.Tuple) and [getattr(e, "id", None) for e in lp.target.elts] == ["name", "parent_block"]
          and isinstance(lp.iter, ast.Call) and emit.call_name(lp.iter) == "parent_template.blocks.items" and not lp.iter.args and len(lp.body) == 1)
    if ok:
        c = lp.body[0].value if isinstance(lp.body[0], ast.Expr) else None
        ok = (isinstance(c, ast.Call) and isinstance(c.func, ast.Attribute) and c.func.attr == "append" and len(c.args) == 1 and not c.keywords
              and is_name(c.args[0], "parent_block"))
        if ok:
            sd = c.func.value
            ok = (isinstance(sd, ast.Call) and emit.call_name(sd) == "context.blocks.setdefault" and len(sd.args) == 2 and is_name(sd.args[0], "name")
                  and isinstance(sd.args[1], ast.List) and not sd.args[1].elts)
    if not ok:
        fails.append(f"every parent block must be appended to context.blocks.setdefault(name, []): {ast.unparse(lp)}")
    g = sc.st.get(sc.gen.gen).fields
    if not sc.holds(to_term(g["extends_so_far"], "int") == SOFAR + 1):
        fails.append("extends_so_far is not incremented")
    if not sc.holds(to_term(g["has_known_extends"], "bool") == z3.Or(ROOT, KNOWN)):
        fails.append("has_known_extends must become true exactly for a root-level extends (and stay true)")
    return fails


def output_pred(sc, tree, ph, txt):
    if sc.outcome == "raise":
        return [f"visit_Output raises {sc.value!r}"]
    chk, known = decide(sc, OUTCHECK), decide(sc, KNOWN)
    if chk is None:
        return ["path does not decide require_output_check"]
    n_children = len(sc.st.get(sc.st.get(sc.node).fields["nodes"]).items)
    if chk and known and not tree.body:
        return []  # suppressed statically (otherwise it must at least be guarded at run time, checked below)
    body = list(tree.body)
    if chk:
        if not (len(body) == 1 and isinstance(body[0], ast.If) and is_parent_none_test(body[0].test) and not body[0].orelse):
            return [f"output that may follow an extends must be guarded by `if parent_template is None:` : {txt!r}"]
        body = list(body[0].body)
    fails = []
    if "parent_template" in names_in(ast.Module(body=body, type_ignores=[])):
        fails.append("unexpected reference to parent_template")
    holes = [h.path for n in ast.walk(ast.Module(body=body, type_ignores=[])) for h in [hole_of(n, ph)] if h is not None]
    if sorted(holes) != sorted(f"node.nodes[{i}]" for i in range(n_children)):
        fails.append(f"children written: {holes}")
    return fails


def output_fields(n):
    def mk(st):
        return {"nodes": st.alloc(HList(items=[emit.make_node(st, N.Expr, f"node.nodes[{i}]", kind="expr") for i in range(n)]), initial=True)}
    return mk


# ================================================================== emission: visit_Template on concrete small bodies

def run_template_shape(shape, n_out_children=1):
    """Real visit_Template on a Template node whose body is the CONCRETE list `shape` of symbolic children:
    'E' Extends, 'B' Block (name b<i>, flags symbolic, body abstract), 'O' Output (one expression child), 'IE' an If whose
    body is one Extends (conditional extends), 'S' any other statement (hole).  Children are visited by their real visitors."""
    from pyvc.engine import Interp
    from pyvc import extract
    I = Interp()
    emit.install(I, inline_visitors=(N.Extends, N.Block, N.Output, N.If, N.Keyword, N.Pair, N.Operand))
    import unicodedata
    I.extra_pure = set(I.extra_pure) | {unicodedata.normalize}  # pure library function on the (concrete) block names
    st = State()
    g = emit.Gen(st, buffer=None, gen_fields={"defer_init": False})
    FI = C.CodeGenerator._FinalizeInfo
    st.get(g.gen).fields["_finalize"] = st.alloc(HObj(FI, fields={"const": None, "src": None}), initial=True)
    kids, every = [], []
    for i, k in enumerate(shape):
        p = f"node.body[{i}]"
        if k == "E":
            kids.append(emit.make_node(st, N.Extends, p))
        elif k in ("B", "R"):
            # the block's own flags / body are the subject of C04.emit.block; here: plain block ('R': required), empty body, `super` used
            kids.append(emit.make_node(st, N.Block, p, fields={"name": f"b{i}", "scoped": False, "required": k == "R",
                                                                "body": st.alloc(HList(items=[]), initial=True)}))
        elif k == "O":
            nodes = st.alloc(HList(items=[emit.make_node(st, N.Name, f"{p}.nodes[{j}]", kind="expr") for j in range(n_out_children)]), initial=True)
            kids.append(emit.make_node(st, N.Output, p, fields={"nodes": nodes}))
        elif k == "IE":
            inner = emit.make_node(st, N.Extends, p + ".body[0]")
            kids.append(emit.make_node(st, N.If, p, fields={"body": st.alloc(HList(items=[inner]), initial=True),
                                                           "elif_": st.alloc(HList(items=[]), initial=True), "else_": st.alloc(HList(items=[]), initial=True)}))
            every.append(kids[-1])
            every.append(inner)
            continue
        else:
            kids.append(emit.make_node(st, N.Stmt, p, kind="stmt"))
        every.append(kids[-1])
    body = st.alloc(HList(items=kids), initial=True)
    nd = emit.make_node(st, N.Template, "node", fields={"body": body})

    def find_spec(I_, s, args, kwargs, node):
        # Node.find / find_all on the concrete shape (document order; abstract children are leaves of this shape)
        for r in every:
            if issubclass(s.get(r).cls, args[1]):
                return [(s, r)]
        return [(s, None)]

    def find_all_spec(I_, s, args, kwargs, node):
        return [(s, tuple(r for r in every if issubclass(s.get(r).cls, args[1])))]

    def evalctx_spec(I_, s, args, kwargs, node):
        r = s.alloc(HObj(N.EvalContext, fields={"environment": args[0], "volatile": False, "autoescape": False}, path="eval_ctx"))
        s.get(r).plain_setattr = True
        return [(s, r)]

    def undeclared_spec(I_, s, args, kwargs, node):
        # which special names the bodies use is irrelevant to the layout, except that `super` must be wired to the block's own function
        names = args[1] if len(args) > 1 else kwargs.get("names", ())
        return [(s, s.alloc(HSet(items=["super"] if "super" in tuple(names) else [])))]

    I.specs[("fn", id(C.find_undeclared))] = undeclared_spec
    I.specs["jinja2.compiler:find_undeclared"] = undeclared_spec
    I.specs["Node.find"] = find_spec
    I.specs["Node.find_all"] = find_all_spec
    I.specs[I.spec_key(N.EvalContext)] = evalctx_spec
    fn = extract.resolve("jinja2.compiler:CodeGenerator.visit_Template")
    results = I.call_closure(st, I.closure_of_function(fn), [g.gen, nd], {})
    out = []
    for s, v in results:
        sc = emit.Schema(list(s.ghost.get("out", [])), list(s.pc), list(s.notes), "raise" if isinstance(v, Raised) else "return", s)
        sc.value = v.exc if isinstance(v, Raised) else v
        sc.gen, sc.node, sc.buffer, sc.kids = g, nd, None, kids
        out.append(sc)
    return out


def expected_events(shape):
    """What the root render function of a template with this top-level body must do, in order (from the statement:
    blocks render in place unless the template is a child; content outside blocks of a child is not rendered; the
    parent's layout runs after the child's body; a second extends is an error)."""
    have = any(k in ("E", "IE") for k in shape)
    ev = [("init",)] if have else []
    sofar, known = 0, False
    for i, k in enumerate(shape):
        p = f"node.body[{i}]"
        if k == "B":
            if not known:
                ev.append(("block", f"b{i}", sofar > 0))
        elif k == "O":
            if not have:
                ev.append(("out", p + ".nodes[0]", False))
            elif not known:
                ev.append(("out", p + ".nodes[0]", True))
        elif k in ("E", "IE"):
            inner = []
            stop = False
            if sofar > 0:
                inner.append(("multi", not known))
                stop = known
            if not stop:
                inner += [("extends", (p + ".body[0]" if k == "IE" else p) + ".template"), ("register",)]
                sofar += 1
                if k == "E":
                    known = True
            if k == "IE":
                ev.append(("if", tuple(inner)))
            else:
                ev += inner
                if stop:
                    break
        else:
            ev.append(("stmt", p))
    if have:
        ev.append(("tail", not known))
    return ev


def root_events(stmts, ph, is_async, fails, guarded=False):
    ev = []
    i = 0
    while i < len(stmts):
        s = stmts[i]
        i += 1
        if isinstance(s, ast.Pass) or (isinstance(s, ast.Expr) and isinstance(s.value, ast.Call) and is_name(s.value.func, "__enter_frame__")) \
                or (isinstance(s, ast.Expr) and isinstance(s.value, ast.Call) and getattr(s.value.func, "id", "") in ("__leave_frame__", "__pull_dependencies__")):
            continue
        if isinstance(s, ast.If) and is_parent_none_test(s.test) and not s.orelse:
            if guarded:
                fails.append("nested parent_template guard")
            ev += root_events(s.body, ph, is_async, fails, guarded=True)
            continue
        if isinstance(s, ast.If) and is_parent_none_test(s.test, negated=True) and not s.orelse:
            inner = root_events(s.body, ph, is_async, fails, guarded=False)
            for e in inner:
                if e[0] in ("multi", "tail"):
                    ev.append((e[0], True))
                else:
                    fails.append(f"unexpected statement under `if parent_template is not None`: {e}")
            continue
        if isinstance(s, ast.If) and hole_of(s.test, ph) is not None:
            ev.append(("if", tuple(root_events(s.body, ph, is_async, fails, guarded))))
            continue
        if isinstance(s, ast.If) and isinstance(s.test, ast.Constant):
            continue  # `if 0: yield None`
        if isinstance(s, ast.Raise):
            if is_raise_runtime_error(s, "extended multiple times"):
                ev.append(("multi", False))
            else:
                fails.append(f"unexpected raise: {ast.unparse(s)}")
            continue
        if isinstance(s, ast.Assign) and len(s.targets) == 1 and isinstance(s.targets[0], ast.Name):
            t = s.targets[0].id
            if t == "parent_template":
                if isinstance(s.value, ast.Constant) and s.value.value is None:
                    ev.append(("init",))
                elif isinstance(s.value, ast.Call) and emit.call_name(s.value) == "environment.get_template" and s.value.args and hole_of(s.value.args[0], ph):
                    ev.append(("extends", hole_of(s.value.args[0], ph).path))
                else:
                    fails.append(f"unexpected assignment to parent_template: {ast.unparse(s)}")
                continue
            if t in ("gen", "agen"):
                nxt = stmts[i] if i < len(stmts) else None
                i += 1
                r = stream_loop([s, nxt], is_async, None, t, "stream")
                if r:
                    fails.append(r)
                if t == "agen":
                    ok = isinstance(s.value, ast.Call) and emit.call_name(s.value) == "parent_template.root_render_func" and len(s.value.args) == 1 and is_name(s.value.args[0], "context")
                    ev.append(("tail", False) if ok else ("bad_tail",))
                else:
                    ev.append(("block", block_name_of(s.value), guarded))
                continue
            if isinstance(s.value, ast.Call) and emit.call_name(s.value) in ("TemplateReference", "context.resolve_or_missing") or t in ("resolve", "undefined", "concat", "cond_expr_undefined"):
                continue
            fails.append(f"unexpected assignment in root: {ast.unparse(s)}")
            continue
        if isinstance(s, ast.For) and isinstance(s.iter, ast.Call) and emit.call_name(s.iter) == "parent_template.blocks.items":
            ev.append(("register",))
            continue
        if isinstance(s, ast.Expr) and isinstance(s.value, ast.YieldFrom):
            c = s.value.value
            if isinstance(c, ast.Call) and emit.call_name(c) == "parent_template.root_render_func" and len(c.args) == 1 and is_name(c.args[0], "context"):
                ev.append(("tail", False))
            else:
                ev.append(("block", block_name_of(c), guarded))
            continue
        if isinstance(s, ast.Expr) and isinstance(s.value, ast.Yield):
            hs = [hole_of(n, ph) for n in ast.walk(s.value) if hole_of(n, ph) is not None]
            ev.append(("out", hs[0].path if len(hs) == 1 else "?", guarded))
            continue
        if isinstance(s, ast.Expr) and hole_of(s.value, ph) is not None:
            ev.append(("stmt", hole_of(s.value, ph).path))
            continue
        fails.append(f"unexpected statement in root: {ast.unparse(s)[:80]}")
    return ev


def normalise_events(ev):
    """semantically irrelevant differences: statements after an unconditional `raise` are dead (except the parent call, which
    is emitted after the body in any case); after a root-level extends parent_template is never None, so statements guarded by
    `if parent_template is None` are dead"""
    out, after_root_extends, dead = [], False, False
    for e in ev:
        if dead and e[0] != "tail":
            continue
        if after_root_extends and e[0] in ("out", "block") and e[2] is True:
            continue
        if e[0] == "if":
            inner = list(e[1])
            if ("multi", False) in inner:
                inner = inner[:inner.index(("multi", False)) + 1]  # dead code after the unconditional raise inside the branch
            e = ("if", tuple(inner))
        out.append(e)
        if e[0] == "extends":
            after_root_extends = True
        if e == ("multi", False):
            dead = True
    return out


def block_name_of(c):
    """name in  context.blocks['<name>'][0](...)  (None when the shape differs)"""
    try:
        f = c.func
        if f.slice.value == 0 and type(f.slice.value) is int and emit.call_name(f.value.value) == "context.blocks":
            return f.value.slice.value
    except AttributeError:
        pass
    return None


def template_pred(shape):
    want = expected_events(shape)
    block_names = [f"b{i}" for i, k in enumerate(shape) if k == "B"]

    def pred(sc, tree, ph, txt):
        if sc.outcome == "raise":
            return [f"visit_Template raises {sc.value!r}"]
        is_async = decide(sc, IS_ASYNC)
        if is_async is None:
            return ["path does not decide environment.is_async"]
        fcls = ast.AsyncFunctionDef if is_async else ast.FunctionDef
        funcs = {n.name: n for n in tree.body if isinstance(n, (ast.FunctionDef, ast.AsyncFunctionDef))}
        fails = []
        if set(funcs) != {"root"} | {"block_" + b for b in block_names}:
            fails.append(f"module defines {sorted(funcs)}, expected root and one function per block {block_names}")
        if any(not isinstance(f, fcls) or [a.arg for a in f.args.args][:2] != ["context", "missing"] for f in funcs.values()):
            fails.append("render functions must be (async) generators taking (context, missing=missing, ...)")
        if "root" not in funcs:
            return fails
        got = normalise_events(root_events(funcs["root"].body, ph, is_async, fails))
        if got != want:
            fails.append(f"root render function does {got}, the inheritance rules demand {want}")
        if not any(k in ("E", "IE") for k in shape) and "parent_template" in names_in(tree):
            fails.append("a template without extends mentions parent_template")
        # block functions: `super` is this block's own function looked up under this block's own name
        for b in block_names:
            f = funcs.get("block_" + b)
            if f is None:
                continue
            for n in ast.walk(f):
                if isinstance(n, ast.Call) and emit.call_name(n) == "context.super":
                    if not (len(n.args) == 2 and isinstance(n.args[0], ast.Constant) and n.args[0].value == b and is_name(n.args[1], "block_" + b)):
                        fails.append(f"super of block {b} is looked up as {ast.unparse(n)}")
            if "parent_template" in names_in(f):
                fails.append("a block function must not depend on parent_template")
        # blocks = {'name': block_name, ...}: exactly the template's own blocks
        reg = [n for n in tree.body if isinstance(n, ast.Assign) and is_name(n.targets[0], "blocks")]
        ok = len(reg) == 1 and isinstance(reg[0].value, ast.Dict) and [getattr(k, "value", None) for k in reg[0].value.keys] == block_names \
            and [getattr(v, "id", None) for v in reg[0].value.values] == ["block_" + b for b in block_names]
        if not ok:
            fails.append(f"`blocks` must map exactly the template's own block names to their functions: {ast.unparse(reg[0]) if reg else None}")
        return fails

    return pred


class TemplateShapeTask(Task):
    kind = "emission"

    def __init__(self, shape):
        self.shape = list(shape)
        self.prop = "C04"
        self.name = f"C04.emit.template[{','.join(shape) or 'empty'}]"
        self.bound_text = "shape bound: Template.body is this concrete list of symbolic children (block flags, bodies, expressions, names of parents symbolic)"

    def replay(self, w):
        return native_inheritance(w)

    def run(self, tier, seed):
        import time
        t0 = time.time()
        try:
            scs = run_template_shape(self.shape)
        except Unsupported as ex:
            return [Res(self.name + ".engine", "unknown", "pyvc-emit", time.time() - t0, f"unsupported: {ex}", self.kind)]
        pred = template_pred(self.shape)
        res = []
        for i, sc in enumerate(scs):
            fails = []
            if sc.outcome == "raise":
                fails += pred(sc, None, {}, None)
            else:
                for txt, ph in sc.texts():
                    try:
                        tree = emit.parse_stmts(txt)
                    except SyntaxError as ex:
                        fails.append(f"emitted module does not parse: {ex.msg}")
                        continue
                    fails += pred(sc, tree, ph, txt)
            if fails:
                res.append(Res(f"{self.name}#p{i}", "refuted", "pyvc-emit", 0, f"under {[str(c)[:40] for c in sc.pc][:8]}: " + "; ".join(fails[:3]), self.kind,
                               witness={"shape": self.shape, "path_condition": [str(c) for c in sc.pc][:12]}))
            else:
                res.append(Res(f"{self.name}#p{i}", "discharged", "pyvc-emit", 0, "", self.kind))
        if len(scs) < 2:
            res.append(Res(self.name + ".paths", "error", "pyvc-emit", 0, f"only {len(scs)} paths", self.kind))
        return res


SHAPES = [(), ("B",), ("O", "B"), ("B", "B"), ("E",), ("E", "B"), ("E", "O", "B"), ("O", "E", "B"), ("B", "E"), ("E", "E"), ("E", "S", "E", "O"),
          ("IE", "O", "B"), ("IE", "E"), ("E", "IE", "O"), ("IE", "IE")]


class KeyedEmitTask(EmitTask):
    """EmitTask whose known-finding key is the failure category written in [brackets] at the start of the failure text"""

    def finding_key(self, res):
        import re
        m = re.search(r"\[([a-z][a-z0-9_.-]+)\]", res.detail or "")
        return m.group(1) if m else "other"


def emit_task(name, meth, cls, pred, **kw):
    return KeyedEmitTask("C04", name, f"jinja2.compiler:CodeGenerator.{meth}", cls, pred, mode="stmts", buffers=(None, "t_buf"),
                    replay_fn=native_inheritance, gen_fields=GEN_FIELDS, pre=gen_pre, **kw)


EMIT_TASKS = [
    emit_task("C04.emit.block", "visit_Block", N.Block, block_pred, min_paths=20),  # (replay: see BLOCK_REPLAY below)
    emit_task("C04.emit.extends", "visit_Extends", N.Extends, extends_pred, min_paths=6),
] + [emit_task(f"C04.emit.output[{n} children]", "visit_Output", N.Output, output_pred, node_fields=output_fields(n), min_paths=3) for n in (1, 2)] \
  + [TemplateShapeTask(s) for s in SHAPES]


# ================================================================== emission: visit_For creates `loop` for a scoped block anywhere below it

# body shapes of the loop: "B" a block (its `scoped` flag symbolic), "S" any other statement, (Container, inner shape) a statement
# that contains further statements
FOR_SHAPES = {
    "B": ("B",),
    "S": ("S",),
    "If[B]": (("If", ("B",)),),
    "With[B]": (("With", ("B",)),),
    "FilterBlock[B]": (("FilterBlock", ("B",)),),
    "If[With[B]]": (("If", (("With", ("B",)),)),),
    "S,If[B],B": ("S", ("If", ("B",)), "B"),
    "If[S,B],If[B]": (("If", ("S", "B")), ("If", ("B",))),
}


def build_for_body(st, shape, path, blocks, every=None):
    """concrete statement list for a shape; `blocks` collects every Block, `every` every node, in document order.
    'B' block, 'S' other statement, 'I' include, 'M' import, 'F' from-import (their with_context flag symbolic), (Container, inner)"""
    out = []
    every = every if every is not None else []
    for i, k in enumerate(shape):
        p = f"{path}[{i}]"
        if k == "B":
            r = emit.make_node(st, N.Block, p, fields={"name": f"b{len(blocks)}", "body": st.alloc(HList(items=[]), initial=True)})
            blocks.append(r)
            every.append(r)
        elif k == "S":
            r = emit.make_node(st, N.ExprStmt, p, kind="stmt")  # some statement that is not a block
            every.append(r)
        elif k in ("I", "M", "F"):
            r = emit.make_node(st, {"I": N.Include, "M": N.Import, "F": N.FromImport}[k], p)
            every.append(r)
        else:
            cls, inner = k
            f = {}
            r = emit.make_node(st, getattr(N, cls), p, fields=f)
            every.append(r)
            kids = build_for_body(st, inner, p + ".body", blocks, every)
            f = {"body": st.alloc(HList(items=kids), initial=True)}
            if cls == "If":
                f.update(elif_=st.alloc(HList(items=[]), initial=True), else_=st.alloc(HList(items=[]), initial=True))
            if cls == "With":
                f.update(targets=st.alloc(HList(items=[]), initial=True), values=st.alloc(HList(items=[]), initial=True))
            if cls == "For":
                f.update(else_=st.alloc(HList(items=[]), initial=True), test=None, recursive=False)
            st.get(r).fields.update(f)
        out.append(r)
    return out


class ForScopedBlockTask(Task):
    """C04.emit.for.scoped_block_sees_loop[<shape>]: the real visit_For on a loop whose body is a concrete small tree of symbolic
    statements.  Node.find_all / Node.iter_child_nodes are used through their documented contracts on that tree (find_all: every
    node of the class in the SUBTREE, document order; iter_child_nodes(only=("body",)): the DIRECT children in `body`).
    Obligation: on every path on which the special `loop` variable is not created, every block in the loop's subtree is known to be
    unscoped - i.e. a scoped block anywhere below the loop gets `loop` (declared on the loop frame, bound by (Async)LoopContext)."""
    kind = "emission"

    shapes = None

    def __init__(self, label):
        self.label, self.shape = label, (self.shapes or FOR_SHAPES)[label]
        self.prop = "C04"
        self.name = f"C04.emit.for.scoped_block_sees_loop[{label}]"
        self.bound_text = "shape bound: the loop body is this concrete tree (block flags, other statements, target, iterable, async flag symbolic); no loop filter / else / recursion"

    def replay(self, w):
        return native_inheritance(w)

    def schemas(self):
        info = {}

        def fields(st):
            blocks, every = [], []
            kids = build_for_body(st, self.shape, "node.body", blocks, every)
            info["blocks"], info["kids"], info["every"] = blocks, kids, every
            return {"body": st.alloc(HList(items=kids), initial=True), "else_": st.alloc(HList(items=[]), initial=True), "test": None, "recursive": False,
                    "target": emit.make_node(st, N.Name, "node.target", fields={"ctx": "store"}), "iter": emit.make_node(st, N.Name, "node.iter")}

        def configure(I):
            def find_all(I_, s, args, kwargs, node):
                if args[1] is N.Name:
                    return [(s, ())]  # the scan for an assignment to `loop` in the target is C07's obligation
                return [(s, tuple(r for r in info["every"] if issubclass(s.get(r).cls, args[1])))]

            def iter_child_nodes(I_, s, args, kwargs, node):
                only = kwargs.get("only")
                if tuple(only or ()) != ("body",) or kwargs.get("exclude"):
                    raise Unsupported("iter_child_nodes with other arguments", node)
                return [(s, tuple(info["kids"]))]

            I.specs["Node.find_all"] = find_all
            I.specs["Node.iter_child_nodes"] = iter_child_nodes

        out = []
        for buf in (None, "t_buf"):
            scs, I = emit.run_visitor("jinja2.compiler:CodeGenerator.visit_For", N.For, buffer=buf, node_fields=fields, configure=configure)
            for sc in scs:
                sc.buffer = buf
                sc.blocks = [sc.st.get(b).path for b in info["blocks"]]
                sc.ctx_nodes = [sc.st.get(r).path for r in info["every"] if sc.st.get(r).cls in (N.Include, N.Import, N.FromImport)]
                sc.kid_paths = [sc.st.get(k).path for k in info["kids"]]
            out += scs
        return out

    def check(self, sc, tree, ph, txt):
        decl = [e for e in sc.st.trace if e.kind == "call" and e.name == "symbols.declare_parameter" and e.args and e.args[0] == "loop"]
        loops = [n for n in tree.body if isinstance(n, (ast.For, ast.AsyncFor))]
        if len(loops) != 1:
            return [f"expected one loop statement: {txt!r}"]
        lp = loops[0]
        fails = []
        holes = [h.path for n in ast.walk(ast.Module(body=lp.body, type_ignores=[])) for h in [hole_of(n, ph)] if h is not None]
        if holes != sc.kid_paths:
            fails.append(f"the loop body must contain the body statements in order: {holes}")
        ctx_call = isinstance(lp.iter, ast.Call) and emit.call_name(lp.iter) in ("LoopContext", "AsyncLoopContext")
        extended = False
        if ctx_call and isinstance(lp.target, ast.Tuple) and len(lp.target.elts) == 2 and len(decl) == 1:
            p = ph.get(getattr(lp.target.elts[1], "id", None))
            extended = isinstance(p, tuple) and p[0] == "ident" and p[1].eq(decl[0].result.t)
        if (ctx_call or decl) and not extended:
            fails.append(f"`loop` must be the parameter declared on the loop frame and bound by the loop context: {ast.unparse(lp.target)} in {ast.unparse(lp.iter)[:60]}")
        if not extended:
            for b in sc.blocks:
                if not sc.holds(z3.Not(z3.Bool(b + ".scoped"))):
                    fails.append(f"the block at {b} may be scoped, but this loop does not create the special `loop` variable: an override of the block "
                                 f"cannot see `loop` (a scoped block ANYWHERE below the loop must make it an extended loop)")
            for c in sc.ctx_nodes:
                if not sc.holds(z3.Not(z3.Bool(c + ".with_context"))):
                    fails.append(f"[context-without-loop] the include / import at {c} may be `with context`, but this loop does not create the special `loop` "
                                 f"variable: the target template is given the locals and finds no `loop` (or an enclosing loop's)")
        return fails

    def run(self, tier, seed):
        try:
            scs = self.schemas()
        except Unsupported as ex:
            return [Res(self.name + ".engine", "unknown", "pyvc-emit", 0, f"unsupported: {ex}", self.kind)]
        res = []
        for i, sc in enumerate(scs):
            fails = []
            if sc.outcome == "raise":
                fails.append(f"visit_For raises {sc.value!r}")
            else:
                for txt, ph in sc.texts():
                    try:
                        tree = emit.parse_stmts(txt)
                    except SyntaxError as ex:
                        fails.append(f"emitted loop does not parse: {ex.msg}")
                        continue
                    fails += self.check(sc, tree, ph, txt)
            if fails:
                res.append(Res(f"{self.name}#p{i}", "refuted", "pyvc-emit", 0, f"under {[str(c)[:50] for c in sc.pc][:8]}: " + "; ".join(fails[:2]), self.kind,
                               witness={"shape": self.label, "path_condition": [str(c) for c in sc.pc][:12], "buffer": sc.buffer}))
            else:
                res.append(Res(f"{self.name}#p{i}", "discharged", "pyvc-emit", 0, "", self.kind))
        if len(scs) < 4:
            res.append(Res(self.name + ".paths", "error", "pyvc-emit", 0, f"only {len(scs)} paths", self.kind))
        return res


EMIT_TASKS += [ForScopedBlockTask(k) for k in FOR_SHAPES]


# ================================================================== hunt round: content outside blocks / required blocks / block function names

def configure_macro_markers(I):
    """macro_body / macro_def through their contracts (C06.emit.*): markers in the stream"""
    from pyvc.values import Event

    def macro_body(I_, st, args, kwargs, node):
        fr = st.alloc(HObj(C.Frame, path="macro_frame"))
        ref = st.alloc(HObj(C.MacroRef, path="macro_ref"))
        st.trace.append(Event("call", "macro_body", args[1:], kwargs, (fr, ref)))
        return [(s, (fr, ref)) for s, _ in I_.call_method(st, args[0], "writeline", ["__macro_body__()"], {}, node)]

    def macro_def(I_, st, args, kwargs, node):
        return I_.call_method(st, args[0], "write", ["__macro_def__"], {}, node)

    I.specs["CodeGenerator.macro_body"] = macro_body
    I.specs["CodeGenerator.macro_def"] = macro_def


def output_check_pred(what):
    """C04.emit.output_check.<visitor>: a statement that produces output (include, call block, filter block) honours the frame's
    require_output_check exactly like visit_Output: in a frame of the root function of an extending template it emits nothing once a
    root-level extends is known (or at least the guard), and is wrapped in `if parent_template is None:` otherwise; in any other frame
    it does not mention parent_template."""
    def pred(sc, tree, ph, txt):
        if sc.outcome == "raise":
            return [f"{what} raises {sc.value!r}"]
        chk, known = decide(sc, OUTCHECK), decide(sc, KNOWN)
        if not tree.body:
            return [] if (chk and known) else [f"{what} emitted nothing although the statement must run"]
        if chk is None:
            return [f"[ignores-require_output_check] {what} writes to the output without looking at frame.require_output_check: at the top level of a "
                    f"template that extends another one this content outside blocks is rendered: {txt[:90]!r}"]
        body = list(tree.body)
        if chk:
            if not (len(body) == 1 and isinstance(body[0], ast.If) and is_parent_none_test(body[0].test) and not body[0].orelse):
                return [f"{what} in a frame that checks its output must be guarded by `if parent_template is None:` : {txt[:120]!r}"]
            body = list(body[0].body)
        if "parent_template" in names_in(ast.Module(body=body, type_ignores=[])):
            return ["unexpected reference to parent_template"]
        if not body:
            return [f"{what}: empty guarded body"]
        return []
    return pred


def include_name_fields(st):
    return {"template": emit.make_node(st, N.Name, "node.template")}


OUTPUT_CHECK_TASKS = [
    KeyedEmitTask("C04", "C04.emit.output_check.visit_Include", "jinja2.compiler:CodeGenerator.visit_Include", N.Include, output_check_pred("visit_Include"),
                  mode="stmts", buffers=(None,), replay_fn=native_outside_blocks, gen_fields=GEN_FIELDS, pre=gen_pre, node_fields=include_name_fields, min_paths=8),
    KeyedEmitTask("C04", "C04.emit.output_check.visit_CallBlock", "jinja2.compiler:CodeGenerator.visit_CallBlock", N.CallBlock, output_check_pred("visit_CallBlock"),
                  mode="stmts", buffers=(None,), replay_fn=native_outside_blocks, gen_fields=GEN_FIELDS, pre=gen_pre, configure=configure_macro_markers, min_paths=1),
    KeyedEmitTask("C04", "C04.emit.output_check.visit_FilterBlock", "jinja2.compiler:CodeGenerator.visit_FilterBlock", N.FilterBlock, output_check_pred("visit_FilterBlock"),
                  mode="stmts", buffers=(None,), replay_fn=native_outside_blocks, gen_fields=GEN_FIELDS, pre=gen_pre, min_paths=2),
]


class RequiredBlockTask(Task):
    """C04.emit.required.block_function_fails[<shape>]: a required block fails whenever it is the definition that gets rendered,
    whichever template of the chain declared it: its block function raises TemplateRuntimeError before anything else (the
    `len(context.blocks[name]) <= 1` test of visit_Block only exists where the ROOT of the chain declares the block).  'R' in a
    shape is a required block."""
    kind = "emission"

    def __init__(self, shape):
        self.shape = tuple(shape)
        self.prop = "C04"
        self.name = f"C04.emit.required.block_function_fails[{','.join(shape)}]"
        self.bound_text = "shape bound: Template.body is this concrete list of symbolic children"

    def replay(self, w):
        return native_required_anywhere(w)

    def finding_key(self, res):
        return "raises-via-super" if "[raises-via-super]" in (res.detail or "") else "required-block-function-renders"

    def run(self, tier, seed):
        try:
            scs = run_template_shape(self.shape)
        except Unsupported as ex:
            return [Res(self.name + ".engine", "unknown", "pyvc-emit", 0, f"unsupported: {ex}", self.kind)]
        res = []
        names = [f"b{i}" for i, k in enumerate(self.shape) if k == "R"]
        for i, sc in enumerate(scs):
            fails = []
            if sc.outcome == "raise":
                fails.append(f"visit_Template raises {sc.value!r}")
            else:
                txt, ph = sc.texts()[0]
                tree = emit.parse_stmts(txt)
                funcs = {n.name: n for n in tree.body if isinstance(n, (ast.FunctionDef, ast.AsyncFunctionDef))}
                for b in names:
                    f = funcs.get("block_" + b)
                    if f is None:
                        fails.append(f"no function for required block {b}")
                        continue
                    real = [s for s in f.body if not (isinstance(s, ast.Assign) and getattr(s.targets[0], "id", "") in ("resolve", "undefined", "concat", "cond_expr_undefined"))
                            and not (isinstance(s, ast.If) and isinstance(s.test, ast.Constant))]
                    g = real[0] if real else None
                    if is_raise_runtime_error(g, "Required block"):
                        # (regression of f3dda99, repaired by 75c7dc0) an unconditional raise also fires when an OVERRIDE reaches the
                        # required block through super() / super.super(): then a descendant does override it and nothing may fail
                        fails.append(f"[raises-via-super] the function of required block {b} raises unconditionally: an override that calls super() into it fails "
                                     f"although the block is overridden; it must fail exactly when it is the most derived definition (context.blocks[name][0])")
                        continue
                    t = g.test if isinstance(g, ast.If) else None
                    most_derived = (isinstance(t, ast.Compare) and len(t.ops) == 1 and isinstance(t.ops[0], ast.Is) and is_name(t.comparators[0], "block_" + b)
                                    and block_name_of(ast.Call(func=t.left, args=[], keywords=[])) == b)
                    if not (most_derived and not g.orelse and len(g.body) == 1 and is_raise_runtime_error(g.body[0], "Required block")):
                        fails.append(f"the function of required block {b} renders (first statement: {ast.unparse(g)[:70] if g is not None else None}); it must first fail with "
                                     f"TemplateRuntimeError exactly when it is the most derived definition (`if context.blocks[name][0] is block_<name>: raise`), "
                                     f"whichever template of the chain declares it")
            res.append(Res(f"{self.name}#p{i}", "refuted" if fails else "discharged", "pyvc-emit", 0, "; ".join(fails[:2]), self.kind,
                           {"shape": list(self.shape)} if fails else None))
        return res


def block_function_names(task, tier, seed):
    """C04.emit.template.block_function_names: blocks with different names are compiled to different PYTHON identifiers (Python
    compares identifiers in NFKC form), and `blocks` maps each name to its own function - or the template is rejected.  Table over
    name pairs on the real compiler (names are data of the template; the pairs cover NFKC-equal, NFKC-stable and escaped-looking names)."""
    import unicodedata
    import jinja2
    rs = []
    pairs = [("ﬁ", "fi"), ("fi", "ﬁ"), ("ª", "a"), ("ℌ", "H"), ("a", "b"), ("x1", "x２"), ("ﬁ", "ﬂ"), ("n", "0efac81"[1:]), ("Å", "Å")]
    for a, b in pairs:
        if not (a.isidentifier() and b.isidentifier()) or a == b:
            continue
        env = jinja2.Environment()
        src = "{% block " + a + " %}A{% endblock %}|{% block " + b + " %}B{% endblock %}"
        fails = []
        try:
            code = env.compile(src, raw=True)
        except jinja2.TemplateSyntaxError:
            code = None  # rejected at compile time: acceptable
        if code is not None:
            tree = ast.parse(code)
            funcs = [n.name for n in tree.body if isinstance(n, (ast.FunctionDef, ast.AsyncFunctionDef)) and n.name != "root"]
            norm = [unicodedata.normalize("NFKC", f) for f in funcs]
            if len(set(norm)) != 2:
                fails.append(f"[nfkc-collision] blocks {a!r} and {b!r} are compiled to the function names {funcs}, which are the same Python identifier")
            reg = [n for n in tree.body if isinstance(n, ast.Assign) and getattr(n.targets[0], "id", "") == "blocks"]
            vals = [unicodedata.normalize("NFKC", v.id) for v in reg[0].value.values] if reg else []
            if len(set(vals)) != 2 or [k.value for k in reg[0].value.keys] != [a, b]:
                fails.append(f"[nfkc-collision] `blocks` does not map {a!r} and {b!r} to two different functions")
            if not fails:
                got = env.from_string(src).render()
                if got != "A|B":
                    fails.append(f"rendered {got!r}")
        rs.append(Res(f"C04.emit.template.block_function_names[{a},{b}]", "refuted" if fails else "discharged", "table", 0, "; ".join(fails[:2]), "table",
                      {"names": [a, b]} if fails else None))
    return rs


_bfn = FnTask("C04", "C04.emit.template.block_function_names", block_function_names, "table", lambda w: native_block_names(w))
_bfn.finding_key = lambda res: "nfkc-collision"



def _block_replay(w):
    v, d = native_inheritance(w)
    return (v, d) if v else native_outside_blocks(w)


EMIT_TASKS[0].replay_fn = _block_replay
EMIT_TASKS += OUTPUT_CHECK_TASKS + [RequiredBlockTask(s) for s in (("R",), ("E", "R"), ("IE", "R"), ("R", "B"))] + [_bfn]

RUNTIME_TASKS = [ContextInit(False), ContextInit(True), ContextSuper(), ContextDerived(), BlockRefInit(), BlockRefSuper(),
                 BlockRefRender("sync"), BlockRefRender("async"), BlockRefCallAsyncDispatch(), TemplateRef(), TemplateRefRepr()]

TASKS = RUNTIME_TASKS + EMIT_TASKS

META = {
    "level": "other",
    "explanation": "mechanisms proved, end-to-end statement argued by induction over the chain: Context.__init__/super/derived, "
                   "BlockReference.__init__/super/__call__/_async_call and TemplateReference are VCs on the real bodies (block stacks of arbitrary "
                   "length, arbitrary block names through a generic key); visit_Block/visit_Extends/visit_Output are emission contracts over symbolic "
                   "generator state (extends_so_far, has_known_extends); visit_Template is run on 15 concrete small top-level shapes of symbolic "
                   "children (shape bound) against the layout demanded by the statement. Induction (argued): context.blocks[name] is most-derived "
                   "first after k extends (Context.__init__ = base case, visit_Extends appends the parent's blocks = step), visit_Block renders entry "
                   "[0], context.super steps to the next entry, the parent's root function runs after the child's body in the same context.",
    "assumptions": [
        "A-EQ equality of block functions / names coincides with term equality (list.index finds the first identical entry)",
        "A7 await / async comprehensions are transparent",
        "a block function asking for its parent occurs on the stack of its own name (C04.blocks.order: established by Context.__init__ and visit_Extends; "
        "emitted as context.super(<name>, block_<name>), checked in C04.emit.template)",
        "Output nodes have at least one child (the parser only creates non-empty Output nodes)",
        "frame invariant: a top-level frame of a template in which an extends was already visited has require_output_check set (visit_Template sets it "
        "on the root frame iff the template has an extends; Frame.__init__ copies it to inner / soft frames)",
        "macro_body / macro_def are used through their C06 contracts in C04.emit.output_check.visit_CallBlock",
        "name mangling of TemplateReference.__context is uniform within the class (the attribute is only touched by __init__/__getitem__/__repr__, which are run together)",
        "shape bound of C04.emit.template[...]: the template body is one of 15 concrete top-level shapes; blocks nested in other statements are holes",
        "children's own emission (expressions, block bodies) is used through holes (modular)",
    ],
    "trusted_base": ["z3 5.1 / cvc5 1.0.3", "pyvc symbolic executor and emission engine", "list.index (first occurrence) / list() copy / dict comprehension and "
                     "generator over .items() (generic item) dependency specs", "C34.block_reference.concat contract (contracts/c34_extra.py) reused for BlockReference.__call__"],
}
