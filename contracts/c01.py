"""C01  Every template source either compiles or fails with a template syntax error.

Proof of mechanism (DESIGN section 5, C01); known findings listed.  The pieces live in
  contracts/c01_lexer.py   regex facts of the real rule tables (re._parser), Lexer.tokeniter (prologue + loop body run
                           symbolically per lexer state and configuration: exception set, progress variant, token
                           automaton), Lexer.wrap (one generic iteration per raw token type)
  contracts/c01_parser.py  every Parser.parse_* method, subparse, the fail helpers and the TokenStream methods run from
                           their real source over an abstract token stream; W1/W2 (distinct names) and the
                           slice-in-tuple obligation on scripted streams with symbolic names
  contracts/c01_emit.py    what the compiler writes from template data (W3..W6), Symbols._define_ref
  contracts/c01_fuzz.py    bounded stand-in: seeded grammar-based fuzz of the whole pipeline in four configurations

Obligation names:
  C01.regex.<cfg>.*  C01.tokeniter.prologue.<cfg>  C01.tokeniter.raises/terminates.<cfg>.<state>  C01.tokeniter.states.<cfg>
  C01.wrap.raises[<token>]  C01.lexer.<helper>.total  C01.Token.test.helper_contract
  C01.stream.<method>  C01.parser.raises.<method>.<clause>  C01.parser.tables.*
  C01.parse_signature.distinct  C01.parse_call_args.distinct  C01.parse_subscript.slice_not_in_tuple
  C01.emit.wellformed.W3.* .W4.* .W5 .W6.*  C01.symbols._define_ref  C01.bounded.fuzz
(C01.subparse.assert_unreachable = C01.tokeniter.states.<cfg> + the loop invariant / call-site precondition obligations
 of C01.parser.raises.subparse*, parse_statements*, parse: the AssertionError branch is infeasible on every path.)
"""
from __future__ import annotations

from pyvc.contract import FnTask

from contracts import c01_lexer as CL
from contracts import c01_parser as CP
from contracts import c01_emit as CE
from contracts import c01_fuzz as CF

PROP = "C01"

TASKS = []
for _cfg in CL.CONFIGS:
    TASKS.append(FnTask(PROP, f"C01.regex.{_cfg}", CL.regex_facts(_cfg), "regex", CL.replay_regex))
    TASKS.append(FnTask(PROP, f"C01.tokeniter.prologue.{_cfg}", CL.prologue_task(_cfg), "path", CL.native_lexer_search))
    TASKS.append(FnTask(PROP, f"C01.tokeniter.{_cfg}", CL.tokeniter_config_task(_cfg), "path", CL.replay_tokeniter))
TASKS += [CL.WrapVC(tok) for tok in CL.raw_token_types(CL.real_lexer("line")) + [None]]
TASKS += [CP.HelperVC(n) for n in ("describe_token", "describe_token_expr", "_describe_token_type")]
TASKS += [FnTask(PROP, "C01.Token.test", CP.token_test_table, "table"), FnTask(PROP, "C01.parser.tables", CP.parser_tables, "table")]
TASKS += CP.stream_tasks()
TASKS += CP.parser_tasks()
TASKS += CP.distinct_tasks() + [CP.SliceInTupleVC()]
TASKS += CE.tasks()
TASKS += CF.fuzz_tasks()

META = {
    "level": "other",
    "explanation": "Mechanisms proved, known findings listed. Lexer: the real rule tables of four configurations are analysed with re._parser "
                   "(group participation shapes, minimum widths, state closure); the real tokeniter prologue and loop body are executed "
                   "symbolically from the loop-head invariant in every lexer state: the only exceptions are TemplateSyntaxErrors (the three "
                   "RuntimeError sites, StopIteration of the strip-sign search, stack / rule / group index errors are infeasible), every "
                   "continuing iteration decreases (len(source)-pos, len(stack)), and the token automaton built from the path summaries gives "
                   "the token-order fact that makes subparse's `internal parsing error` unreachable. Lexer.wrap: one generic iteration per raw "
                   "token type. Parser: every parse_* method, subparse, the fail helpers and the TokenStream methods are executed from their "
                   "real source over an abstract token stream with modular contracts for recursive calls and automatically inferred type "
                   "invariants for the loops: only TemplateSyntaxError/TemplateAssertionError leave, nodes are constructed with the right "
                   "number of fields and are complete, identifier fields come from `name` tokens, the tag / end-token stacks are balanced. "
                   "Compiler: emission obligations over every summarisable visitor (no raw template data in the generated source except "
                   "generator-made identifiers and `<key>=`, Python-keyword keys go through the **{...} workaround, template keywords differ "
                   "from compiler-added ones). Defects found by these obligations: F5, F6, slice inside a multi-item subscript, collision with "
                   "compiler-added keywords and non-ASCII digits in float literals are repaired in /repo (fix: commits, listed under `fixed`); "
                   "F7, F8 (blocks, indentation, parentheses), F9, F25, NFKC-colliding names, the keyword argument __debug__ and F10 (RecursionError, "
                   "keyed by construct) remain and are listed as known findings with native replays. compiler.has_safe_repr is under contract "
                   "(True implies every element, dict key and dict value is safe; table of containers with repr-unsafe members). The whole "
                   "pipeline is additionally exercised by a bounded, seeded grammar-based fuzz (stand-in, never reported as proved).",
    "assumptions": [
        "A8/A9 the `re` module implements its documented matching semantics; match objects are modelled from the parse tree of the real patterns "
        "(group participation, width bounds); catastrophic backtracking of the regex engine is outside the termination claim",
        "A5 resource limits: recursion depth (F10) is an observation, the int/str digit limit is a named clause (F7/F9)",
        "configurations: the lexer facts are established for the four rule tables default / custom delimiters / line statements+comments / trim+lstrip+"
        "keep_trailing_newline; other delimiter choices need their own regex-fact run",
        "tokeniter's `state` argument is None, 'root', 'variable' or 'block' (its documented values)",
        "token values are modelled as strings in the parser runs; integer / float values are only stored into Const nodes",
        "extensions' own parse methods are outside the contract (abstract: a node, a list of nodes or a TemplateSyntaxError), except "
        "LoopControlExtension.parse",
        "nodes.py helpers used by the parser (set_ctx, can_assign, set_environment) are total on well-formed trees",
        "the line-number clause (1 <= lineno <= 1 + line breaks) is decided by the bounded fuzz only",
        "Macro / CallBlock / Template / FromImport visitors are not summarisable by the emission engine yet: their identifier emission "
        "(block_<name>, parameter lists) is covered by the parser-side identifier obligation and the bounded fuzz only",
    ],
    "trusted_base": ["z3 / cvc5", "pyvc symbolic executor and emission engine", "re._parser parse trees of the compiled patterns",
                     "CPython compile() as the oracle for generated code",
                     "dependency specs: re.Pattern.match/fullmatch/split/sub, str methods, int(str, 0), ast.literal_eval on float literals, "
                     "str.encode/bytes.decode (may raise any Exception), list/deque/dict models"],
    "technique": "contract-based deductive verification: symbolic execution of the real function ASTs (pyvc) with regex facts from re._parser, "
                 "emission schemas, table obligations; bounded grammar-based fuzz as a labelled stand-in",
}

# debugging aid: C01_ONLY=<regex> restricts the run to the tasks whose name matches (never set by ./check itself)
import os as _os
import re as _re

if _os.environ.get("C01_ONLY"):
    TASKS = [t for t in TASKS if _re.search(_os.environ["C01_ONLY"], t.name)]
