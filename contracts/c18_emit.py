"""C18 compiler side: every call written in a template is emitted as a gated call.

  C18.emit.call        visit_Call: sandboxed => environment.call(context, <callee>, <args...>) ;
                       otherwise context.call(<callee>, <args...>); callee hole only in that position
  C18.emit.signature   the real CodeGenerator.signature puts every argument child in argument position of
                       that call (positional, keyword value, *args, **kwargs, or inside the **{...} workaround dict)
  C18.emit.no_other_call.<visitor>   in no emission schema is a template-expression hole applied directly
                       (`<hole>(...)`), awaited-and-applied, or passed to a builtin that would call it
"""
from __future__ import annotations

import ast
import z3

from pyvc.emitcheck import EmitTask
from pyvc import emit
from contracts.emit_common import all_visitor_tasks, is_hole, hole_of, strip_async

import jinja2.nodes as N

SANDBOXED = z3.Bool("environment.sandboxed")


def native_sandbox_calls(w=None):
    """Native oracle: unsafe callables are never invoked from a sandboxed template, whatever the call shape."""
    from jinja2.sandbox import SandboxedEnvironment, unsafe
    from jinja2.exceptions import SecurityError
    problems = []
    for is_async in (False, True):
        ran = []

        @unsafe
        def bad(*a, **k):
            ran.append(("bad", a, k))
            return "RAN"

        def alters(*a, **k):
            ran.append(("alters", a, k))
            return "RAN"

        alters.alters_data = True

        class Holder:
            f = staticmethod(bad)

            def __init__(self):
                self.g = alters

        env = SandboxedEnvironment(enable_async=is_async)
        env.filters["apply"] = lambda f, *a: "filtered"
        srcs = ["{{ bad() }}", "{{ bad(1, x=2) }}", "{{ h.f() }}", "{{ h.g() }}", "{{ h['g']() }}", "{% set f = bad %}{{ f() }}",
                "{{ bad(*[1], **{'a': 2}) }}", "{% call bad() %}x{% endcall %}", "{% macro m(c) %}{{ c() }}{% endmacro %}{{ m(bad) }}",
                "{{ (bad if true else bad)() }}", "{{ [bad][0]() }}", "{{ {'k': alters}.k() }}", "{{ 1|apply(bad()) }}",
                "{% for x in [bad] %}{{ x() }}{% endfor %}", "{{ bad(class=1) }}"]
        for src in srcs:
            del ran[:]
            try:
                outp = env.from_string(src).render(bad=bad, alters=alters, h=Holder())
                problems.append(f"{src} (async={is_async}) rendered {outp!r} without SecurityError")
            except SecurityError:
                pass
            except Exception as ex:
                problems.append(f"{src} (async={is_async}): {type(ex).__name__}: {ex}")
            if ran:
                problems.append(f"{src} (async={is_async}): unsafe callable RAN: {ran}")
        ok = env.from_string("{{ good(2) }}").render(good=lambda x: x + 1)
        if ok != "3":
            problems.append(f"safe call broken: {ok!r}")
    return (bool(problems), "; ".join(problems[:3]) or "no unsafe callable ran in the sandbox call-shape family")


def call_pred(sc, tree, ph, txt):
    if sc.outcome == "raise":
        return [f"raises {sc.value!r}"]
    t = strip_async(tree)
    if not isinstance(t, ast.Call):
        return [f"a template call is not emitted as a call: {txt!r}"]
    name = emit.call_name(t)
    sandboxed = sc.holds(SANDBOXED)
    not_sandboxed = sc.holds(z3.Not(SANDBOXED))
    fails = []
    if sandboxed:
        if name != "environment.call":
            return [f"sandboxed call is emitted as {name}(...), not environment.call(context, callee, ...): {txt!r}"]
        if len(t.args) < 2 or not (isinstance(t.args[0], ast.Name) and t.args[0].id == "context") or not is_hole(t.args[1], ph, "node.node"):
            fails.append("environment.call must receive (context, <callee>, ...)")
        rest = t.args[2:]
    elif not_sandboxed:
        if name != "context.call":
            return [f"call is emitted as {name}(...), not context.call(callee, ...): {txt!r}"]
        if not t.args or not is_hole(t.args[0], ph, "node.node"):
            fails.append("context.call must receive the callee first")
        rest = t.args[1:]
    else:
        return ["path does not decide `sandboxed`"]
    occ = [n for n in ast.walk(tree) if is_hole(n, ph, "node.node")]
    if len(occ) != 1:
        fails.append("callee hole occurs more than once")
    # the argument tail is the signature summary (proved separately) and nothing else
    sig = [a for a in rest if isinstance(a, ast.Starred) and hole_of(a.value, ph) is not None and hole_of(a.value, ph).kind == "signature"]
    if len(sig) != 1 or len(rest) != 1 or t.keywords:
        fails.append(f"unexpected argument tail: {txt!r}")
    return fails


def signature_pred(sc, tree, ph, txt):
    """with the real signature inlined: every argument child is in argument position of the outermost call"""
    if sc.outcome == "raise":
        # a compile-time rejection (self.fail -> TemplateAssertionError, e.g. a keyword colliding with a
        # compiler-added one) emits no call at all: nothing to gate
        from jinja2.exceptions import TemplateSyntaxError
        if sc.value.cls is not None and issubclass(sc.value.cls, TemplateSyntaxError):
            return []
        return [f"raises {sc.value!r}"]
    t = strip_async(tree)
    if not isinstance(t, ast.Call):
        return [f"not a call: {txt!r}"]
    fails = []
    allowed = set()
    for a in t.args:
        allowed.add(id(a.value if isinstance(a, ast.Starred) else a))
    for k in t.keywords:
        v = k.value
        allowed.add(id(v))
        # **{...} / **dict({...}, **x) workaround: values of the literal dict, and the merged mapping
        if k.arg is None:
            d = v
            if isinstance(d, ast.Call) and emit.call_name(d) == "dict":
                for a in d.args:
                    allowed.add(id(a))
                    if isinstance(a, ast.Dict):
                        allowed.update(id(x) for x in a.values)
                for kk in d.keywords:
                    allowed.add(id(kk.value))
            if isinstance(d, ast.Dict):
                allowed.update(id(x) for x in d.values)
    for n in ast.walk(tree):
        h = hole_of(n, ph)
        if h is not None and id(n) not in allowed:
            fails.append(f"child {h.path} is emitted outside the argument list: {txt!r}")
    for n in ast.walk(tree):
        if isinstance(n, ast.Call) and n is not t and hole_of(n.func, ph) is not None:
            fails.append("a child is applied")
    return fails


def no_applied_hole_pred(sc, tree, ph, txt):
    if sc.outcome == "raise" or tree is None:
        return []
    fails = []
    for n in ast.walk(tree):
        if isinstance(n, ast.Call):
            f = n.func
            while isinstance(f, ast.Await):
                f = f.value
            if hole_of(f, ph) is not None:
                fails.append(f"a template expression is applied directly, outside the sandbox gate: {ast.unparse(n)[:120]}")
            nm = emit.call_name(n)
            if nm in ("map", "filter", "apply", "functools.partial", "next") and n.args and hole_of(n.args[0], ph) is not None:
                fails.append(f"a template expression is handed to {nm}() as a callable")
    return fails


TASKS = (
    [EmitTask("C18", "C18.emit.call", "jinja2.compiler:CodeGenerator.visit_Call", N.Call, call_pred, replay_fn=native_sandbox_calls, min_paths=4),
     EmitTask("C18", "C18.emit.call_forward_caller", "jinja2.compiler:CodeGenerator.visit_Call", N.Call, call_pred, replay_fn=native_sandbox_calls,
              min_paths=4, extra_kwargs={"forward_caller": True}),
     EmitTask("C18", "C18.emit.signature", "jinja2.compiler:CodeGenerator.visit_Call", N.Call, signature_pred, replay_fn=native_sandbox_calls,
              min_paths=16, install_opts={"modular_signature": False})]
    + all_visitor_tasks("C18", "C18.emit.no_other_call", no_applied_hole_pred, replay_fn=native_sandbox_calls)
)
