"""C01, compiler half: what the code generator writes from template data is accepted by Python's compiler.

  C01.emit.wellformed.W3.<visitor>   in no emission schema of a visitor does template data reach the generated source
                       as raw text, except (a) quoted with repr, (b) identifiers made by the symbol table / the
                       generator's own temporaries, (c) `<key>=` of a Keyword node; the schema itself parses as Python
  C01.emit.wellformed.W3.signature   real CodeGenerator.signature inlined into visit_Call: when a keyword name is a Python
                       keyword (`any(is_python_keyword(..))` holds on the path) no `<key>=` is written: the names go
                       quoted into the `**{...}` workaround dictionary
  C01.symbols._define_ref            identifiers of template names have the form l_<level>_<name>
  C01.emit.wellformed.W4             static nesting of Python blocks: each nested {% for %} adds a Python `for` around its
                       body and nothing bounds the depth (CPython accepts 20)                    -> F8
  C01.emit.wellformed.W5             visit_Const writes text that evaluates back to the constant (bounded table of
                       constants the lexer / constant folding can produce)                       -> F9
  C01.emit.wellformed.W6             visit_Break / visit_Continue write `break` / `continue` whatever the frame is, and
                       LoopControlExtension.parse does not look at the enclosing tags             -> F25
"""
from __future__ import annotations

import ast
import math
import re
import sys

import z3

from pyvc.contract import VC, Res, FnTask
from pyvc.emitcheck import EmitTask
from pyvc import emit, abstract as A
from pyvc.values import Sym, Ref, HObj, HDict, sym, fresh, Exc
from pyvc.smt import to_term
from contracts.emit_common import all_visitor_tasks, hole_of

import jinja2
import jinja2.nodes as N
import jinja2.compiler as C
import jinja2.idtracking as IDT
from jinja2.exceptions import TemplateSyntaxError

PROP = "C01"

# generator-made identifiers (symbol table, temporaries, import aliases) and symbol-table dumps
OWN_IDENT_PREFIXES = ("ident_", "t_filter", "t_test", "import_alias", "join(")
# node classes template syntax cannot produce (only extension code builds them, with names chosen by the extension author)
EXTENSION_ONLY = {"EnvironmentAttribute", "ExtensionAttribute", "InternalName", "EvalContextModifier", "ScopedEvalContextModifier"}


# {field!r} written inside a string literal is harmless when the field is an identifier (value of a `name` token)
IDENTIFIER_REPR_OK = {"Block": {"node.name"}}


def native_compile_family(w=None):
    """native oracle shared by the W3 obligations: identifiers, keyword arguments that are Python keywords, unusual
    but valid names - everything compiles (or is a TemplateSyntaxError) and the generated source is accepted by compile()"""
    problems = []
    srcs = ["{{ f(class=1, x=2) }}", "{{ f(a, *b, **c) }}", "{{ x|default(value=1) }}", "{{ f(if=1, **d) }}", "{{ f(None=1) }}",
            "{% set é = 1 %}{{ é }}", "{% block ß %}{% endblock %}", "{% macro m(a, class=1) %}{% endmacro %}",
            "{% macro lambda() %}{% endmacro %}{{ lambda() }}", "{% for def in x %}{{ def }}{% endfor %}", "{{ x.class }}{{ x['a b'] }}",
            "{% import 'a' as import %}", "{% from 'a' import b as from %}", "{{ x is divisibleby(import=3) }}",
            "{% call(class) f(print=1) %}{% endcall %}", "{% set ns.for = 1 %}", "{% with not_ = 1 %}{{ not_ }}{% endwith %}"]
    for nm in ("it's.html", 'say "hi".txt', "back\\slash", "new\nline"):
        for src in ("{{ 'yes' if flag }}", "{% from 'x' import y %}", "{% block b required %}{% endblock %}"):
            try:
                compile(jinja2.Environment().compile(src, name=nm, raw=True), "<t>", "exec")
            except TemplateSyntaxError:
                continue
            except BaseException as ex:  # noqa
                problems.append(f"template named {nm!r}, source {src}: {type(ex).__name__}: {ex}")
    for is_async in (False, True):
        env = jinja2.Environment(enable_async=is_async)
        for src in srcs:
            try:
                code = env.compile(src, raw=True)
                compile(code, "<t>", "exec")
            except TemplateSyntaxError:
                continue
            except BaseException as ex:  # noqa
                problems.append(f"{src} (async={is_async}): {type(ex).__name__}: {ex}")
    return (bool(problems), "; ".join(problems[:3]) or "the identifier / keyword-argument template family compiles to valid Python")


def w3_pred(sc, tree, ph, txt):
    if sc.outcome == "raise":
        return []  # exceptional paths write nothing that is compiled (ill-typed abstract nodes end here too)
    fails = []
    cls_name = getattr(sc.st.get(sc.node).cls, "__name__", "")
    kw_args = set()
    if tree is not None:
        for n in ast.walk(tree):
            if isinstance(n, ast.keyword) and n.arg:
                kw_args.add(n.arg)
    consts = [n.value for n in ast.walk(tree) if isinstance(n, ast.Constant) and isinstance(n.value, str)] if tree is not None else None
    for name, v in ph.items():
        if not isinstance(v, tuple):
            continue
        kind, term = v[0], v[1]
        if kind == "repr" and consts is not None:
            # a repr() is a complete Python literal only where an expression may stand: pasted INSIDE another string
            # literal its quotes / escapes end or alter that literal (unless the value is an identifier: no quote, no backslash)
            inner = name.strip("'")
            if inner not in consts and any(inner in c for c in consts):
                if not (cls_name in IDENTIFIER_REPR_OK and str(term) in IDENTIFIER_REPR_OK[cls_name]):
                    fails.append(f"repr() of data («{str(term)[:40]}») is pasted inside a string literal of the generated source: `{(txt or '')[:140]}`")
            continue
        if kind in ("repr", "int"):
            continue
        t = str(term)
        if kind == "ident" and t.startswith(OWN_IDENT_PREFIXES):
            continue
        if cls_name in EXTENSION_ONLY:
            continue
        if kind == "ident" and cls_name == "Keyword" and t == "node.key" and (name in kw_args or txt.strip().startswith(name + "=")):
            continue  # `<key>=`: the key is a `name` token (C01.parser.*.identifier_from_name_token), a keyword goes through **{...}
        if kind == "str" and cls_name == "Const" and t == "node.value":
            continue  # str(<float>): obligation W5
        fails.append(f"template data is written raw into the generated source: {kind} «{t[:60]}» in `{(txt or '')[:120]}`")
    return fails


def signature_pred(sc, tree, ph, txt):
    if sc.outcome == "raise":
        cls = getattr(sc.value, "cls", None)
        if isinstance(cls, type) and issubclass(cls, TemplateSyntaxError):
            return []  # self.fail(...): a TemplateAssertionError is an allowed outcome of compiling
        return [f"raises {sc.value!r}"]
    flags = [c for c in sc.pc if "is_python_keyword" in str(c)]
    flag_terms = set()
    for c in flags:
        for t in _bool_consts(c):
            if "is_python_keyword" in t.decl().name():
                flag_terms.add(t)
    if len({t.decl().name() for t in flag_terms}) != 1:
        return ["the path does not decide `any(is_python_keyword(k) for k in <keyword names>)` exactly once"]
    flag = next(iter(flag_terms))
    name = flag.decl().name()
    workaround = sc.holds(flag)
    plain = sc.holds(z3.Not(flag))
    if not (workaround or plain):
        return ["keyword test undecided on the path"]
    raw_kw = []
    for n in ast.walk(tree):
        if isinstance(n, ast.keyword) and n.arg and n.arg in ph and isinstance(ph[n.arg], tuple) and ph[n.arg][0] == "ident":
            raw_kw.append(n.arg)
    fails = []
    if workaround and raw_kw:
        fails.append(f"a keyword name is written as `<key>=` although one of the names is a Python keyword: {txt[:160]}")
    if workaround:
        # every Keyword value must sit in the **{...} dictionary under a quoted key
        for n in ast.walk(tree):
            if isinstance(n, ast.keyword) and n.arg is not None:
                fails.append(f"plain keyword argument {n.arg}= emitted in workaround mode: {txt[:160]}")
    return fails


def _bool_consts(t):
    out = []
    todo = [t]
    while todo:
        x = todo.pop()
        if z3.is_const(x) and x.decl().kind() == z3.Z3_OP_UNINTERPRETED and z3.is_bool(x):
            out.append(x)
        else:
            todo.extend(x.children())
    return out


HEXENC = z3.Function("str.encode().hex()", z3.StringSort(), z3.StringSort())


class DefineRef(VC):
    """Symbols._define_ref: the identifier of a template name is l_<level>_<name> when the name is in NFKC form (then
    Python keeps it as written), else l_<level>_0<hex digits of its encoding> (distinct names -> distinct Python
    identifiers, none of them changed by Python's NFKC normalisation); it is recorded in refs."""
    prop = PROP
    target = "jinja2.idtracking:Symbols._define_ref"

    def __init__(self):
        VC.__init__(self, PROP, "C01.symbols._define_ref")

    def configure(self, I):
        from contracts.c01_parser import install_unicodedata
        install_unicodedata(I)

        enc = {}

        def str_encode2(I_, st, args, kwargs, node):
            v = fresh("encoded", "obj", tags={"encoded"})
            enc[str(v.t)] = to_term(args[0], "str")
            return [(st, v)]

        I.specs["str.encode"] = str_encode2

        def getattr_obj(I_, st, args, kwargs, node):
            o, name = args
            if name == "hex" and str(o.t) in enc:
                from pyvc.values import BoundMethod
                return [(st, BoundMethod(o, name))]
            return None

        def method_obj(I_, st, args, kwargs, node):
            o, name = args[0], args[1]
            if name == "hex" and str(o.t) in enc:
                return [(st, Sym(HEXENC(enc[str(o.t)]), "str"))]
            return None

        I.specs["getattr_obj"] = getattr_obj
        I.specs["method_obj"] = method_obj

    def setup(self, I, st):
        self.level = sym("level", "int")
        self.name_ = sym("name", "str")
        self.refs = A.adict(st, "refs", "str", "str")
        self.loads = A.adict(st, "loads", "str", "obj")
        self.obj = A.obj(st, IDT.Symbols, "symbols", fields={"level": self.level, "refs": self.refs, "loads": self.loads, "parent": None})
        return [self.obj, self.name_], {}

    def p_form(self, pre, out):
        if out.raised:
            return False
        from pyvc.models import py_str_int
        from contracts.c01_parser import NFKC
        plain = z3.Concat(z3.StringVal("l_"), py_str_int(self.level.t), z3.StringVal("_"), self.name_.t)
        spelled = z3.Concat(z3.StringVal("l_"), py_str_int(self.level.t), z3.StringVal("_0"), HEXENC(self.name_.t))
        want = z3.If(NFKC(self.name_.t) == self.name_.t, plain, spelled)
        h = out.st.get(self.refs)
        return z3.And(to_term(out.value, "str") == want, z3.Select(h.dom, self.name_.t), z3.Select(h.val, self.name_.t) == want)

    posts = [("l_level_name_or_hex_spelling", p_form)]

    def concretize(self, model, pre, out):
        return {"symbols": "_define_ref"}

    def replay(self, w):
        s = IDT.Symbols()
        a, b = s._define_ref("x"), IDT.Symbols(parent=s)._define_ref("\ufb01")
        ok = a == "l_0_x" and b.startswith("l_1_") and b.isidentifier() and b != "l_1_fi" and __import__("unicodedata").normalize("NFKC", b) == b
        return (not ok, f"Symbols._define_ref('x') -> {a}, _define_ref('\\ufb01') at level 1 -> {b}")


# ------------------------------------------------------------------------------------------------ W4

CPYTHON_MAX_BLOCKS = 20  # CO_MAXBLOCKS: "too many statically nested blocks"


def nested_template(construct, depth):
    if construct == "for":
        return "".join("{%% for x%d in y %%}" % i for i in range(depth)) + "x" + "{% endfor %}" * depth
    if construct == "if":
        return "{% if x %}" * depth + "x" + "{% endif %}" * depth
    if construct == "with":
        return "".join("{%% with a%d = 1 %%}" % i for i in range(depth)) + "x" + "{% endwith %}" * depth
    raise ValueError(construct)


def replay_nesting(w):
    construct, depth = w.get("construct", "for"), int(w.get("depth", 21))
    src = nested_template(construct, depth)
    try:
        jinja2.Environment().from_string(src)
    except TemplateSyntaxError:
        return (False, f"{depth} nested {construct}: TemplateSyntaxError")
    except BaseException as ex:  # noqa
        return (True, f"{depth} nested {{% {construct} %}} -> {type(ex).__name__}: {str(ex)[:100]}")
    return (False, f"{depth} nested {construct} compiles")


CPYTHON_MAX_INDENT = 100  # tokenizer MAXINDENT: "too many levels of indentation"


def _measured_nesting(construct, depth):
    """(loop blocks, indentation levels) around the innermost body in the REAL generated source of `depth` nested constructs"""
    src = nested_template(construct, depth)
    code = jinja2.Environment().compile(src, raw=True)
    tree = ast.parse(code)
    par = emit.parents(tree)
    best = None
    for n in ast.walk(tree):
        if isinstance(n, ast.Constant) and n.value == "x":
            k = ind = 0
            p = par.get(n)
            while p is not None:
                if isinstance(p, (ast.For, ast.AsyncFor, ast.While, ast.With, ast.AsyncWith, ast.Try)):
                    k += 1
                if isinstance(p, (ast.For, ast.AsyncFor, ast.While, ast.With, ast.AsyncWith, ast.Try, ast.If, ast.FunctionDef, ast.AsyncFunctionDef)):
                    ind += 1
                p = par.get(p)
            best = (k, ind) if best is None else max(best, (k, ind))
    return best


def w4_nesting(task, tier, seed):
    """Static nesting of the generated Python: measured on the real generated source of 1, 2 and 3 nested {% for %} /
    {% if %}, every template level adds k loop blocks resp. indentation levels around its body (constant increment),
    and neither Frame nor Parser has any nesting-depth state that could bound it; the obligations `<= 20` statically
    nested blocks and `<= 100` indentation levels therefore fail at the smallest depth beyond CPython's limits,
    which is confirmed by compiling that template."""
    rs = []
    has_depth_state = any("depth" in a or "nest" in a for a in list(vars(C.Frame(N.EvalContext(jinja2.Environment()))).keys()))
    for construct, limit, which in (("for", CPYTHON_MAX_BLOCKS, 0), ("if", CPYTHON_MAX_INDENT, 1)):
        nm = f"C01.emit.wellformed.W4.{construct}"
        m = [_measured_nesting(construct, d) for d in (1, 2, 3)]
        if any(x is None for x in m):
            rs.append(Res(nm, "unknown", "native", 0, "the body marker was not found in the generated source", "emission"))
            continue
        k = m[1][which] - m[0][which]
        if k <= 0 or m[2][which] - m[1][which] != k or has_depth_state:
            rs.append(Res(nm, "discharged" if k <= 0 else "unknown", "native", 0,
                          f"nesting of the generated code for depths 1,2,3: {[x[which] for x in m]}; depth state present={has_depth_state}", "emission"))
            continue
        base = m[0][which] - k
        d = (limit - base) // k + 1
        found = None
        for dd in range(max(1, d - 3), d + 3):
            if replay_nesting({"construct": construct, "depth": dd})[0]:
                found = dd
                break
        what = "statically nested loop block(s)" if which == 0 else "indentation level(s)"
        if found is None:
            rs.append(Res(nm, "unknown", "native", 0, f"each level adds {k} {what} but depths {d - 3}..{d + 2} compile", "emission"))
            continue
        wit = {"construct": construct, "depth": found, "per_level": k}
        rs.append(Res(nm, "refuted", "native", 0,
                      f"every {{% {construct} %}} level adds {k} {what} around its body and nothing bounds the depth: "
                      f"{found} nested {{% {construct} %}} exceed CPython's limit of {limit}", "emission", wit))
    return rs


CPYTHON_MAX_PARENS = 200  # tokenizer MAXLEVEL: "too many nested parentheses"


def _paren_depth(code):
    best = cur = 0
    for ch in code:
        if ch in "([{":
            cur += 1
            best = max(best, cur)
        elif ch in ")]}":
            cur -= 1
    return best


def w4_parentheses(task, tier, seed):
    """Expression chains (x()()..., not not ..., a+b+c..., x.a.a..., x|f|f...) are written as nested parenthesised Python
    expressions: measured on the real generated source of chains of length 10 / 20 / 30 the parenthesis depth grows by a
    constant per link and nothing bounds it; CPython's tokenizer accepts 200 levels."""
    nm = "C01.emit.wellformed.W4.parentheses"
    mk = RECURSION_CONSTRUCTS["call-chain"]
    env = jinja2.Environment()
    ds = [_paren_depth(env.compile(mk(d), raw=True)) for d in (10, 20, 30)]
    k10 = ds[1] - ds[0]
    if k10 <= 0 or ds[2] - ds[1] != k10:
        return [Res(nm, "discharged" if k10 <= 0 else "unknown", "native", 0, f"parenthesis depth of chains of length 10/20/30: {ds}", "emission")]
    per = k10 / 10.0
    d = int((CPYTHON_MAX_PARENS - (ds[0] - k10)) / per)
    found = None
    for dd in (d, d + 3, d + 10):
        src = mk(dd)
        try:
            env.from_string(src)
        except TemplateSyntaxError:
            continue
        except BaseException as ex:  # noqa
            found = (dd, f"{type(ex).__name__}: {str(ex)[:60]}")
            break
    if found is None:
        return [Res(nm, "unknown", "native", 0, f"each link adds {per} parenthesis level(s) but chains of length {d - 3}..{d + 3} load", "emission")]
    return [Res(nm, "refuted", "native", 0, f"every link of an expression chain adds {per} parenthesis level(s) to the generated expression and nothing bounds it: "
                f"{{{{ x{'()' * 3}... }}}} with {found[0]} calls -> {found[1]}", "emission", {"construct": "parentheses", "depth": found[0], "chain": "call-chain"})]


def replay_parentheses(w):
    d = int(w.get("depth", 199))
    src = RECURSION_CONSTRUCTS["call-chain"](d)
    try:
        jinja2.Environment().from_string(src)
    except TemplateSyntaxError:
        return (False, "TemplateSyntaxError")
    except BaseException as ex:  # noqa
        return (True, f"{{{{ x()()... }}}} with {d} calls -> {type(ex).__name__}: {str(ex)[:80]}")
    return (False, f"a chain of {d} calls loads")


def w4_key(res):
    w = res.witness or {}
    return f"static-nesting:{w.get('construct')}"


# ------------------------------------------------------------------------------------------------ W5

def const_table():
    big = 10 ** 5000
    vals = [0, 1, -1, 2 ** 63, -2 ** 70, True, False, None, "", "a'b\"c", "é\n\\", "\x00퟿", 0.0, -0.0, 1.5, 1e308, 5e-324, 1e22, 0.1,
            float("inf"), float("-inf"), float("nan"), (), (1,), (1, "a", None), ((1, 2), (3.5,)), [1, 2], {"a": 1}, big]
    return vals


def emit_const(val, env=None):
    """text the real CodeGenerator.visit_Const writes for Const(val)"""
    import io
    env = env or jinja2.Environment()
    gen = C.CodeGenerator(env, "t", None, io.StringIO())
    node = N.Const(val)
    node.set_environment(env)
    frame = C.Frame(N.EvalContext(env, "t"))
    gen._first_write = False
    gen._new_lines = 0
    gen.visit_Const(node, frame)
    return gen.stream.getvalue()


def same_const(a, b):
    if type(a) is not type(b):
        return False
    if isinstance(a, float):
        return (math.isnan(a) and math.isnan(b)) or (a == b and math.copysign(1, a) == math.copysign(1, b))
    if isinstance(a, (tuple, list)):
        return len(a) == len(b) and all(same_const(x, y) for x, y in zip(a, b))
    return a == b


def const_key(val):
    if isinstance(val, float) and not math.isfinite(val):
        return "non-finite-float"
    if isinstance(val, int) and not isinstance(val, bool) and abs(val) >= 10 ** 4300:
        return "int-digit-limit"
    return f"const:{val!r}"[:80]


def w5_roundtrip(task, tier, seed):
    rs = []
    for i, val in enumerate(const_table()):
        nm = f"C01.emit.wellformed.W5[{i}]"
        desc = repr(val) if not (isinstance(val, int) and abs(val) > 10 ** 30) else "<int with 5001 digits>"
        if not C.has_safe_repr(val) and not isinstance(val, (float, int)):
            # neither a literal the lexer can produce nor a value constant folding accepts: no Const node carries it
            rs.append(Res(nm, "bounded-ok", "native", 0, f"{desc}: rejected by has_safe_repr, not a literal", "bounded"))
            continue
        try:
            txt = emit_const(val)
            back = eval(compile(txt.strip(), "<const>", "eval"), {"__builtins__": {"float": float}}, {})
            ok = same_const(back, val)
            detail = f"visit_Const({desc}) wrote {txt.strip()[:60]!r}" + ("" if ok else f" which evaluates to {back!r:.60}")
        except BaseException as ex:  # noqa
            ok = False
            detail = f"visit_Const({desc}): {type(ex).__name__}: {str(ex)[:100]}"
        rs.append(Res(nm if ok else "C01.emit.wellformed.W5", "bounded-ok" if ok else "refuted", "native", 0, detail, "bounded",
                      None if ok else {"const_key": const_key(val), "repr": desc[:80], "index": i}))
    task.bound_text = f"{len(const_table())} constants: boundary ints, floats incl. non-finite, strings, bool, None, nested tuples, list, dict"
    return rs


def w5_key(res):
    return (res.witness or {}).get("const_key")


def replay_const(w):
    key = w.get("const_key")
    srcs = {"non-finite-float": ["{% set x = 1e999 %}{{ x + 1 }}", "{{ -1e999 }}", "{{ 1e999 - 1e999 }}"],
            "int-digit-limit": ["{{ (10 ** 5000) > 1 }}", "{% set x = 10 ** 5000 %}{{ x > 1 }}", "{{ 0x" + "f" * 4200 + " > 1 }}",
                                "{{ x < 0b" + "1" * 17200 + " }}"]}.get(key, [])
    idx = w.get("index")
    if not srcs and idx is not None:
        val = const_table()[idx]
        try:
            txt = emit_const(val)
            back = eval(compile(txt.strip(), "<const>", "eval"), {"__builtins__": {"float": float}}, {})
            return (not same_const(back, val), f"visit_Const wrote {txt.strip()[:60]!r} -> {back!r:.60}")
        except BaseException as ex:  # noqa
            return (True, f"{type(ex).__name__}: {ex}")
    env = jinja2.Environment()
    for src in srcs:
        try:
            out = env.from_string(src).render()
        except TemplateSyntaxError:
            continue
        except BaseException as ex:  # noqa
            return (True, f"{src} -> {type(ex).__name__}: {str(ex)[:100]}")
    return (False, f"{srcs} render")


# ------------------------------------------------------------------------------------------------ W6

LOOP_FRAME = z3.Bool("frame.loop_frame")


def w6_pred(word):
    def pred(sc, tree, ph, txt):
        if sc.outcome == "raise":
            cls = getattr(sc.value, "cls", None)
            return [] if (cls is not None and issubclass(cls, TemplateSyntaxError)) else [f"raises {sc.value!r}"]
        writes = any(isinstance(n, (ast.Break if word == "break" else ast.Continue)) for n in ast.walk(tree))
        if not writes:
            return []
        # `break` / `continue` may only be written when the visitor knows it is inside a loop body of the same function
        if sc.holds(LOOP_FRAME):
            return []
        return [f"`{word}` is written on a path that does not establish that the frame belongs to a loop body (frame.loop_frame unconstrained)"]
    return pred


def replay_loopcontrols(w=None):
    env = jinja2.Environment(extensions=["jinja2.ext.loopcontrols"])
    srcs = ["{% break %}", "{% continue %}", "{% for x in y %}{% else %}{% break %}{% endfor %}",
            "{% for x in y %}{% macro m() %}{% continue %}{% endmacro %}{% endfor %}", "{% if x %}{% break %}{% endif %}"]
    for src in srcs:
        try:
            env.from_string(src)
        except TemplateSyntaxError:
            continue
        except BaseException as ex:  # noqa
            return (True, f"{src} -> {type(ex).__name__}: {ex}")
    return (False, "loop controls outside a loop are rejected with TemplateSyntaxError")


def w6_key(res):
    return "loopcontrol-outside-loop"


def tasks():
    ts = all_visitor_tasks(PROP, "C01.emit.wellformed.W3", w3_pred, replay_fn=native_compile_family, buffers=(None,))
    for t in ts:
        t.finding_key = lambda res: "repr-inside-string-literal" if "pasted inside a string literal" in (res.detail or "") else "raw-template-data"
    ts.append(EmitTask(PROP, "C01.emit.wellformed.W3.signature", "jinja2.compiler:CodeGenerator.visit_Call", N.Call, signature_pred,
                       replay_fn=native_compile_family, min_paths=64, install_opts={"modular_signature": False}))
    ts.append(DefineRef())
    t4 = FnTask(PROP, "C01.emit.wellformed.W4", w4_nesting, "emission", replay_nesting)
    t4.finding_key = w4_key
    ts.append(t4)
    t5 = FnTask(PROP, "C01.emit.wellformed.W5", w5_roundtrip, "bounded", replay_const)
    t5.finding_key = w5_key
    ts.append(t5)
    for word, cls in (("break", N.Break), ("continue", N.Continue)):
        t = EmitTask(PROP, f"C01.emit.wellformed.W6.{word}", f"jinja2.compiler:CodeGenerator.visit_{cls.__name__}", cls, w6_pred(word),
                     mode="stmts", replay_fn=replay_loopcontrols)
        t.finding_key = w6_key
        ts.append(t)
    ts.append(LoopControlParse())
    ts += extra_kw_tasks()
    ts += extra_tasks()
    ts += hunt_tasks()
    return ts


class LoopControlParse(VC):
    """ext.LoopControlExtension.parse from its real source: a Break / Continue node may only be produced when the tag
    stack shows an enclosing {% for %} (otherwise a TemplateSyntaxError is due) - W6, parser side."""
    prop = PROP
    target = "jinja2.ext:LoopControlExtension.parse"
    timeout_quick = 90000

    def __init__(self):
        VC.__init__(self, PROP, "C01.emit.wellformed.W6.parse")
        self.world = None

    def configure(self, I):
        from contracts import c01_parser as CP
        CP.install(I, lambda: self.world)

    def setup(self, I, st):
        from contracts import c01_parser as CP
        import jinja2.ext as X
        self.world = CP.World(st)
        ext = A.obj(st, X.LoopControlExtension, "ext", fields={"environment": sym("environment", "obj")})
        return [ext, self.world.parser], {}

    def p_checks_loop(self, pre, out):
        if out.raised:
            e = out.value
            cls = e.cls if e.cls is not None else e.within
            return isinstance(cls, type) and issubclass(cls, TemplateSyntaxError)
        h = out.st.get(self.world.tag_stack)
        i = z3.Int("ti")
        return z3.Exists([i], z3.And(0 <= i, i < h.n, z3.Select(h.arr, i) == z3.StringVal("for")))

    posts = [("node_only_inside_for", p_checks_loop)]

    def concretize(self, model, pre, out):
        return {"tag_stack_len": 0}

    def replay(self, w):
        return replay_loopcontrols(w)

    def finding_key(self, res):
        return "loopcontrol-outside-loop"


# ------------------------------------------------------------------------------------------------ W2 (generator-added keywords)

def extra_kw_pred(sc, tree, ph, txt):
    """keyword names of one emitted call are distinct: a keyword written from template data must be known to differ from
    the keywords the generator adds itself (caller= of a call block, _loop_vars=, _block_vars=)"""
    if sc.outcome == "raise":
        return []
    fails = []
    for call in [n for n in ast.walk(tree) if isinstance(n, ast.Call)]:
        own = [k.arg for k in call.keywords if k.arg and k.arg not in ph]
        data = [k.arg for k in call.keywords if k.arg and k.arg in ph and isinstance(ph[k.arg], tuple) and ph[k.arg][0] == "ident"]
        for d in data:
            term = ph[d][1]
            for g in own:
                if not sc.holds(term != z3.StringVal(g)):
                    fails.append(f"the template keyword «{term}» may equal the generator's own keyword {g}= in the same call: {txt[:140]}")
    return fails[:2]


def replay_extra_kw(w=None):
    env = jinja2.Environment()
    srcs = ["{% call f(caller=1) %}x{% endcall %}", "{% for x in y %}{{ f(_loop_vars=1) }}{% endfor %}", "{% block b %}{{ f(_block_vars=1) }}{% endblock %}"]
    for src in srcs:
        try:
            env.from_string(src)
        except TemplateSyntaxError:
            continue
        except BaseException as ex:  # noqa
            return (True, f"{src} -> {type(ex).__name__}: {ex}")
    return (False, "keywords colliding with generator-added keywords are rejected with TemplateSyntaxError")


def extra_kw_tasks():
    ts = []
    for label, kw in (("call", None), ("call_block", {"forward_caller": True})):
        t = EmitTask(PROP, f"C01.emit.wellformed.W2.extra_kwargs.{label}", "jinja2.compiler:CodeGenerator.visit_Call", N.Call, extra_kw_pred,
                     replay_fn=replay_extra_kw, min_paths=64, install_opts={"modular_signature": False}, extra_kwargs=kw)
        t.finding_key = lambda res: "generator-keyword-collision"
        ts.append(t)
    return ts


# ------------------------------------------------------------------------------------------------ W5: has_safe_repr

class HasSafeRepr(VC):
    """compiler.has_safe_repr from its real source on a container with symbolic children (recursive calls through the
    contract `safe(child)`): the answer True implies that EVERY child - list / tuple items, dict keys AND dict values -
    is safe; only then is repr(container) made of safe reprs (Const.from_untrusted folds exactly the values it accepts)."""
    prop = PROP
    target = "jinja2.compiler:has_safe_repr"

    def __init__(self, shape):
        self.shape = shape
        VC.__init__(self, PROP, f"C01.emit.wellformed.W5.has_safe_repr[{shape}]")

    def configure(self, I):
        from contracts.c01_lexer import install_builtins
        install_builtins(I)
        self.safe = z3.Function("safe_repr", emit.Obj, z3.BoolSort())
        c = self

        def rec(I_, st, args, kwargs, node):
            return [(st, Sym(c.safe(to_term(args[0], "obj")), "bool"))]

        I.specs["jinja2.compiler:has_safe_repr"] = rec
        I.specs[("fn", id(C.has_safe_repr))] = rec

        def all_spec(I_, st, args, kwargs, node):
            items = I_.iter_concrete(st, args[0], node)
            ts = [z3.BoolVal(x) if isinstance(x, bool) else to_term(x, "bool") for x in items]
            return [(st, Sym(z3.And(*ts) if ts else z3.BoolVal(True), "bool"))]

        I.specs[("fn", id(all))] = all_spec

    def setup(self, I, st):
        from pyvc.values import HList
        self.children = [sym(f"child{i}", "obj") for i in range(4)]
        a, b, c, d = self.children
        if self.shape == "list":
            v = st.alloc(HList(items=[a, b]), initial=True)
            self.children = [a, b]
        elif self.shape == "tuple":
            v = (a, b)
            self.children = [a, b]
        else:
            v = st.alloc(HDict(items={a: b, c: d}), initial=True)
        return [v], {}

    def p_true_implies_children_safe(self, pre, out):
        if out.raised:
            return False
        r = out.value
        rt = z3.BoolVal(r) if isinstance(r, bool) else to_term(r, "bool")
        return z3.Implies(rt, z3.And(*[self.safe(ch.t) for ch in self.children]))

    posts = [("true_implies_every_child_safe", p_true_implies_children_safe)]

    def concretize(self, model, pre, out):
        bad = [i for i, ch in enumerate(self.children) if not z3.is_true(model.eval(self.safe(ch.t), model_completion=True))]
        return {"shape": self.shape, "unsafe_children": bad}

    def replay(self, w):
        return replay_safe_repr(w)

    def finding_key(self, res):
        w = res.witness or {}
        return f"has_safe_repr:{w.get('shape')}:{w.get('unsafe_children')}"


def unsafe_family():
    it = iter([1])
    gen = (x for x in [1])
    unsafe = ["a".upper, reversed([1, 2]), it, gen, object(), len, (lambda: 1), type, b"b".join]
    fam = []
    for u in unsafe:
        fam += [[u], (u,), [1, u], (1, (2, u)), {"k": u}, {"k": [u]}, {"a": 1, "b": {"c": u}}, [{"k": u}], ({"k": (u,)},), {1: (2, [u])}]
        try:
            fam += [{u: 1}, {u}, frozenset([u]), {(1, u): 2}]
        except TypeError:
            pass
    # set / frozenset are not in the must-accept family: their text depends on the hash seed, and since the C30 repair
    # (/repo 16d1781) has_safe_repr rejects them; if a version accepts them the repr must still evaluate back
    fam += [{1, 2}, frozenset(["a"]), [{1, 2}], {"k": frozenset([1])}]
    safe = [[1, "a"], (1, (2.5, None)), {"k": [1, 2]}, {1: {"a": (True,)}}, {"k": range(3)}, [..., NotImplemented], {"k": 1j}]
    return fam, safe


def has_safe_repr_table(task, tier, seed):
    """table: has_safe_repr(v) is True only for values whose repr() evaluates back to an equal value of the same type
    (containers with unsafe elements / keys / values must be rejected; a family of safe containers must be accepted)"""
    fam, safe = unsafe_family()
    rs = []
    bad = []
    ns = {"__builtins__": {"range": range, "set": set, "frozenset": frozenset, "Ellipsis": Ellipsis, "NotImplemented": NotImplemented}}
    for v in fam + safe:
        try:
            ok = C.has_safe_repr(v)
        except Exception as ex:
            bad.append((f"has_safe_repr raised {type(ex).__name__}", v))
            continue
        if not ok:
            continue
        try:
            back = eval(compile(repr(v), "<repr>", "eval"), ns, {})
            if type(back) is not type(v) or back != v:
                bad.append(("repr does not evaluate back to the value", v))
        except BaseException as ex:  # noqa
            bad.append((f"accepted, but repr() is not evaluable ({type(ex).__name__})", v))
    for v in safe:
        if not C.has_safe_repr(v):
            bad.append(("a container of safe literals is rejected", v))
    if bad:
        why, v = bad[0]
        kind = type(v).__name__
        rs.append(Res("C01.emit.wellformed.W5.has_safe_repr.table", "refuted", "table", 0,
                      f"has_safe_repr({repr(v)[:80]}): {why} ({len(bad)} of {len(fam) + len(safe)} cases)", "table",
                      {"shape": kind, "why": why, "repr": repr(v)[:100]}))
    else:
        rs.append(Res("C01.emit.wellformed.W5.has_safe_repr.table", "discharged", "table", 0, f"{len(fam)} unsafe and {len(safe)} safe containers", "table"))
    return rs


def replay_safe_repr(w=None):
    srcs = ["{{ f({'k': 'a'|attr('upper')}) }}", "{{ x == {'k': [1, 2]|reverse} }}", "{{ {'k': [1, 2, 3]|batch(2)}.k|list }}",
            "{{ f(['a'|attr('upper')]) }}", "{{ x == ('a'|attr('upper'), 1) }}", "{{ f({'a'|attr('upper'): 1}) }}",
            "{{ x|default({'m': 'abc'|attr('title')}) }}", "{{ {'outer': {'inner': [3, 1]|reverse}}['outer']['inner']|list }}"]
    for optimized in (True, False):
        env = jinja2.Environment(optimized=optimized)
        for src in srcs:
            try:
                env.from_string(src)
            except TemplateSyntaxError:
                continue
            except BaseException as ex:  # noqa
                return (True, f"{src} -> {type(ex).__name__}: {str(ex)[:100]}")
    return (False, "containers with repr-unsafe folded members are not folded: the template family loads")


# ------------------------------------------------------------------------------------------------ W3: keyword-argument names

def keyword_name_table(task, tier, seed):
    """table: {{ f(<name>=1) }} must compile for every identifier a `name` token can carry, in particular the names
    Python does not accept on the left of `=` in a call (keywords -> **{...} workaround)"""
    import keyword
    names = sorted(set(keyword.kwlist) | set(getattr(keyword, "softkwlist", [])) | {"__debug__", "__class__", "__import__", "_", "print", "len",
                                                                                   "self", "context", "environment", "missing", "é", "ﬁ"})
    rs = []
    for is_async in (False, True):
        env = jinja2.Environment(enable_async=is_async)
        for nm in names:
            for src in ("{{ f(%s=1) }}" % nm, "{%% call f(%s=1) %%}{%% endcall %%}" % nm):
                try:
                    env.from_string(src)
                except TemplateSyntaxError:
                    continue
                except BaseException as ex:  # noqa
                    rs.append(Res("C01.emit.wellformed.W3.keyword_names", "refuted", "table", 0, f"{src} (async={is_async}) -> {type(ex).__name__}: {str(ex)[:80]}",
                                  "table", {"name": nm, "source": src}))
                    break
    seen = set()
    out = []
    for r in rs:
        if r.witness["name"] not in seen:
            seen.add(r.witness["name"])
            out.append(r)
    out.append(Res("C01.emit.wellformed.W3.keyword_names.family", "discharged", "table", 0, f"{len(names)} names x 2 call forms x sync/async tried", "table"))
    return out


def replay_keyword_name(w):
    src = w.get("source", "{{ f(__debug__=1) }}")
    try:
        jinja2.Environment().from_string(src)
    except TemplateSyntaxError:
        return (False, f"{src} -> TemplateSyntaxError")
    except BaseException as ex:  # noqa
        return (True, f"{src} -> {type(ex).__name__}: {ex}")
    return (False, f"{src} compiles")


# ------------------------------------------------------------------------------------------------ recursion depth (A5 / F10)

RECURSION_CONSTRUCTS = {
    "parentheses": lambda d: "{{ " + "(" * d + "1" + ")" * d + " }}",
    "list-nesting": lambda d: "{{ " + "[" * d + "]" * d + " }}",
    "dict-nesting": lambda d: "{{ " + "{1:" * d + "1" + "}" * d + " }}",
    "not-chain": lambda d: "{{ " + "not " * d + "x }}",
    "unary-minus-chain": lambda d: "{{ " + "-" * d + "x }}",
    "binary-operator-chain": lambda d: "{{ " + "+".join(["x"] * (d + 1)) + " }}",
    "attribute-chain": lambda d: "{{ x" + ".a" * d + " }}",
    "filter-chain": lambda d: "{{ x" + "|e" * d + " }}",
    "call-chain": lambda d: "{{ x" + "()" * d + " }}",
    "conditional-chain": lambda d: "{{ " + "x if y else " * d + "z }}",
}


def _recursion_fails(construct, depth, full=False):
    """does generating the Python source (full=True: loading the template) raise something other than TemplateSyntaxError?
    Only Jinja's own stages run by default: CPython's parser needs many seconds for deeply nested expressions."""
    src = RECURSION_CONSTRUCTS[construct](depth)
    try:
        if full:
            jinja2.Environment().from_string(src)
        else:
            jinja2.Environment().compile(src, raw=True)
    except TemplateSyntaxError:
        return None
    except RecursionError:
        return "RecursionError"
    except BaseException as ex:  # noqa
        return type(ex).__name__
    return None


def _stack_depth():
    f, n = sys._getframe(), 0
    while f is not None:
        f, n = f.f_back, n + 1
    return n


def _quiet_unraisable(*a):
    pass


def _mute_stderr():
    """the interpreter itself reports exceptions it cannot raise (generator close during a RecursionError) on fd 2"""
    import os
    try:
        sys.stderr.flush()
        saved = os.dup(2)
        devnull = os.open(os.devnull, os.O_WRONLY)
        os.dup2(devnull, 2)
        os.close(devnull)
        return saved
    except OSError:
        return None


def _unmute_stderr(saved):
    import os
    if saved is not None:
        try:
            sys.stderr.flush()
        except Exception:
            pass
        os.dup2(saved, 2)
        os.close(saved)


def recursion_depth(task, tier, seed):
    """resource clause A5 (F10): for each nesting / chaining construct, nothing bounds the recursion of parser / optimizer /
    code generator or converts RecursionError.  The frames needed per level are measured with a reduced recursion limit
    (deep successful loads are slow, failing ones are fast), extrapolated to the default limit and the extrapolated depth
    (x1.5, doubled until it fails) is confirmed under the default limit."""
    rs = []
    old = sys.getrecursionlimit()
    budget = 260
    sys.unraisablehook = _quiet_unraisable  # generators closed during a RecursionError print "Exception ignored" noise
    stderr_fd = _mute_stderr()
    for construct in RECURSION_CONSTRUCTS:
        try:
            sys.setrecursionlimit(_stack_depth() + budget)
            lo, hi = 1, 200
            if not _recursion_fails(construct, hi):
                small = None
            else:
                while lo < hi:
                    m = (lo + hi) // 2
                    if _recursion_fails(construct, m):
                        hi = m
                    else:
                        lo = m + 1
                small = lo
        finally:
            sys.setrecursionlimit(old)
        if small is None:
            rs.append(Res(f"C01.bounded.recursion.{construct}", "bounded-ok", "native", 0, f"depth 200 loads with {budget} spare frames", "bounded"))
            continue
        est = int(small * max(1.0, (old - _stack_depth()) / float(budget))) + 1
        d = int(est * 1.5) + 5
        what = None
        for _ in range(5):
            what = _recursion_fails(construct, d)
            if what:
                break
            d *= 2
        if not what:
            rs.append(Res(f"C01.bounded.recursion.{construct}", "bounded-ok", "native", 0, f"fails at depth {small} with {budget} frames but depth {d} loads under the default limit", "bounded"))
            continue
        rs.append(Res("C01.bounded.recursion", "refuted", "native", 0,
                      f"{construct}: depth {d} -> {what} under the default recursion limit {old} (first failure estimated near depth {est}); e.g. {RECURSION_CONSTRUCTS[construct](3)}",
                      "bounded", {"construct": construct, "depth": d, "raises": what}))
    _unmute_stderr(stderr_fd)
    task.bound_text = f"{len(RECURSION_CONSTRUCTS)} constructs; frames per level measured with {budget} spare frames, confirmed at 1.5x the extrapolated depth"
    return rs


def replay_recursion(w):
    c, d = w.get("construct"), int(w.get("depth", 300))
    if c not in RECURSION_CONSTRUCTS:
        return (False, "unknown construct")
    for dd in (d, 2 * d, 4 * d):
        r = _recursion_fails(c, dd)
        if r:
            return (True, f"{c} of depth {dd} -> {r}")
    return (False, f"{c} of depth {d} loads")


def extra_tasks():
    ts = [HasSafeRepr(s) for s in ("list", "tuple", "dict")]
    t = FnTask(PROP, "C01.emit.wellformed.W5.has_safe_repr.table", has_safe_repr_table, "table", replay_safe_repr)
    t.finding_key = lambda res: f"has_safe_repr:{(res.witness or {}).get('shape')}:{(res.witness or {}).get('why')}"
    ts.append(t)
    t = FnTask(PROP, "C01.emit.wellformed.W3.keyword_names", keyword_name_table, "table", replay_keyword_name)
    t.finding_key = lambda res: f"kwarg-name:{(res.witness or {}).get('name')}"
    ts.append(t)
    t = FnTask(PROP, "C01.emit.wellformed.W4.parentheses", w4_parentheses, "emission", replay_parentheses)
    t.finding_key = w4_key
    ts.append(t)
    t = FnTask(PROP, "C01.bounded.recursion", recursion_depth, "bounded", replay_recursion)
    t.finding_key = lambda res: f"recursion:{(res.witness or {}).get('construct')}"
    ts.append(t)
    return ts


# ------------------------------------------------------------------------------------------------ W7: visit_Output (hunt C01_1)

def output_tasks():
    """the real visit_Output over a concrete child list of 0 / 1 / 2 abstract expressions (a bound on the number of children),
    symbolic frame.require_output_check / buffer / finalize: every path's text must parse as a Python statement list
    (an `if parent_template is None:` without a suite does not)"""
    from contracts.c08 import configure_output
    from pyvc.values import HList
    ts = []
    for n in (0, 1, 2):
        nf = (lambda st, n=n: {"nodes": st.alloc(HList(items=[emit.make_node(st, N.Expr, f"node.nodes[{i}]", kind="expr") for i in range(n)]), initial=True)})
        t = EmitTask(PROP, f"C01.emit.wellformed.W7.visit_Output[{n} children]", "jinja2.compiler:CodeGenerator.visit_Output", N.Output,
                     lambda sc, tree, ph, txt: [], mode="stmts", buffers=(None, "t_buf"), node_fields=nf, configure=configure_output,
                     gen_fields={"_finalize": None}, replay_fn=replay_empty_output, min_paths=2)
        t.finding_key = lambda res: "empty-output-under-extends-check"
        if n == 2:
            t.thorough_only = True
        ts.append(t)
    return ts


def replay_empty_output(w=None):
    srcs = ["{% print %}{% extends 'base' %}", "{% if x %}{% extends 'base' %}{% endif %}{% print %}", "{% print %}", "{% for x in y %}{% print %}{% endfor %}{% extends z %}"]
    for is_async in (False, True):
        env = jinja2.Environment(enable_async=is_async)
        for src in srcs:
            try:
                env.from_string(src)
            except TemplateSyntaxError:
                continue
            except BaseException as ex:  # noqa
                return (True, f"{src} -> {type(ex).__name__}: {str(ex)[:100]}")
    return (False, "an empty print statement loads in every position")


# ------------------------------------------------------------------------------------------------ NFKC-equivalent names (hunt C01_3/4/6)

FW = {"c": "ｃ", "d": "ｄ", "l": "ｌ", "b": "ｂ", "k": "ｋ", "v": "ｖ", "i": "ｉ"}

NFKC_FAMILY = {
    # class -> list of (environment factory name, source)
    "signature-keyword": [
        ("default", "{{ f(__%sebug__=1) }}" % FW["d"]), ("default", "{{ x is divisibleby(__%sebug__=1) }}" % FW["d"]),
        ("default", "{%% call f(%saller=1) %%}x{%% endcall %%}" % FW["c"]), ("default", "{%% for x in y %%}{{ f(_%soop_vars=1) }}{%% endfor %%}" % FW["l"]),
        ("default", "{%% block b %%}{{ f(_%slock_vars=1) }}{%% endblock %%}" % FW["b"]), ("default", "{{ f(%sf=1) }}" % FW["i"]),
        ("default", "{{ f(%slass=1, x=2) }}" % FW["c"]), ("default", "{{ f(é=1, café=2) }}"),
    ],
    "i18n-keyword": [
        ("i18n", "{% trans ﬁ=1, fi=2 %}{{ ﬁ }}{{ fi }}{% endtrans %}"), ("i18n", "{% trans %}{{ ﬁ }} and {{ fi }}{% endtrans %}"),
        ("i18n", "{% trans fi=a %}one {{ fi }}{% pluralize %}many {{ ﬁ }}{% endtrans %}"), ("i18n", "{% trans a=1, b=2 %}{{ a }}{{ b }}{% endtrans %}"),
    ],
    "macro-special-param": [
        ("default", "{%% macro m(%saller) %%}{{ caller() }}{%% endmacro %%}" % FW["c"]), ("default", "{%% macro m(%swargs) %%}{{ kwargs }}{%% endmacro %%}" % FW["k"]),
        ("default", "{%% macro m(a, %sarargs=1) %%}{{ varargs }}{%% endmacro %%}" % FW["v"]), ("default", "{%% call(%saller) f() %%}{{ caller }}{%% endcall %%}" % FW["c"]),
        ("default", "{% macro m(caller) %}{{ caller() }}{% endmacro %}"),
    ],
}


def _nfkc_env(kind):
    if kind == "i18n":
        env = jinja2.Environment(extensions=["jinja2.ext.i18n"])
        env.install_null_translations(newstyle=True)
        return env
    return jinja2.Environment()


def _nfkc_failures(cls):
    bad = []
    for kind, src in NFKC_FAMILY[cls]:
        try:
            _nfkc_env(kind).from_string(src)
        except TemplateSyntaxError:
            continue
        except BaseException as ex:  # noqa
            bad.append((src, f"{type(ex).__name__}: {str(ex)[:80]}"))
    return bad


def nfkc_names_table(task, tier, seed):
    """table: names that are different strings but equal as Python identifiers (NFKC), at the places where the generator
    writes a template name as a Python identifier next to its own names: keyword arguments (caller= / _loop_vars= /
    _block_vars=, the keyword test incl. __debug__), keywords built by the i18n extension, implicit macro parameters"""
    rs = []
    for cls in NFKC_FAMILY:
        bad = _nfkc_failures(cls)
        if bad:
            rs.append(Res("C01.emit.wellformed.W2.nfkc_names", "refuted", "table", 0, f"{cls}: {bad[0][0]} -> {bad[0][1]} ({len(bad)} of {len(NFKC_FAMILY[cls])} sources)",
                          "table", {"class": cls, "source": bad[0][0]}))
        else:
            rs.append(Res(f"C01.emit.wellformed.W2.nfkc_names.{cls}", "discharged", "table", 0, f"{len(NFKC_FAMILY[cls])} sources load or raise TemplateSyntaxError", "table"))
    return rs


def replay_nfkc(w):
    cls = w.get("class")
    if cls not in NFKC_FAMILY:
        return (False, "unknown class")
    bad = _nfkc_failures(cls)
    return (bool(bad), f"{bad[0][0]} -> {bad[0][1]}" if bad else f"the {cls} family loads")


# ------------------------------------------------------------------------------------------------ configurations (hunt C01_7)

DELIMITER_PARAMS = ("block_start_string", "block_end_string", "variable_start_string", "variable_end_string", "comment_start_string",
                    "comment_end_string", "line_statement_prefix", "line_comment_prefix")


def _load_with_limit(kwargs, src="hello {{ x }}\n", limit=8):
    import json
    import subprocess
    code = ("import sys, json, jinja2\n"
            "kw, src = json.loads(sys.stdin.read())\n"
            "try:\n"
            "    jinja2.Environment(**kw).from_string(src)\n"
            "    print('ok')\n"
            "except jinja2.TemplateSyntaxError:\n"
            "    print('TSE')\n"
            "except BaseException as ex:\n"
            "    print('EXC', type(ex).__name__, ex)\n")
    from contracts.c01_fuzz import run_cpu_limited
    status, out, err = run_cpu_limited([sys.executable, "-c", code], json.dumps([kwargs, src]), limit)
    if status in ("cpu-limit", "wall-cap"):
        return f"did not return within {limit} s of CPU time"
    out = (out or "").strip()
    if out.startswith("EXC") and "ValueError" not in out and "AssertionError" not in out:
        return out
    return None


def empty_delimiter_table(task, tier, seed):
    """regex fact per configuration the Environment constructor accepts: with an EMPTY delimiter / prefix string every
    rule that pushes a lexer state must still consume a character (else the tokeniter variant (len - pos, depth) need not
    decrease: C01.tokeniter.terminates assumes the four regular rule tables)"""
    from contracts import c01_lexer as CL
    import jinja2.lexer as L
    rs = []
    for param in DELIMITER_PARAMS:
        nm = f"C01.regex.empty_delimiter.{param}"
        try:
            env = jinja2.Environment(**{param: ""})
        except (ValueError, AssertionError) as ex:
            rs.append(Res(nm, "discharged", "table", 0, f"rejected when the Environment is built: {type(ex).__name__}", "regex"))
            continue
        try:
            lx = L.Lexer(env)
        except Exception as ex:  # noqa
            rs.append(Res(nm, "discharged", "table", 0, f"no lexer can be built: {type(ex).__name__}", "regex"))
            continue
        bad = []
        root = lx.rules["root"][0]
        tree = CL.sre_parse.parse(root.pattern.pattern, root.pattern.flags)
        widths = {}

        def groups(items):
            for op, av in items:
                nm_ = str(op)
                if nm_ == "SUBPATTERN":
                    if av[0] is not None:
                        widths[av[0]] = sum(CL._item_minwidth(o, a) for o, a in av[3])
                    groups(list(av[3]))
                elif nm_ == "BRANCH":
                    for alt in av[1]:
                        groups(list(alt))

        groups(list(tree))
        for gname, gidx in root.pattern.groupindex.items():
            if widths.get(gidx, 1) >= 1 or gname not in lx.rules:
                continue
            # a zero-width push: a hang needs a zero-width way back to root on which the parser never sees a token
            for i, rule in enumerate(lx.rules[gname]):
                toks = rule.tokens if isinstance(rule.tokens, tuple) else (rule.tokens,)
                silent = CL.wrap_visible(gname) is None and all(isinstance(t, str) and CL.wrap_visible(t) is None for t in toks)
                if rule.command == "#pop" and CL.facts(rule.pattern).minw == 0 and silent:
                    bad.append(f"the root rule pushes {gname!r} without consuming a character, {gname}[{i}] pops without consuming one, and no token of the cycle reaches the parser")
        if bad:
            rs.append(Res("C01.regex.empty_delimiter", "refuted", "table", 0, f"Environment({param}='') is accepted but {bad[0]}", "regex",
                          {"param": param}))
        else:
            rs.append(Res(nm, "discharged", "table", 0, "every pushing rule consumes a character", "regex"))
    return rs


def replay_empty_delimiter(w):
    param = w.get("param", "line_comment_prefix")
    r = _load_with_limit({param: ""})
    return (r is not None, f"Environment({param}='').from_string('hello {{{{ x }}}}') {r}" if r else f"Environment({param}='') loads templates or raises TemplateSyntaxError")


def hunt_tasks():
    ts = output_tasks()
    t = FnTask(PROP, "C01.emit.wellformed.W2.nfkc_names", nfkc_names_table, "table", replay_nfkc)
    t.finding_key = lambda res: f"nfkc:{(res.witness or {}).get('class')}"
    ts.append(t)
    t = FnTask(PROP, "C01.regex.empty_delimiter", empty_delimiter_table, "regex", replay_empty_delimiter)
    t.finding_key = lambda res: f"empty-delimiter:{(res.witness or {}).get('param')}"
    ts.append(t)
    return ts
