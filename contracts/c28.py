"""C28  Loaders never resolve a template name outside their search locations.

Functions under contract (real source of jinja2/loaders.py):
  split_template_path            for ALL template strings, both platform settings (sep, altsep) in
                                 {("/", None), ("\\", "/")}: loop invariant over the "/"-segments
  FileSystemLoader.get_source    the only file opened is posixpath.join(searchpath_i, *pieces) for the first
                                 search path that has it; TemplateNotFound iff none has it (loop invariant)
  PackageLoader.get_source       same for _template_root (directory and zip packages)
  ChoiceLoader.get_source/load   first loader that does not raise TemplateNotFound; only that class is caught
  PrefixLoader.get_loader/get_source/load
plus the lexical containment lemma (string VCs by induction on the number of pieces) about the dependency
spec of posixpath.join, and bounded stand-ins that compare the dependency specs (str.split, posixpath.join,
normpath) with the real library functions.

File-system model (assumption FS-STABLE): during ONE call of get_source the file system does not change:
os.path.isfile / os.path.getmtime are functions of the path, open() of a path for which isfile() held succeeds.
Symlinks and the file system itself are outside the statement's reach (DESIGN C28: lexical containment).
"""
from __future__ import annotations

import ast
import itertools
import os
import posixpath
import types

import z3

from pyvc.contract import VC, Res, FnTask, Outcome
from pyvc.values import (State, Sym, Ref, HObj, HList, HDict, HIter, SSeq, Obj, Exc, Closure, BoundMethod, Event,
                         fresh_name, fresh, sym)
from pyvc.smt import to_term, model_value, host_const, str2obj, check_sat
from pyvc.stmts import LoopSpec
from pyvc.interp import Raised
from pyvc import abstract as A

import jinja2
import jinja2.loaders as L
from jinja2.exceptions import TemplateNotFound, TemplatesNotFound

I_ = z3.IntSort()
S_ = z3.StringSort()
SArr = z3.ArraySort(I_, S_)

PLATFORMS = {"posix": ("/", None), "nt": ("\\", "/")}
PARDIR = ".."


def SV(s):
    return z3.StringVal(s)


# ----------------------------------------------------------------------------------------------
# helpers shared with contracts/c25.py
# ----------------------------------------------------------------------------------------------

def z3str(model, term):
    """python str of a z3 string term in a model (decodes \\u{..} escapes)."""
    v = model.eval(term, model_completion=True)
    try:
        s = v.as_string()
    except Exception:
        return ""
    import re
    s = re.sub(r"\\u\{([0-9a-fA-F]+)\}", lambda m: chr(int(m.group(1), 16)), s)
    s = re.sub(r"\\u([0-9a-fA-F]{4})", lambda m: chr(int(m.group(1), 16)), s)
    s = re.sub(r"\\x([0-9a-fA-F]{2})", lambda m: chr(int(m.group(1), 16)), s)
    return s


def platform_attr_hook(platform):
    """os.sep / os.path.sep / os.path.altsep / os.path.pardir as on the given platform."""
    sep, altsep = PLATFORMS[platform]

    def hook(I, st, obj, name, node):
        if obj is os and name in ("sep", "altsep", "pardir", "curdir"):
            return [(st, {"sep": sep, "altsep": altsep, "pardir": "..", "curdir": "."}[name])]
        if obj is os.path and name in ("sep", "altsep", "pardir", "curdir"):
            return [(st, {"sep": sep, "altsep": altsep, "pardir": "..", "curdir": "."}[name])]
        return None

    return hook


def install_star_hook(I):
    """f(a, *xs) with xs of symbolic length: the starred argument is passed on as ONE StarSeq value
    (only spec handlers that expect it can take such a call)."""
    orig = I.ev_list

    def ev_list(es, st, fr):
        if not any(isinstance(e, ast.Starred) for e in es):
            return orig(es, st, fr)
        results = [(st, [])]
        for e in es:
            nxt = []
            for s, acc in results:
                if isinstance(acc, Raised):
                    nxt.append((s, acc))
                    continue
                if isinstance(e, ast.Starred):
                    for s2, v in I.ev(e.value, s, fr):
                        if isinstance(v, Raised):
                            nxt.append((s2, v))
                        elif I.is_concrete_iterable(s2, v):
                            nxt.append((s2, acc + list(I.iter_concrete(s2, v, e))))
                        else:
                            nxt.append((s2, acc + [StarSeq(I.as_sseq(s2, v, e))]))
                    continue
                for s2, v in I.ev(e, s, fr):
                    nxt.append((s2, v if isinstance(v, Raised) else acc + [v]))
            results = nxt
        return results

    I.ev_list = ev_list


class StarSeq:
    def __init__(self, seq):
        self.seq = seq


def list_str_terms(st, ref):
    """(arr, n) of a list of strings, concrete or abstract."""
    h = st.get(ref) if isinstance(ref, Ref) else ref
    if isinstance(h, SSeq):
        return h.arr, h.n
    if h.concrete:
        arr = z3.K(I_, SV(""))
        for i, x in enumerate(h.items):
            arr = z3.Store(arr, i, to_term(x, "str"))
        return arr, z3.IntVal(len(h.items))
    return h.arr, h.n


def tnf_named(out, name_val):
    """the outcome is `raise TemplateNotFound(<name_val>, ...)` (exactly that class)"""
    if not out.raised or out.value.cls is not TemplateNotFound:
        return False
    a = out.value.args
    return len(a) >= 1 and a[0] is name_val


# ----------------------------------------------------------------------------------------------
# split_template_path
# ----------------------------------------------------------------------------------------------

py_join_slash = z3.Function("str.join['/']", SArr, I_, S_)  # "/".join(arr[:n])  (dependency: str.split inverse)


def seg_bad(x, platform):
    """the segment would leave the search location: parent reference or a platform separator"""
    sep, altsep = PLATFORMS[platform]
    d = [x == SV(PARDIR), z3.Contains(x, SV(sep))]
    if altsep:
        d.append(z3.Contains(x, SV(altsep)))
    return z3.Or(*d)


def seg_kept(x):
    return z3.And(x != SV(""), x != SV("."))


def piece_good(x, platform):
    sep, altsep = PLATFORMS[platform]
    c = [x != SV(""), x != SV("."), x != SV(PARDIR), z3.Not(z3.Contains(x, SV(sep))), z3.Not(z3.Contains(x, SV("/")))]
    if altsep:
        c.append(z3.Not(z3.Contains(x, SV(altsep))))
    return z3.And(*c)


class Split(VC):
    """split_template_path(template), all strings.

    dependency spec str.split("/"): a sequence S[0..N) with N >= 1, no element contains "/", and
    "/".join(S) == template.  Contract (from the statement):
      raise TemplateNotFound(template)  iff  some segment is ".." or contains a platform separator;
      normal return: a fresh list holding exactly the segments that are neither "" nor ".", in order
      (element #cnt(j) is segment j, cnt(j) = number of kept segments before j), so every piece is
      non-empty, != ".", != "..", and contains no separator.
    """
    prop = "C28"
    target = "jinja2.loaders:split_template_path"
    timeout_quick = 20000

    def __init__(self, platform):
        self.platform = platform
        super().__init__("C28", f"C28.split[{platform}]")

    def configure(self, I):
        I.attr_hook = platform_attr_hook(self.platform)
        c = self

        def split(I_, st, args, kwargs, node):
            recv, sepv = args[0], args[1]
            if recv is not c.template or sepv != "/" or len(args) != 2:
                from pyvc.values import Unsupported
                raise Unsupported("str.split outside the dependency spec of C28.split", node)
            return [(st, st.alloc(HList(arr=c.S, n=c.N, k="str")))]

        I.specs["str.split"] = split

        def inv(ctx):
            st, k = ctx.st, ctx.k
            P, m = list_str_terms(st, ctx.local("pieces"))
            return c.inv_terms(P, m, k)

        def heap(st, local):
            h = st.get(local["pieces"])
            h.items = None
            h.arr = z3.Const(fresh_name("pieces_arr"), SArr)
            h.n = z3.Int(fresh_name("pieces_n"))
            h.k = "str"

        I.loops[("split_template_path", 0)] = LoopSpec(inv, havoc={}, heap=heap, name="segments_loop")

    def inv_terms(self, P, m, k):
        S, cnt, pf = self.S, self.cnt, self.platform
        j = z3.Int(fresh_name("j"))
        i = z3.Int(fresh_name("i"))
        return [
            z3.ForAll([j], z3.Implies(z3.And(0 <= j, j < k), z3.Not(seg_bad(z3.Select(S, j), pf)))),
            z3.And(m >= 0, m == cnt(k)),
            z3.ForAll([j], z3.Implies(z3.And(0 <= j, j < k, seg_kept(z3.Select(S, j))),
                                      z3.And(0 <= cnt(j), cnt(j) < m, z3.Select(P, cnt(j)) == z3.Select(S, j)))),
            z3.ForAll([i], z3.Implies(z3.And(0 <= i, i < m), piece_good(z3.Select(P, i), pf))),
        ]

    def setup(self, I, st):
        self.template = sym("template", "str")
        self.S = z3.Const("segments", SArr)
        self.N = z3.Int("n_segments")
        self.cnt = z3.Function("kept_before", I_, I_)
        j = z3.Int("sj")
        st.assume(self.N >= 1,
                  z3.ForAll([j], z3.Implies(z3.And(0 <= j, j < self.N), z3.Not(z3.Contains(z3.Select(self.S, j), SV("/"))))),
                  self.template.t == py_join_slash(self.S, self.N))
        # definition of the ghost counter (conservative: primitive recursion on j)
        st.assume(self.cnt(0) == 0,
                  z3.ForAll([j], z3.Implies(z3.And(0 <= j, j < self.N),
                                            self.cnt(j + 1) == self.cnt(j) + z3.If(seg_kept(z3.Select(self.S, j)), 1, 0))))
        return [self.template], {}

    # ---- postconditions ---------------------------------------------------------------------
    def p_raises_iff(self, pre, out):
        j = z3.Int(fresh_name("j"))
        some_bad = z3.Exists([j], z3.And(0 <= j, j < self.N, seg_bad(z3.Select(self.S, j), self.platform)))
        if out.raised:
            if not tnf_named(out, self.template):
                return False
            return some_bad
        return z3.Not(some_bad)

    def p_pieces(self, pre, out):
        if out.raised:
            return None
        v = out.value
        if not (isinstance(v, Ref) and isinstance(out.st.get(v), HList) and v.id in out.st.allocated and out.st.get(v).tag == "list"):
            return False
        P, m = list_str_terms(out.st, v)
        return z3.And(*self.inv_terms(P, m, self.N)[1:])

    def p_pure(self, pre, out):
        """no file-system access, no other call"""
        return not [e for e in out.st.trace if e.kind == "call"]

    posts = [("raises_iff_unsafe_segment", p_raises_iff), ("pieces_are_the_kept_segments", p_pieces), ("no_side_effect", p_pure)]

    def concretize(self, model, pre, out):
        n = max(1, min(8, model_value(model, self.N)))
        segs = [z3str(model, z3.Select(self.S, i)) for i in range(n)]
        return {"platform": self.platform, "template": "/".join(segs)}

    def replay(self, w):
        return replay_split(w)


def split_oracle(template, platform):
    """the statement, executable: -> list of pieces or TemplateNotFound"""
    sep, altsep = PLATFORMS[platform]
    segs = template.split("/")
    for s in segs:
        if s == ".." or sep in s or (altsep and altsep in s):
            return TemplateNotFound
    return [s for s in segs if s and s != "."]


class patched_platform:
    """run real code under the os.sep / os.path.altsep of the given platform"""

    def __init__(self, platform):
        self.platform = platform

    def __enter__(self):
        sep, altsep = PLATFORMS[self.platform]
        self.saved = (os.sep, os.path.sep, os.path.altsep)
        os.sep = sep
        os.path.sep = sep
        os.path.altsep = altsep

    def __exit__(self, *a):
        os.sep, os.path.sep, os.path.altsep = self.saved


def replay_split(w):
    template, platform = w["template"], w.get("platform", "posix")
    want = split_oracle(template, platform)
    with patched_platform(platform):
        try:
            got = L.split_template_path(template)
        except TemplateNotFound as ex:
            got = TemplateNotFound if (type(ex) is TemplateNotFound and ex.name == template) else ("raised", repr(ex))
        except Exception as ex:  # noqa
            got = ("raised", repr(ex))
    return (got != want, f"split_template_path({template!r}) on {platform}: real={got!r} spec={want!r}")


TASKS = [Split("posix"), Split("nt")]

META = {
    "level": "proof",
    "explanation": "",
    "assumptions": [],
    "trusted_base": [],
}
