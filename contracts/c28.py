"""C28  Loaders never resolve a template name outside their search locations.

Functions under contract (real source of jinja2/loaders.py):
  split_template_path            for ALL template strings, both platform settings (sep, altsep) in
                                 {("/", None), ("\\", "/")}: loop invariant over the "/"-segments
  FileSystemLoader.get_source    the only file opened is posixpath.join(searchpath_i, *pieces) for the first
                                 search path that has it; TemplateNotFound iff none has it (loop invariant)
  PackageLoader.get_source       same for _template_root (directory and zip packages)
  ChoiceLoader.get_source/load   first loader that does not raise TemplateNotFound; only that class is caught
  PrefixLoader.get_loader/get_source/load
plus the lexical containment lemma (string VCs by induction on the number of pieces) about the dependency
spec of posixpath.join, and bounded stand-ins that compare the dependency specs (str.split, posixpath.join,
normpath) with the real library functions and run the real loaders on a sandbox directory tree.

File-system model (assumption FS-STABLE): during ONE call of get_source the file system does not change:
os.path.isfile / os.path.getmtime are functions of the path, open() of a path for which isfile() held succeeds.
Symlinks and the file system itself are outside the statement's reach (DESIGN C28: lexical containment).
"""
from __future__ import annotations

import ast
import itertools
import ntpath
import os
import posixpath
import time

import z3

from pyvc.contract import VC, Res, FnTask
from pyvc.values import (State, Sym, Ref, HObj, HList, HDict, HIter, SSeq, Obj, Exc, Closure, BoundMethod, Event,
                         Unsupported, fresh_name, fresh, sym)
from pyvc.smt import to_term, model_value, host_const, str2obj, check_sat, cvc5_check
from pyvc.stmts import LoopSpec
from pyvc.interp import Raised
from pyvc import abstract as A

import jinja2
import jinja2.loaders as L
from jinja2.exceptions import TemplateNotFound, TemplatesNotFound

I_ = z3.IntSort()
S_ = z3.StringSort()
B_ = z3.BoolSort()
SArr = z3.ArraySort(I_, S_)
OArr = z3.ArraySort(I_, Obj)

PLATFORMS = {"posix": ("/", None), "nt": ("\\", "/")}
PATHMOD = {"posix": posixpath, "nt": ntpath}
PARDIR = ".."


def SV(s):
    return z3.StringVal(s)


class OtherError(Exception):
    """some exception that is not a TemplateNotFound (abstract callees raise it)"""


# ----------------------------------------------------------------------------------------------
# helpers shared with contracts/c25.py
# ----------------------------------------------------------------------------------------------

SIDE = "side-obligation"


class LVC(VC):
    """VC whose side obligations (loop invariants) also get a witness from the counter-model."""

    def discharge(self, name, pc, cond, timeout, seed, pre, out):
        return super().discharge(name, pc, cond, timeout, seed, SIDE if pre is None else pre, out)


def z3str(model, term):
    """python str of a z3 string term in a model (decodes \\u{..} escapes)."""
    v = model.eval(term, model_completion=True)
    try:
        s = v.as_string()
    except Exception:
        return ""
    import re
    s = re.sub(r"\\u\{([0-9a-fA-F]+)\}", lambda m: chr(int(m.group(1), 16)), s)
    s = re.sub(r"\\u([0-9a-fA-F]{4})", lambda m: chr(int(m.group(1), 16)), s)
    s = re.sub(r"\\x([0-9a-fA-F]{2})", lambda m: chr(int(m.group(1), 16)), s)
    return s


def platform_attr_hook(platform):
    """os.sep / os.path (-> ntpath on "nt") / os.path.altsep / os.path.pardir as on the given platform."""
    sep, altsep = PLATFORMS[platform]
    consts = {"sep": sep, "altsep": altsep, "pardir": "..", "curdir": "."}

    def hook(I, st, obj, name, node):
        if obj is os and name in consts:
            return [(st, consts[name])]
        if obj is os and name == "path":
            return [(st, PATHMOD[platform])]
        return None

    return hook


def install_star_hook(I):
    """f(a, *xs) with xs of symbolic length: the starred argument is passed on as ONE StarSeq value
    (only spec handlers that expect it can take such a call)."""
    orig = I.ev_list

    def ev_list(es, st, fr):
        if not any(isinstance(e, ast.Starred) for e in es):
            return orig(es, st, fr)
        results = [(st, [])]
        for e in es:
            nxt = []
            for s, acc in results:
                if isinstance(acc, Raised):
                    nxt.append((s, acc))
                    continue
                if isinstance(e, ast.Starred):
                    for s2, v in I.ev(e.value, s, fr):
                        if isinstance(v, Raised):
                            nxt.append((s2, v))
                        elif I.is_concrete_iterable(s2, v):
                            nxt.append((s2, acc + list(I.iter_concrete(s2, v, e))))
                        else:
                            nxt.append((s2, acc + [StarSeq(I.as_sseq(s2, v, e))]))
                    continue
                for s2, v in I.ev(e, s, fr):
                    nxt.append((s2, v if isinstance(v, Raised) else acc + [v]))
            results = nxt
        return results

    I.ev_list = ev_list


class StarSeq:
    def __init__(self, seq):
        self.seq = seq


def list_str_terms(st, ref):
    """(arr, n) of a list of strings, concrete or abstract."""
    h = st.get(ref) if isinstance(ref, Ref) else ref
    if isinstance(h, SSeq):
        return h.arr, h.n
    if h.concrete:
        arr = z3.K(I_, SV(""))
        for i, x in enumerate(h.items):
            arr = z3.Store(arr, i, to_term(x, "str"))
        return arr, z3.IntVal(len(h.items))
    return h.arr, h.n


def loop_assigned(target, ordinal=0, kind="str"):
    """havoc set of loop #ordinal of a real function, read off its AST (so that renaming a local is harmless)"""
    from pyvc import extract
    node, _ = extract.function_ast(extract.resolve(target))
    loops = [n for n in ast.walk(node) if isinstance(n, (ast.For, ast.While, ast.AsyncFor))]
    loop = loops[ordinal]
    names = {x.id for x in ast.walk(loop) if isinstance(x, ast.Name) and isinstance(x.ctx, ast.Store)}
    if hasattr(loop, "target"):
        names -= {x.id for x in ast.walk(loop.target) if isinstance(x, ast.Name)}
    return {n: kind for n in sorted(names)}


def list_locals(st, frame_locals):
    """the locals of a frame that are bound to a list"""
    return [v for v in frame_locals.values() if isinstance(v, Ref) and isinstance(st.get(v), HList) and st.get(v).tag == "list"]


def tnf_named(out, name_val, own=True):
    """the outcome is `raise TemplateNotFound(<name_val>, ...)` (exactly that class), raised by the
    function under contract itself (not an exception of an abstract callee passing through)"""
    if not out.raised or out.value.cls is not TemplateNotFound:
        return False
    if own and getattr(out.value, "from_call", None):
        return False
    a = out.value.args
    return len(a) >= 1 and a[0] is name_val


def install_unexpected(I):
    """calls of anything without a spec are recorded as `unexpected:<name>` events (a postcondition
    rejects them) instead of making the obligation undecided"""

    def unknown(I_, st, fn, args, kwargs, node):
        simple = getattr(fn, "__name__", "") or ""
        if (getattr(fn, "__module__", "") or "").startswith("jinja2") and simple.startswith("_") and not simple.startswith("__") \
                and getattr(I_, "auto_inline_private", False):
            return None  # a private helper of the code under contract: the engine executes its real body
        nm = getattr(fn, "__qualname__", None) or getattr(fn, "__name__", None) or repr(fn)
        if isinstance(fn, BoundMethod):
            nm = f"{fn.recv!r}.{fn.name}"
        mod = getattr(fn, "__module__", "") or ""
        st.trace.append(Event("call", f"unexpected:{mod}.{nm}", args, kwargs, None, lineno=getattr(node, "lineno", None)))
        return [(st, fresh("unexpected", "obj"))]

    I.on_unknown_call = unknown


def unexpected(out):
    return [e for e in out.st.trace if e.kind == "call" and e.name.startswith("unexpected:")]


def install_opaque(I, methods=None, attrs=None):
    """opaque (`obj`-kind) values: `methods` name -> handler(I, st, recv, args, kwargs, node);
    `attrs` name -> handler(I, st, recv, node) -> results"""
    methods = methods or {}
    attrs = attrs or {}

    def getattr_obj(I_, st, args, kwargs, node):
        o, name = args
        if name in methods:
            return [(st, BoundMethod(o, name))]
        if name in attrs:
            return attrs[name](I_, st, o, node)
        return None

    def method_obj(I_, st, args, kwargs, node):
        recv, name = args[0], args[1]
        if name in methods:
            return methods[name](I_, st, recv, list(args[2:]), kwargs, node)
        return None

    I.specs["getattr_obj"] = getattr_obj
    I.specs["method_obj"] = method_obj


# ---- abstract loaders (callees of the choice / prefix loaders and of the environment) -------------
OUT_RETURN, OUT_TNF, OUT_TNFS, OUT_OTHER, OUT_UNDEF = 0, 1, 2, 3, 4
OUT_NOSOURCE = 5   # the member has has_source_access == False: BaseLoader.get_source raises RuntimeError
OUT_CLASSES = {OUT_TNF: TemplateNotFound, OUT_TNFS: TemplatesNotFound, OUT_OTHER: OtherError, OUT_UNDEF: jinja2.exceptions.UndefinedError}


def callee_model(fname):
    """outcome / result of `<obj>.<fname>(...)` as functions of the receiver and the name argument:
    the callee is deterministic during one call of the function under contract."""
    oc = z3.Function(f"outcome:{fname}", Obj, Obj, I_)
    res = z3.Function(f"result:{fname}", Obj, Obj, Obj)
    return oc, res


def name_atom(v):
    """template names as abstract atoms (Obj): only equality matters"""
    return to_term(v, "obj")


def abstract_loader_method(fname, oc, res, outcomes=(OUT_RETURN, OUT_TNF, OUT_TNFS, OUT_OTHER), name_index=1):
    """handler(I, st, recv, args, kwargs, node) of an abstract `get_source` / `load` / `_load_template`"""

    def handler(I, st, recv, args, kwargs, node):
        out = []
        r_t = to_term(recv, "obj")
        n_t = name_atom(args[name_index])
        for v in outcomes:
            s = st.fork()
            s.assume(oc(r_t, n_t) == v)
            if v == OUT_RETURN:
                val = Sym(res(r_t, n_t), "obj")
                A.call_event(s, fname, [recv] + list(args), kwargs, val, node)
                out.append((s, val))
            else:
                e = Exc(OUT_CLASSES[v], (), tag=f"{fname}#{len(s.trace)}", origin=getattr(node, "lineno", None))
                e.from_call = fname
                A.call_event(s, fname, [recv] + list(args), kwargs, e, node)
                out.append((s, Raised(e)))
        return out

    return handler


def is_tnf_family(oc_term):
    return z3.Or(oc_term == OUT_TNF, oc_term == OUT_TNFS)


class FakeLoader(jinja2.BaseLoader):
    """native replay: a loader with a prescribed outcome"""

    def __init__(self, ident, outcome):
        self.ident, self.outcome, self.calls = ident, outcome, []
        if outcome == OUT_NOSOURCE:
            self.has_source_access = False   # like ModuleLoader

    def _do(self, what, name, *rest):
        self.calls.append((what, name) + rest)
        if self.outcome == OUT_NOSOURCE and what == "get_source":
            return jinja2.BaseLoader.get_source(self, rest[0], name)   # RuntimeError: cannot provide access to the source
        if self.outcome == OUT_RETURN:
            return ("result", self.ident, what, name)
        if self.outcome == OUT_TNF:
            raise TemplateNotFound("inner:" + str(name))
        if self.outcome == OUT_TNFS:
            raise TemplatesNotFound(["inner:" + str(name)])
        raise OtherError(self.ident)

    def get_source(self, environment, template):
        return self._do("get_source", template, environment)

    def load(self, environment, name, globals=None):
        return self._do("load", name, environment, globals)


def run_native(f):
    try:
        return ("ok", f())
    except Exception as ex:  # noqa
        return ("raise", type(ex).__name__, getattr(ex, "name", None) if isinstance(ex, TemplateNotFound) else str(ex))


# ----------------------------------------------------------------------------------------------
# split_template_path
# ----------------------------------------------------------------------------------------------

py_join_slash = z3.Function("str.join['/']", SArr, I_, S_)  # "/".join(arr[:n])  (dependency: str.split inverse)


def seg_bad(x, platform):
    """the segment would leave the search location: parent reference or a platform separator"""
    sep, altsep = PLATFORMS[platform]
    d = [x == SV(PARDIR), z3.Contains(x, SV(sep))]
    if altsep:
        d.append(z3.Contains(x, SV(altsep)))
    return z3.Or(*d)


def seg_kept(x):
    return z3.And(x != SV(""), x != SV("."))


def piece_good(x, platform):
    sep, altsep = PLATFORMS[platform]
    c = [x != SV(""), x != SV("."), x != SV(PARDIR), z3.Not(z3.Contains(x, SV(sep))), z3.Not(z3.Contains(x, SV("/")))]
    if altsep:
        c.append(z3.Not(z3.Contains(x, SV(altsep))))
    return z3.And(*c)


class Split(LVC):
    """split_template_path(template), all strings.

    dependency spec str.split("/"): a sequence S[0..N) with N >= 1, no element contains "/", and
    "/".join(S) == template.  Contract (from the statement):
      raise TemplateNotFound(template)  iff  some segment is ".." or contains a platform separator;
      normal return: a fresh list holding exactly the segments that are neither "" nor ".", in order
      (element #cnt(j) is segment j, cnt(j) = number of kept segments before j), so every piece is
      non-empty, != ".", != "..", and contains no separator.
    """
    prop = "C28"
    target = "jinja2.loaders:split_template_path"
    timeout_quick = 20000

    def __init__(self, platform):
        self.platform = platform
        super().__init__("C28", f"C28.split[{platform}]")

    def configure(self, I):
        I.attr_hook = platform_attr_hook(self.platform)
        install_unexpected(I)
        c = self

        def split(I_, st, args, kwargs, node):
            recv, sepv = args[0], args[1] if len(args) > 1 else None
            if recv is not c.template or sepv != "/" or len(args) != 2 or kwargs:
                st.trace.append(Event("call", "unexpected:str.split", args, kwargs, None, lineno=getattr(node, "lineno", None)))
                return [(st, st.alloc(HList(arr=z3.Const(fresh_name("xs"), SArr), n=z3.Int(fresh_name("xn")), k="str")))]
            return [(st, st.alloc(HList(arr=c.S, n=c.N, k="str")))]

        I.specs["str.split"] = split

        # pure string functions from the library are ARBITRARY functions str -> str here: whatever they do to a piece,
        # the contract is about the pieces that are RETURNED (validation before a transformation proves nothing)
        import unicodedata

        def normalize(I_, st, args, kwargs, node):
            if len(args) != 2 or kwargs:
                return None
            f = z3.Function("unicodedata.normalize", S_, S_, S_)
            return [(st, Sym(f(to_term(args[0], "str"), to_term(args[1], "str")), "str"))]

        I.specs[("fn", id(unicodedata.normalize))] = normalize
        flag_unexpected = I.on_unknown_call

        def unknown(I_, st, fn, args, kwargs, node):
            rs = flag_unexpected(I_, st, fn, args, kwargs, node)   # recorded: the no_side_effect clause rejects it
            if any(isinstance(a, Sym) and a.k == "str" for a in args) or (isinstance(fn, BoundMethod) and isinstance(fn.recv, Sym) and fn.recv.k == "str"):
                return [(s, fresh("unknown_str_fn", "str")) for s, _ in rs]
            return rs

        I.on_unknown_call = unknown

        def inv(ctx):
            st, k = ctx.st, ctx.k
            (pieces,) = list_locals(st, st.frames[ctx.fr.fid])  # the one list built by the function
            P, m = list_str_terms(st, pieces)
            return c.inv_terms(P, m, k)

        def heap(st, local):
            (pieces,) = list_locals(st, local)
            h = st.get(pieces)
            h.items = None
            h.arr = z3.Const(fresh_name("pieces_arr"), SArr)
            h.n = z3.Int(fresh_name("pieces_n"))
            h.k = "str"

        I.loops[("split_template_path", 0)] = LoopSpec(inv, havoc=loop_assigned(self.target), heap=heap, name="segments_loop")

    def inv_terms(self, P, m, k):
        S, cnt, pf = self.S, self.cnt, self.platform
        j = z3.Int(fresh_name("j"))
        i = z3.Int(fresh_name("i"))
        return [
            z3.ForAll([j], z3.Implies(z3.And(0 <= j, j < k), z3.Not(seg_bad(z3.Select(S, j), pf)))),
            z3.And(m >= 0, m == cnt(k)),
            z3.ForAll([j], z3.Implies(z3.And(0 <= j, j < k, seg_kept(z3.Select(S, j))),
                                      z3.And(0 <= cnt(j), cnt(j) < m, z3.Select(P, cnt(j)) == z3.Select(S, j)))),
            z3.ForAll([i], z3.Implies(z3.And(0 <= i, i < m), piece_good(z3.Select(P, i), pf))),
        ]

    def setup(self, I, st):
        self.template = sym("template", "str")
        self.S = z3.Const("segments", SArr)
        self.N = z3.Int("n_segments")
        self.cnt = z3.Function("kept_before", I_, I_)
        j = z3.Int("sj")
        st.assume(self.N >= 1,
                  z3.ForAll([j], z3.Implies(z3.And(0 <= j, j < self.N), z3.Not(z3.Contains(z3.Select(self.S, j), SV("/"))))),
                  self.template.t == py_join_slash(self.S, self.N))
        # definition of the ghost counter (conservative: primitive recursion on j)
        st.assume(self.cnt(0) == 0,
                  z3.ForAll([j], z3.Implies(z3.And(0 <= j, j < self.N),
                                            self.cnt(j + 1) == self.cnt(j) + z3.If(seg_kept(z3.Select(self.S, j)), 1, 0))))
        return [self.template], {}

    # ---- postconditions ---------------------------------------------------------------------
    def p_raises_iff(self, pre, out):
        j = z3.Int(fresh_name("j"))
        some_bad = z3.Exists([j], z3.And(0 <= j, j < self.N, seg_bad(z3.Select(self.S, j), self.platform)))
        if out.raised:
            if not tnf_named(out, self.template):
                return False
            return some_bad
        return z3.Not(some_bad)

    def p_pieces(self, pre, out):
        if out.raised:
            return None
        v = out.value
        if not (isinstance(v, Ref) and isinstance(out.st.get(v), HList) and v.id in out.st.allocated and out.st.get(v).tag == "list"):
            return False
        P, m = list_str_terms(out.st, v)
        return z3.And(*self.inv_terms(P, m, self.N)[1:])

    def p_pure(self, pre, out):
        """no file-system access, no other call"""
        return not [e for e in out.st.trace if e.kind == "call"]

    posts = [("raises_iff_unsafe_segment", p_raises_iff), ("pieces_are_the_kept_segments", p_pieces), ("no_side_effect", p_pure)]

    def concretize(self, model, pre, out):
        n = max(1, min(8, model_value(model, self.N)))
        segs = [z3str(model, z3.Select(self.S, i)) for i in range(n)]
        return {"platform": self.platform, "template": "/".join(segs)}

    def replay(self, w):
        return replay_split(w)


def split_oracle(template, platform):
    """the statement, executable: -> list of pieces or TemplateNotFound"""
    sep, altsep = PLATFORMS[platform]
    segs = template.split("/")
    for s in segs:
        if s == ".." or sep in s or (altsep and altsep in s):
            return TemplateNotFound
    return [s for s in segs if s and s != "."]


class patched_platform:
    """run real code under the os.sep / os.path of the given platform"""

    def __init__(self, platform):
        self.platform = platform

    def __enter__(self):
        sep, altsep = PLATFORMS[self.platform]
        self.saved = (os.sep, os.altsep, os.path)
        os.sep, os.altsep, os.path = sep, altsep, PATHMOD[self.platform]
        return self

    def __exit__(self, *a):
        os.sep, os.altsep, os.path = self.saved


# NFKC / case-folding look-alikes of "." and "/": fullwidth full stop, one dot leader, small full stop, fullwidth solidus
LOOKALIKES = ["\uff0e\uff0e", "\u2024\u2024", "\ufe52\ufe52", ".\uff0e", "\uff0fa", "\uff3ca"]
SPLIT_FRAGMENTS = ["..", ".", "", "a", "b.html", "\\", "a\\..", "..\\a", "C:", "...", " ..", "é"] + LOOKALIKES


def small_templates(max_segments):
    for n in range(1, max_segments + 1):
        for segs in itertools.product(SPLIT_FRAGMENTS, repeat=n):
            yield "/".join(segs)


def replay_split_one(template, platform):
    want = split_oracle(template, platform)
    with patched_platform(platform):
        try:
            got = L.split_template_path(template)
        except TemplateNotFound as ex:
            got = TemplateNotFound if (type(ex) is TemplateNotFound and ex.name == template) else ("raised", repr(ex))
        except Exception as ex:  # noqa
            got = ("raised", repr(ex))
    return (got != want, f"split_template_path({template!r}) on {platform}: real={got!r} spec={want!r}")


def replay_split(w):
    platform = w.get("platform", "posix")
    v, d = replay_split_one(w["template"], platform)
    if v:
        return v, d
    # the counter-model of an invariant need not be reachable: search the neighbourhood for a real failing input
    for t in small_templates(2):
        v2, d2 = replay_split_one(t, platform)
        if v2:
            return v2, d2 + " (found near the verifier's counter-model)"
    return v, d


# ----------------------------------------------------------------------------------------------
# file system model and FileSystemLoader.get_source / PackageLoader.get_source
# ----------------------------------------------------------------------------------------------

fs_isfile = z3.Function("fs.isfile", S_, B_)
fs_mtime = z3.Function("fs.mtime", S_, I_)   # exact mtimes are ordered and finer than a second: integer ticks (ns)
TICKS_PER_SECOND = 10 ** 9
fs_text = z3.Function("fs.read_text", S_, S_, S_)   # (path, encoding) -> str
fs_bytes = z3.Function("fs.read_bytes", S_, Obj)
pjoin = z3.Function("posixpath.join", S_, SArr, I_, S_)
njoin = z3.Function("ntpath.join", S_, SArr, I_, S_)
normpath_fn = {"posix": z3.Function("posixpath.normpath", S_, S_), "nt": z3.Function("ntpath.normpath", S_, S_)}
bytes_decode = z3.Function("bytes.decode", Obj, S_, S_)


def comps_of(args, node):
    """(arr, n) of the components passed to a join"""
    comps = args[1:]
    if len(comps) == 1 and isinstance(comps[0], StarSeq):
        return comps[0].seq.arr, comps[0].seq.n
    arr = z3.K(I_, SV(""))
    for i, x in enumerate(comps):
        if isinstance(x, StarSeq):
            raise Unsupported("join(a, x, *ys)", node)
        arr = z3.Store(arr, i, to_term(x, "str"))
    return arr, z3.IntVal(len(comps))


class FSModel:
    """dependency specs of os.path.isfile/getmtime/normpath, posixpath.join, open/read: abstract callees
    that record events.  `handles` maps a file handle to (path, mode, encoding)."""

    def __init__(self, platform):
        self.platform = platform
        self.handles = {}
        self.fds = {}
        self.stats = {}

    # the file system as it is NOW (during get_source: FS-STABLE; subclasses model later epochs)
    def cur_exists(self, p):
        return fs_isfile(p)

    def cur_mtime(self, p):
        return fs_mtime(p)

    def install(self, I):
        install_star_hook(I)
        install_unexpected(I)
        I.attr_hook = platform_attr_hook(self.platform)
        m = self

        def reg(fn, h):
            I.specs[("fn", id(fn))] = h

        def join_spec(fnsym, name):
            def h(I_, st, args, kwargs, node):
                arr, n = comps_of(args, node)
                r = Sym(fnsym(to_term(args[0], "str"), arr, n), "str")
                st.assume(z3.Implies(n == 0, r.t == to_term(args[0], "str")))
                A.call_event(st, name, args, kwargs, r, node)
                return [(st, r)]
            return h

        reg(posixpath.join, join_spec(pjoin, "posixpath.join"))
        reg(ntpath.join, join_spec(njoin, "ntpath.join"))

        def isfile(I_, st, args, kwargs, node):
            r = Sym(fs_isfile(to_term(args[0], "str")), "bool")
            A.call_event(st, "os.path.isfile", args, kwargs, r, node)
            return [(st, r)]

        reg(posixpath.isfile, isfile)
        reg(ntpath.isfile, isfile)

        def getmtime(I_, st, args, kwargs, node):
            return m.getmtime(I_, st, args, kwargs, node)

        reg(posixpath.getmtime, getmtime)
        reg(ntpath.getmtime, getmtime)

        def normpath(pf):
            def h(I_, st, args, kwargs, node):
                r = Sym(normpath_fn[pf](to_term(args[0], "str")), "str")
                A.call_event(st, "os.path.normpath", args, kwargs, r, node)
                return [(st, r)]
            return h

        reg(posixpath.normpath, normpath("posix"))
        reg(ntpath.normpath, normpath("nt"))

        def open_(I_, st, args, kwargs, node):
            h = fresh("file", "obj", tags=("file",))
            mode = args[1] if len(args) > 1 else kwargs.get("mode", "r")
            m.handles[str(h.t)] = (args[0], mode, kwargs.get("encoding"))
            A.call_event(st, "open", args, kwargs, h, node)
            return [(st, h)]

        reg(open, open_)

        def cm_enter(I_, st, cm, node):
            if isinstance(cm, Sym) and "file" in cm.tags:
                st.trace.append(Event("call", "file.__enter__", [cm], lineno=getattr(node, "lineno", None)))
                return [(st, cm)]
            return None

        def cm_exit(I_, st, cm, ctl, node):
            if isinstance(cm, Sym) and "file" in cm.tags:
                st.trace.append(Event("call", "file.close", [cm], lineno=getattr(node, "lineno", None)))
                return [(st, ctl)]
            return None

        I.specs["cm_enter"] = cm_enter
        I.specs["cm_exit"] = cm_exit

        def read(I_, st, recv, args, kwargs, node):
            if "file" not in recv.tags or args or kwargs:
                return None
            path, mode, enc = m.handles[str(recv.t)]
            if mode == "rb":
                r = Sym(fs_bytes(to_term(path, "str")), "obj", tags=("bytes",))
            elif mode == "r" and enc is not None:
                r = Sym(fs_text(to_term(path, "str"), to_term(enc, "str")), "str")
            else:
                r = fresh("read", "obj")
            A.call_event(st, "file.read", [recv], kwargs, r, node)
            return [(st, r)]

        def decode(I_, st, recv, args, kwargs, node):
            r = Sym(bytes_decode(recv.t, to_term(args[0], "str")), "str")
            A.call_event(st, "bytes.decode", [recv] + list(args), kwargs, r, node)
            return [(st, r)]

        def get_data(I_, st, recv, args, kwargs, node):
            return m.get_data(I_, st, recv, args, kwargs, node)

        # ---- os.stat / os.fstat: a stat result knows the exact mtime (attribute st_mtime, what getmtime returns) and,
        # indexed as a tuple, the mtime TRUNCATED to whole seconds:  os.stat(p)[ST_MTIME] == floor(os.stat(p).st_mtime)
        import stat as stat_mod

        def fileno(I_, st, recv, args, kwargs, node):
            if "file" not in recv.tags or args or kwargs:
                return None
            fd = fresh("fd", "int", tags=("fd",))
            m.fds[str(fd.t)] = recv
            st.trace.append(Event("call", "fileno()", [recv], None, fd, lineno=getattr(node, "lineno", None)))
            return [(st, fd)]

        def stat_value(st, path, args, kwargs, node, name):
            r = fresh("stat_result", "obj", tags=("stat",))
            m.stats[str(r.t)] = m.cur_mtime(to_term(path, "str"))
            A.call_event(st, name, args, kwargs, r, node)
            return r

        def os_fstat(I_, st, args, kwargs, node):
            h = m.fds.get(str(args[0].t)) if isinstance(args[0], Sym) else None
            if h is None:
                return None
            path = m.handles[str(h.t)][0]
            return [(st, stat_value(st, path, args, kwargs, node, "os.fstat"))]

        def os_stat(I_, st, args, kwargs, node):
            out = []
            for s, b in I_.fork_bool(st, m.cur_exists(to_term(args[0], "str"))):
                if b:
                    out.append((s, stat_value(s, args[0], args, kwargs, node, "os.stat")))
                else:
                    e = Exc(FileNotFoundError, (), tag="os.stat", origin=getattr(node, "lineno", None))
                    e.from_call = "os.stat"
                    A.call_event(s, "os.stat", args, kwargs, e, node)
                    out.append((s, Raised(e)))
            return out

        reg(os.fstat, os_fstat)
        reg(os.stat, os_stat)

        def whole_seconds(st, ticks):
            sec = fresh("whole_seconds", "int")
            st.assume(TICKS_PER_SECOND * sec.t <= ticks, ticks < TICKS_PER_SECOND * sec.t + TICKS_PER_SECOND)
            return sec

        def getitem_obj(I_, st, args, kwargs, node):
            o, idx = args
            if not (isinstance(o, Sym) and "stat" in o.tags):
                return None
            if idx == stat_mod.ST_MTIME:
                return [(st, whole_seconds(st, m.stats[str(o.t)]))]
            return [(st, fresh("stat_field", "int"))]

        I.specs["getitem_obj"] = getitem_obj

        def st_mtime(I_, st, o, node):
            if "stat" not in o.tags:
                return None
            return [(st, Sym(m.stats[str(o.t)], "int"))]

        install_opaque(I, methods={"read": read, "decode": decode, "get_data": get_data, "fileno": fileno},
                       attrs={"st_mtime": st_mtime, "st_mtime_ns": st_mtime})

        def str_join(I_, st, args, kwargs, node):
            return [(st, fresh("joined", "str"))]

        I.specs["str.join"] = str_join

    # FS-STABLE: inside get_source the mtime of an existing file is a function of the path
    def getmtime(self, I, st, args, kwargs, node):
        r = Sym(fs_mtime(to_term(args[0], "str")), "int")
        A.call_event(st, "os.path.getmtime", args, kwargs, r, node)
        return [(st, r)]

    zip_has = z3.Function("zip.has", S_, B_)
    zip_data = z3.Function("zip.get_data", S_, Obj)

    def get_data(self, I, st, recv, args, kwargs, node):
        p = to_term(args[0], "str")
        out = []
        for s, b in I.fork_bool(st, self.zip_has(p)):
            if b:
                r = Sym(self.zip_data(p), "obj", tags=("bytes",))
                A.call_event(s, "zip.get_data", [recv] + list(args), kwargs, r, node)
                out.append((s, r))
            else:
                e = Exc(OSError, (), tag="get_data", origin=getattr(node, "lineno", None))
                e.from_call = "zip.get_data"
                A.call_event(s, "zip.get_data", [recv] + list(args), kwargs, e, node)
                out.append((s, Raised(e)))
        return out


def split_spec(c):
    """the proved contract of split_template_path (C28.split) used as callee spec: raises
    TemplateNotFound(template) or returns a fresh list of good pieces."""

    def h(I, st, args, kwargs, node):
        s1 = st.fork()
        e = Exc(TemplateNotFound, (args[0],), tag="split", origin=getattr(node, "lineno", None))
        A.call_event(s1, "split_template_path", args, kwargs, e, node)
        i = z3.Int(fresh_name("i"))
        st.assume(c.Pn >= 0, z3.ForAll([i], z3.Implies(z3.And(0 <= i, i < c.Pn), piece_good(z3.Select(c.P, i), c.platform))))
        r = st.alloc(HList(arr=c.P, n=c.Pn, k="str"))
        A.call_event(st, "split_template_path", args, kwargs, r, node)
        return [(s1, Raised(e)), (st, r)]

    return h


def split_outcome(out):
    """None (not called exactly once) | 'raised' | 'returned'"""
    ev = A.calls(out, "split_template_path")
    if len(ev) != 1:
        return None
    return "raised" if isinstance(ev[0].result, Exc) else "returned"


class FSGetSource(LVC):
    """FileSystemLoader.get_source for any list of search paths (loop invariant: none of the search
    paths tried so far has the file)."""
    prop = "C28"
    target = "jinja2.loaders:FileSystemLoader.get_source"
    timeout_quick = 20000

    def __init__(self, platform, name=None):
        self.platform = platform
        super().__init__("C28", name or f"C28.fs[{platform}]")

    def configure(self, I):
        self.fs = FSModel(self.platform)
        self.fs.install(I)
        I.specs["jinja2.loaders:split_template_path"] = split_spec(self)
        c = self

        def inv(ctx):
            return [c.none_before(ctx.k)]

        I.loops[("FileSystemLoader.get_source", 0)] = LoopSpec(inv, havoc=loop_assigned(self.target), name="searchpath_loop")

    def cand(self, i):
        return pjoin(z3.Select(self.SP, i), self.P, self.Pn)

    def none_before(self, k):
        j = z3.Int(fresh_name("j"))
        return z3.ForAll([j], z3.Implies(z3.And(0 <= j, j < k), z3.Not(fs_isfile(self.cand(j)))))

    def setup(self, I, st):
        self.SP = z3.Const("searchpath", SArr)
        self.SPn = z3.Int("n_searchpath")
        self.P = z3.Const("pieces", SArr)
        self.Pn = z3.Int("n_pieces")
        st.assume(self.SPn >= 0)
        i = z3.Int("spi")
        # the search paths are directories (not regular files)
        st.assume(z3.ForAll([i], z3.Implies(z3.And(0 <= i, i < self.SPn), z3.Not(fs_isfile(z3.Select(self.SP, i))))))
        self.sp_list = st.alloc(HList(arr=self.SP, n=self.SPn, k="str"), initial=True)
        self.encoding = sym("encoding", "str")
        self.obj = A.obj(st, L.FileSystemLoader, "self", fields={"searchpath": self.sp_list, "encoding": self.encoding,
                                                                 "followlinks": sym("followlinks", "bool")})
        self.env = sym("environment", "obj")
        self.template = sym("template", "str")
        return [self.obj, self.env, self.template], {}

    # ---- postconditions ---------------------------------------------------------------------
    def first_hit(self, T):
        i = z3.Int(fresh_name("i"))
        return z3.Exists([i], z3.And(0 <= i, i < self.SPn, T == self.cand(i), fs_isfile(T), self.none_before(i)))

    def p_opened(self, pre, out):
        """the only open() is of posixpath.join(searchpath_i, *pieces) for the first i that has the file"""
        opens = A.calls(out, "open")
        if out.raised:
            return len(opens) == 0
        if len(opens) != 1:
            return False
        ev = opens[0]
        if len(ev.args) != 1 or set(ev.kwargs) != {"encoding"} or ev.kwargs["encoding"] is not self.encoding:
            return False
        return self.first_hit(to_term(ev.args[0], "str"))

    def p_notfound(self, pre, out):
        """TemplateNotFound(template) iff the name is rejected or no search path has the file"""
        so = split_outcome(out)
        if so is None or A.calls(out, "split_template_path")[0].args[0] is not self.template:
            return False
        none = self.none_before(self.SPn)
        if out.raised:
            if not tnf_named(out, self.template):
                return False
            return True if so == "raised" else none
        if so == "raised":
            return False
        return z3.Not(none)

    def p_result(self, pre, out):
        """(contents of that file, normpath(path), uptodate closure)"""
        if out.raised:
            return None
        v = out.value
        opens, reads = A.calls(out, "open"), A.calls(out, "file.read")
        if not (isinstance(v, tuple) and len(v) == 3 and len(opens) == 1 and len(reads) == 1 and isinstance(v[2], Closure)):
            return False
        if reads[0].args[0] is not opens[0].result or v[0] is not reads[0].result:
            return False
        names = [e.name for e in out.st.trace if e.kind == "call" and e.name.startswith("file.")]
        if names != ["file.__enter__", "file.read", "file.close"]:
            return False
        T = to_term(opens[0].args[0], "str")
        return z3.And(to_term(v[1], "str") == normpath_fn[self.platform](T),
                      to_term(v[0], "str") == fs_text(T, self.encoding.t))

    def p_fs_access(self, pre, out):
        """every file-system access is on a candidate path posixpath.join(searchpath_i, *pieces); nothing else is called"""
        if unexpected(out) or A.calls(out, "ntpath.join"):
            return False
        conj = []
        for e in out.st.trace:
            if e.kind == "call" and e.name in ("os.path.isfile", "os.path.getmtime", "open", "os.stat"):
                i = z3.Int(fresh_name("i"))
                conj.append(z3.Exists([i], z3.And(0 <= i, i < self.SPn, to_term(e.args[0], "str") == self.cand(i))))
            if e.kind == "call" and e.name == "posixpath.join":
                arr, n = comps_of(e.args, None)
                i = z3.Int(fresh_name("i"))
                conj.append(z3.And(n == self.Pn, z3.ForAll([i], z3.Implies(z3.And(0 <= i, i < n), z3.Select(arr, i) == z3.Select(self.P, i)))))
        return z3.And(*conj) if conj else True

    def p_nonempty(self, pre, out):
        """a file is only read for a name with at least one piece (the search directory itself is never opened)"""
        if out.raised:
            return None
        return self.Pn > 0

    posts = [("opens_first_match_only", p_opened), ("not_found_iff_none", p_notfound), ("result", p_result),
             ("fs_access_confined", p_fs_access), ("reads_below_search_path", p_nonempty)]

    # ---- witness / replay -------------------------------------------------------------------
    def concretize(self, model, pre, out):
        n = max(0, min(4, model_value(model, self.SPn)))
        pn = max(0, min(4, model_value(model, self.Pn)))
        sps = [z3str(model, z3.Select(self.SP, i)) for i in range(n)]
        pieces = [z3str(model, z3.Select(self.P, i)) for i in range(pn)]
        rejected = out is not None and split_outcome(out) == "raised"
        files = []
        for i in range(n):
            if model_value(model, fs_isfile(self.cand(z3.IntVal(i)))) is True:
                files.append(posixpath.join(sps[i], *pieces))
        return {"loader": "fs", "platform": self.platform, "searchpaths": sps,
                "template": "../x" if rejected else "/".join(pieces), "files": files}

    def replay(self, w):
        return replay_fs(w)


class fake_fs:
    """native replay: isfile / getmtime / open as seen from jinja2.loaders answer from a fake file table and
    record what the loader touches"""

    def __init__(self, platform, files, mtime=1.0):
        self.platform, self.files, self.log, self.mtime = platform, set(files), [], mtime

    def __enter__(self):
        import io
        import sys
        self.pp = patched_platform(self.platform)
        self.pp.__enter__()
        mod = os.path
        self.mod = mod
        self.saved = (mod.isfile, mod.getmtime)
        real_isfile, real_getmtime = self.saved
        me = self

        def from_loader():
            f = sys._getframe(2)
            return f.f_globals.get("__name__") == "jinja2.loaders"

        def isfile(p):
            if not from_loader():
                return real_isfile(p)
            me.log.append(("isfile", p))
            return p in me.files

        def getmtime(p):
            if not from_loader():
                return real_getmtime(p)
            me.log.append(("getmtime", p))
            if p not in me.files:
                raise FileNotFoundError(p)
            return me.mtime

        def open_(p, mode="r", **kw):
            me.log.append(("open", p))
            if p not in me.files:
                raise FileNotFoundError(p)
            data = "content of " + p
            f = FakeBytes(data.encode("utf-8")) if "b" in mode else FakeText(data)
            f.fake_fd = 900000 + len(me.fd_paths)
            me.fd_paths[f.fake_fd] = p
            return f

        class FakeText(io.StringIO):
            def fileno(self):
                return self.fake_fd

        class FakeBytes(io.BytesIO):
            def fileno(self):
                return self.fake_fd

        def stat_result(p):
            if p not in me.files:
                raise FileNotFoundError(p)
            t = me.mtime
            return os.stat_result((0o100644, 1, 1, 1, 0, 0, 10, int(t), int(t), int(t), float(t), float(t), float(t)))

        self.fd_paths = {}
        self.saved_os = (os.stat, os.fstat)
        real_stat, real_fstat = self.saved_os

        def stat_(p, *a, **kw):
            if not from_loader():
                return real_stat(p, *a, **kw)
            me.log.append(("stat", p))
            return stat_result(p)

        def fstat_(fd):
            if fd not in me.fd_paths:
                return real_fstat(fd)
            return stat_result(me.fd_paths[fd])

        os.stat, os.fstat = stat_, fstat_
        mod.isfile, mod.getmtime = isfile, getmtime
        L.open = open_
        return self

    def __exit__(self, *a):
        os.stat, os.fstat = self.saved_os
        self.mod.isfile, self.mod.getmtime = self.saved
        del L.open
        self.pp.__exit__()


def inside(platform, base, path):
    """lexical containment of `path` in directory `base` by the platform's own path rules (normpath of the
    platform resolves '..' components and converts the alternative separator)"""
    M = PATHMOD[platform]
    nb, np_ = M.normpath(base), M.normpath(path)
    if nb == ".":
        first = np_.split(M.sep)[0]
        return not M.isabs(np_) and not M.splitdrive(np_)[0] and first not in ("..", ".", "")
    pref = nb if nb.endswith(M.sep) else nb + M.sep
    if not np_.startswith(pref):
        return False
    rest = np_[len(pref):]
    return rest != "" and all(c not in ("..", ".", "") for c in rest.split(M.sep))


def replay_fs_one(w):
    platform, sps, template, files = w.get("platform", "posix"), list(w["searchpaths"]), w["template"], list(w["files"])
    if any(sp in files for sp in sps):
        return (False, "witness makes a search path a regular file (outside the precondition)")
    want_pieces = split_oracle(template, platform)
    if want_pieces is TemplateNotFound:
        want, want_open = ("raise", "TemplateNotFound", template), []
    else:
        cands = [posixpath.join(sp, *want_pieces) for sp in sps]
        hit = next((c for c in cands if c in files), None)
        if hit is None:
            want, want_open = ("raise", "TemplateNotFound", template), []
        else:
            want, want_open = ("ok", "content of " + hit), [hit]
    loader = object.__new__(L.FileSystemLoader)
    loader.searchpath, loader.encoding, loader.followlinks = sps, "utf-8", False
    with fake_fs(platform, files) as fs:
        got = run_native(lambda: loader.get_source(None, template))
        expect_fn = os.path.normpath(want_open[0]) if want_open else None
    fn_ok = True
    if got[0] == "ok":
        fn_ok = got[1][1] == expect_fn and callable(got[1][2])
        got = ("ok", got[1][0])
    opened = [p for k, p in fs.log if k == "open"]
    touched = [p for k, p in fs.log]
    contained = all(any(inside(platform, sp, p) for sp in sps) for p in opened)
    cand_ok = want_pieces is TemplateNotFound and not touched or want_pieces is not TemplateNotFound and all(
        p in [posixpath.join(sp, *want_pieces) for sp in sps] for p in touched)
    bad = got != want or opened != want_open or not contained or not cand_ok or not fn_ok
    return (bad, f"FileSystemLoader({sps!r}).get_source({template!r}) on {platform}, files={files!r}: real={got!r} opened={opened!r} "
                 f"touched={touched!r}; spec={want!r} opens={want_open!r}; lexically contained={contained}")


FS_FAMILY = ["a", "sub/a", "C:x", "C:", "sub/C:x", "a/./b", "//a", "..", "sub/../a", "\\a", "a\\..\\b", ""]


def replay_fs(w):
    v, d = replay_fs_one(w)
    if v or v is None:
        return v, d
    # the counter-model of an abstract callee / invariant need not be a failing input: try a small family nearby
    platform = w.get("platform", "posix")
    for sps in (["/srv/t1", "/srv/t2"], ["t1", "D:\\t2"], ["/srv/t1/"]):
        for t in FS_FAMILY:
            pieces = split_oracle(t, platform)
            for which in (None, 0, -1):
                files = []
                if which is not None and pieces is not TemplateNotFound and pieces:
                    files = [posixpath.join(sps[which], *pieces)]
                v2, d2 = replay_fs_one({"platform": platform, "searchpaths": sps, "template": t, "files": files})
                if v2:
                    return v2, d2 + " (found near the verifier's counter-model)"
    return v, d


class PkgGetSource(LVC):
    """PackageLoader.get_source: directory package (isfile/open on p) and zip package (loader.get_data(p)),
    p = normpath(posixpath.join(_template_root, *pieces))."""
    prop = "C28"
    target = "jinja2.loaders:PackageLoader.get_source"
    timeout_quick = 20000

    def __init__(self, platform, archive, name=None):
        self.platform, self.archive = platform, archive
        super().__init__("C28", name or f"C28.package[{platform},{'zip' if archive else 'dir'}]")

    def configure(self, I):
        self.fs = FSModel(self.platform)
        self.fs.install(I)
        I.specs["jinja2.loaders:split_template_path"] = split_spec(self)

    def setup(self, I, st):
        self.P = z3.Const("pieces", SArr)
        self.Pn = z3.Int("n_pieces")
        self.root = sym("template_root", "str")
        self.encoding = sym("encoding", "str")
        self.zloader = sym("zip_loader", "obj")
        self.obj = A.obj(st, L.PackageLoader, "self", fields={
            "_template_root": self.root, "_archive": "/pkg.zip" if self.archive else None, "_loader": self.zloader,
            "encoding": self.encoding, "package_name": sym("package_name", "str"), "package_path": sym("package_path", "str")})
        self.env = sym("environment", "obj")
        self.template = sym("template", "str")
        self.p = normpath_fn[self.platform](pjoin(self.root.t, self.P, self.Pn))
        return [self.obj, self.env, self.template], {}

    def has(self):
        return self.fs.zip_has(self.p) if self.archive else fs_isfile(self.p)

    def p_access(self, pre, out):
        """the only path read is p = normpath(posixpath.join(_template_root, *pieces))"""
        if unexpected(out) or A.calls(out, "ntpath.join"):
            return False
        so = split_outcome(out)
        if so is None or A.calls(out, "split_template_path")[0].args[0] is not self.template:
            return False
        conj = []
        kinds = ("zip.get_data",) if self.archive else ("os.path.isfile", "os.path.getmtime", "open")
        for e in out.st.trace:
            if e.kind != "call":
                continue
            if e.name in ("os.path.isfile", "os.path.getmtime", "open", "zip.get_data"):
                if e.name not in kinds:
                    return False
                a = e.args[1] if e.name == "zip.get_data" else e.args[0]
                conj.append(to_term(a, "str") == self.p)
        opens = A.calls(out, "open") + A.calls(out, "zip.get_data")
        if so == "raised" or (out.raised and not self.archive):
            return (z3.And(*conj) if conj else True) if len(opens) == 0 else False
        if len(opens) != 1:
            return False
        if not self.archive:
            ev = opens[0]
            if not (len(ev.args) == 2 and ev.args[1] == "rb" and not ev.kwargs):
                return False
            if out.returned and [e.name for e in out.st.trace if e.kind == "call" and e.name.startswith("file.")] != ["file.__enter__", "file.read", "file.close"]:
                return False
        else:
            if opens[0].args[0] is not self.zloader:
                return False
        return z3.And(*conj) if conj else True

    def p_notfound(self, pre, out):
        so = split_outcome(out)
        if so is None:
            return False
        if out.raised:
            if not tnf_named(out, self.template):
                return False
            return True if so == "raised" else z3.Not(self.has())
        if so == "raised":
            return False
        return self.has()

    def p_result(self, pre, out):
        if out.raised:
            return None
        v = out.value
        if not (isinstance(v, tuple) and len(v) == 3):
            return False
        if self.archive:
            if v[2] is not None:
                return False
            data = self.fs.zip_data(self.p)
        else:
            if not isinstance(v[2], Closure):
                return False
            data = fs_bytes(self.p)
        return z3.And(to_term(v[1], "str") == self.p, to_term(v[0], "str") == bytes_decode(data, self.encoding.t))

    def p_nonempty(self, pre, out):
        return None

    posts = [("reads_only_the_joined_path", p_access), ("not_found_iff_missing", p_notfound), ("result", p_result)]

    def concretize(self, model, pre, out):
        pn = max(0, min(4, model_value(model, self.Pn)))
        pieces = [z3str(model, z3.Select(self.P, i)) for i in range(pn)]
        rejected = out is not None and split_outcome(out) == "raised"
        return {"loader": "package", "platform": self.platform, "zip": bool(self.archive), "root": z3str(model, self.root.t) or "/pkg/templates",
                "template": "../x" if rejected else "/".join(pieces), "exists": model_value(model, self.has()) is True}

    def replay(self, w):
        return replay_pkg(w)


def replay_pkg(w):
    platform, root, template = w.get("platform", "posix"), w["root"], w["template"]
    M = PATHMOD[platform]
    want_pieces = split_oracle(template, platform)
    p = None if want_pieces is TemplateNotFound else M.normpath(posixpath.join(root, *want_pieces))
    exists = bool(w.get("exists")) and p is not None
    want = ("ok", "content of " + p) if exists else ("raise", "TemplateNotFound", template)
    loader = object.__new__(L.PackageLoader)
    loader._template_root, loader.encoding, loader.package_name, loader.package_path = root, "utf-8", "pkg", "templates"
    zlog = []

    class Z:
        def get_data(self, path):
            zlog.append(path)
            if exists and path == p:
                return ("content of " + path).encode("utf-8")
            raise OSError(path)

    loader._loader, loader._archive = Z(), ("/pkg.zip" if w.get("zip") else None)
    with fake_fs(platform, [p] if exists else []) as fs:
        got = run_native(lambda: loader.get_source(None, template))
    fn_ok = True
    if got[0] == "ok":
        fn_ok = got[1][1] == p and ((got[1][2] is None) if w.get("zip") else callable(got[1][2]))
        got = ("ok", got[1][0])
    touched = zlog + [q for k, q in fs.log]
    only_p = all(q == p for q in touched) and (p is not None or not touched)
    contained = all(inside(platform, root, q) for q in touched)
    bad = got != want or not only_p or not fn_ok or not contained
    return (bad, f"PackageLoader(root={root!r}, zip={bool(w.get('zip'))}).get_source({template!r}) on {platform}, exists={exists}: "
                 f"real={got!r} touched={touched!r}; spec={want!r} path={p!r}; contained={contained}")


# ----------------------------------------------------------------------------------------------
# containment lemma about the dependency spec of posixpath.join (induction on the number of pieces)
# ----------------------------------------------------------------------------------------------

def prove(name, hyps, goal, timeout=90000, witness=None):
    """validity of hyps => goal: z3 briefly, then cvc5 (good at word equations), then z3 again"""
    t0 = time.time()
    for budget in (700, timeout):
        s = z3.Solver()
        s.set("timeout", budget)
        s.add(*hyps)
        s.add(z3.Not(goal))
        r = s.check()
        if r == z3.unsat:
            return Res(name, "discharged", "z3", time.time() - t0, "", "vc")
        if r == z3.sat:
            return Res(name, "refuted", "z3", time.time() - t0, "lemma has a counter-model", "vc", witness(s.model()) if witness else None)
        if budget == 700:
            r2 = cvc5_check(s, timeout)
            if r2 is not None:
                return Res(name, "discharged", "cvc5", time.time() - t0, "", "vc")
    return Res(name, "unknown", "z3", time.time() - t0, "solver: timeout", "vc")


def rel_props(R, platform):
    """R = the part of the joined path after `searchpath + "/"`: a non-empty relative path none of whose
    components is "..", ".", or empty, free of the platform separator (so it cannot be absolute, re-root
    on a drive-relative separator, or climb out)"""
    sep, altsep = PLATFORMS[platform]
    w = z3.Concat(SV("/"), R, SV("/"))
    c = [R != SV(""), z3.Not(z3.PrefixOf(SV("/"), R)), z3.Not(z3.SuffixOf(SV("/"), R)), z3.Not(z3.Contains(w, SV("/../"))),
         z3.Not(z3.Contains(w, SV("//"))), z3.Not(z3.Contains(w, SV("/./")))]
    if sep != "/":
        c.append(z3.Not(z3.Contains(R, SV(sep))))
    return c


def join_step(X, p):
    """dependency spec of posixpath.join, one more component p (not starting with "/"):
    X + p if X is empty or ends with "/", else X + "/" + p"""
    return z3.If(z3.Or(X == SV(""), z3.SuffixOf(SV("/"), X)), z3.Concat(X, p), z3.Concat(X, SV("/"), p))


def lemma_contained(task, tier, seed):
    """For every base b and good pieces p0..pn-1 (n >= 1):  posixpath.join(b, p0, .., pn-1) = b + d + R with
    d = "" if b is "" or ends with "/" else "/", and rel_props(R).  Induction on n; each case a string VC."""
    pf = task.platform
    b, R, p = z3.Strings("b R p")
    d = z3.If(z3.Or(b == SV(""), z3.SuffixOf(SV("/"), b)), SV(""), SV("/"))
    rs = []

    def wit(m):
        return {"lemma": "join", "platform": pf, "base": z3str(m, b), "rel": z3str(m, R), "piece": z3str(m, p)}

    good = piece_good(p, pf)
    # base case n = 1: join(b, p) = b + d + p and R = p
    rs.append(prove(f"{task.name}.base.shape", [good], join_step(b, p) == z3.Concat(b, d, p), witness=wit))
    for i, g in enumerate(rel_props(p, pf)):
        rs.append(prove(f"{task.name}.base.rel[{i}]", [good], g, witness=wit))
    # step: X = b + d + R with rel_props(R); join(X.., p) = b + d + (R + "/" + p) and rel_props(R + "/" + p)
    X = z3.Concat(b, d, R)
    hyp = rel_props(R, pf) + [good]
    R2 = z3.Concat(R, SV("/"), p)
    rs.append(prove(f"{task.name}.step.shape", hyp, join_step(X, p) == z3.Concat(b, d, R2), witness=wit))
    for i, g in enumerate(rel_props(R2, pf)):
        rs.append(prove(f"{task.name}.step.rel[{i}]", hyp, g, witness=wit))
    return rs


def replay_lemma(w):
    """the lemma on the real posixpath.join for the counter-model's strings"""
    if w.get("lemma") != "join":
        return (None, "no native replay")
    pf, base, rel, piece = w["platform"], w["base"], w["rel"], w["piece"]
    if split_oracle(piece, pf) != [piece]:
        return (False, "counter-model piece is not a good piece")
    comps = [c for c in rel.split("/")] if rel else []
    if any(split_oracle(c, pf) != [c] for c in comps):
        comps = []
    got = posixpath.join(base, *comps, piece)
    ok = any(inside(pf, base or ".", got) for _ in (0,))
    return (not ok, f"posixpath.join({base!r}, *{comps + [piece]!r}) = {got!r}; inside base: {ok}")


class LemmaTask(FnTask):
    def __init__(self, platform):
        super().__init__("C28", f"C28.fs.join.contained[{platform}]", lemma_contained, "vc", replay_lemma)
        self.platform = platform


# ----------------------------------------------------------------------------------------------
# ChoiceLoader
# ----------------------------------------------------------------------------------------------

class Choice(LVC):
    """ChoiceLoader.get_source / load over any list of loaders."""
    prop = "C28"
    timeout_quick = 20000

    def __init__(self, method):
        self.method = method
        self.target = f"jinja2.loaders:ChoiceLoader.{method}"
        super().__init__("C28", f"C28.choice.{method}")

    def configure(self, I):
        install_unexpected(I)
        self.oc, self.res = callee_model(self.method)
        # members of this task are loaders WITH source access (the class default); ChoiceSourceless covers the others
        install_opaque(I, methods={self.method: abstract_loader_method(self.method, self.oc, self.res, name_index=1)},
                       attrs={"has_source_access": lambda I_, st, o, node: [(st, True)]})
        c = self

        def inv(ctx):
            return [c.all_tnf_before(ctx.k)]

        I.loops[(f"ChoiceLoader.{self.method}", 0)] = LoopSpec(inv, havoc=loop_assigned(self.target, kind="obj"), name="loaders_loop")

    def oc_at(self, i):
        return self.oc(z3.Select(self.LD, i), name_atom(self.template))

    def all_tnf_before(self, k):
        j = z3.Int(fresh_name("j"))
        return z3.ForAll([j], z3.Implies(z3.And(0 <= j, j < k), is_tnf_family(self.oc_at(j))))

    def setup(self, I, st):
        self.LD = z3.Const("loaders", OArr)
        self.n = z3.Int("n_loaders")
        st.assume(self.n >= 0)
        self.ld_list = st.alloc(HList(arr=self.LD, n=self.n, k="obj"), initial=True)
        self.obj = A.obj(st, L.ChoiceLoader, "self", fields={"loaders": self.ld_list})
        self.env = sym("environment", "obj")
        self.template = sym("template", "obj")
        self.globals = sym("globals", "obj")
        args = [self.obj, self.env, self.template]
        if self.method == "load":
            args.append(self.globals)
        return args, {}

    def first_is(self, v):
        i = z3.Int(fresh_name("i"))
        return i, z3.And(0 <= i, i < self.n, self.all_tnf_before(i), self.oc_at(i) == v)

    def p_outcome(self, pre, out):
        """result of the first loader that does not raise TemplateNotFound; TemplateNotFound(name) iff all do;
        any other exception of a loader passes through"""
        if out.returned:
            i, c = self.first_is(OUT_RETURN)
            return z3.Exists([i], z3.And(c, to_term(out.value, "obj") == self.res(z3.Select(self.LD, i), name_atom(self.template))))
        e = out.value
        if getattr(e, "from_call", None):
            if e.cls is not OtherError:
                return False
            i, c = self.first_is(OUT_OTHER)
            return z3.Exists([i], c)
        if not tnf_named(out, self.template):
            return False
        return self.all_tnf_before(self.n)

    def p_calls(self, pre, out):
        """loaders are called with (environment, name[, globals]) unchanged; nothing else is called"""
        if unexpected(out):
            return False
        for e in A.calls(out, self.method):
            want = [self.env, self.template] + ([self.globals] if self.method == "load" else [])
            if len(e.args) != 1 + len(want) or e.kwargs or any(a is not b for a, b in zip(e.args[1:], want)):
                return False
        return True

    posts = [("first_available_loader", p_outcome), ("arguments_passed_through", p_calls)]

    def concretize(self, model, pre, out):
        n = max(0, min(6, model_value(model, self.n)))
        ids, outs = [], []
        for i in range(n):
            ids.append(str(model.eval(z3.Select(self.LD, i), model_completion=True)))
            v = model_value(model, self.oc_at(z3.IntVal(i)))
            outs.append(v if v in (0, 1, 2, 3) else OUT_OTHER)
        return {"loader": "choice", "method": self.method, "ids": ids, "outcomes": outs}

    def replay(self, w):
        return replay_choice(w)


has_src = z3.Function("loader.has_source_access", Obj, B_)


class ChoiceSourceless(Choice):
    """ChoiceLoader.get_source when members may be loaders WITHOUT source access (ModuleLoader: has_source_access is
    False and BaseLoader.get_source raises RuntimeError before it looks for the name).  Such a member does not 'have'
    the name as far as get_source is concerned: the statement's "resolve to the first loader that has it / TemplateNotFound
    exactly when none has it" makes the search go on."""

    def __init__(self):
        Choice.__init__(self, "get_source")
        self.name = "C28.choice.get_source[sourceless]"

    def configure(self, I):
        Choice.configure(self, I)
        base = abstract_loader_method(self.method, self.oc, self.res, name_index=1)

        def get_source(I_, st, recv, args, kwargs, node):
            out = []
            for s, b in I_.fork_bool(st, has_src(recv.t)):
                if b:
                    out += base(I_, s, recv, args, kwargs, node)
                else:
                    e = Exc(RuntimeError, ("cannot provide access to the source",), tag="nosource", origin=getattr(node, "lineno", None))
                    e.from_call = self.method
                    A.call_event(s, self.method, [recv] + list(args), kwargs, e, node)
                    out.append((s, Raised(e)))
            return out

        def has_source_access(I_, st, o, node):
            return [(st, Sym(has_src(o.t), "bool"))]

        install_opaque(I, methods={self.method: get_source}, attrs={"has_source_access": has_source_access})

    def fails(self, j):
        return z3.Or(z3.Not(has_src(z3.Select(self.LD, j))), is_tnf_family(self.oc_at(j)))

    def all_tnf_before(self, k):
        j = z3.Int(fresh_name("j"))
        return z3.ForAll([j], z3.Implies(z3.And(0 <= j, j < k), self.fails(j)))

    def first_is(self, v):
        i, c = Choice.first_is(self, v)
        return i, z3.And(c, has_src(z3.Select(self.LD, i)))

    def is_passthrough(self, out):
        return out.raised and out.value.cls is RuntimeError and out.value.tag == "nosource"

    def p_outcome(self, pre, out):
        if self.is_passthrough(out):
            return None  # decided by the next clause
        return Choice.p_outcome(self, pre, out)

    def p_sourceless(self, pre, out):
        """the RuntimeError of a member without source access never ends the search"""
        return False if self.is_passthrough(out) else None

    posts = [("first_available_loader", p_outcome), ("sourceless_member_does_not_end_the_search", p_sourceless), ("arguments_passed_through", Choice.p_calls)]

    def concretize(self, model, pre, out):
        w = Choice.concretize(self, model, pre, out)
        for i in range(len(w["outcomes"])):
            if model_value(model, has_src(z3.Select(self.LD, z3.IntVal(i)))) is not True:
                w["outcomes"][i] = OUT_NOSOURCE
        return w

    def finding_key(self, res):
        w = res.witness or {}
        if "sourceless_member" in res.name and OUT_NOSOURCE in (w.get("outcomes") or []):
            return "member-without-source-access"
        return "other"


def replay_choice(w):
    objs = {}
    loaders = [objs.setdefault(i, FakeLoader(i, o)) for i, o in zip(w["ids"], w["outcomes"])]
    outs = [l.outcome for l in loaders]
    want = ("raise", "TemplateNotFound", "NAME")
    for l in loaders:
        if l.outcome == OUT_NOSOURCE and w["method"] == "get_source":
            continue   # it cannot say whether it has the name: the search goes on
        if l.outcome == OUT_RETURN:
            want = ("ok", ("result", l.ident, w["method"], "NAME"))
            break
        if l.outcome == OUT_OTHER:
            want = ("raise", "OtherError", str(l.ident))
            break
    cl = L.ChoiceLoader(loaders)
    env, g = object(), {"g": 1}
    got = run_native((lambda: cl.get_source(env, "NAME")) if w["method"] == "get_source" else (lambda: cl.load(env, "NAME", g)))
    args_ok = all(c[1] == "NAME" and c[2] is env and (len(c) < 4 or c[3] is g) for l in loaders for c in l.calls)
    return (got != want or not args_ok, f"ChoiceLoader(outcomes={outs}).{w['method']}: real={got!r} spec={want!r} args passed through={args_ok}")


# ----------------------------------------------------------------------------------------------
# PrefixLoader
# ----------------------------------------------------------------------------------------------

def split1_spec(I, st, args, kwargs, node, last=False):
    """dependency spec of  s.split(d, 1): ValueError for an empty separator; [s] when d does not occur;
    otherwise [s[:i], s[i+len(d):]] for the first occurrence i."""
    if len(args) != 3 or args[2] != 1 or kwargs:
        st.trace.append(Event("call", "unexpected:str.split", args, kwargs, None, lineno=getattr(node, "lineno", None)))
        return [(st, st.alloc(HList(items=[fresh("x", "str"), fresh("y", "str")])))]
    s, d = to_term(args[0], "str"), to_term(args[1], "str")
    out = []
    for s1, empty in I.fork_bool(st, d == SV("")):
        if empty:
            e = Exc(ValueError, ("empty separator",), origin=getattr(node, "lineno", None))
            out.append((s1, Raised(e)))
            continue
        for s2, has in I.fork_bool(s1, z3.Contains(s, d)):
            if not has:
                out.append((s2, s2.alloc(HList(items=[args[0]]))))
                continue
            i = z3.LastIndexOf(s, d) if last else z3.IndexOf(s, d, 0)
            before = Sym(z3.SubString(s, 0, i), "str")
            after = Sym(z3.SubString(s, i + z3.Length(d), z3.Length(s) - i - z3.Length(d)), "str")
            out.append((s2, s2.alloc(HList(items=[before, after]))))
    return out


class Prefix(LVC):
    """PrefixLoader.get_loader / get_source / load for any mapping, delimiter and name."""
    prop = "C28"
    timeout_quick = 20000

    def __init__(self, method):
        self.method = method
        self.target = f"jinja2.loaders:PrefixLoader.{method}"
        super().__init__("C28", f"C28.prefix.{method}")

    def configure(self, I):
        install_unexpected(I)
        I.specs["str.split"] = split1_spec
        I.specs["str.rsplit"] = lambda I_, st, args, kwargs, node: split1_spec(I_, st, args, kwargs, node, last=True)
        I.inline.add("jinja2.loaders:PrefixLoader.get_loader")
        if self.method != "get_loader":
            self.oc, self.res = callee_model(self.method)
            install_opaque(I, methods={self.method: abstract_loader_method(self.method, self.oc, self.res, name_index=1)})

    def setup(self, I, st):
        self.mapping = A.adict(st, "mapping", "str", "obj")
        h = st.get(self.mapping)
        self.dom, self.val = h.dom, h.val
        self.delim = sym("delimiter", "str")
        self.obj = A.obj(st, L.PrefixLoader, "self", fields={"mapping": self.mapping, "delimiter": self.delim})
        self.env = sym("environment", "obj")
        self.template = sym("template", "str")
        self.globals = sym("globals", "obj")
        t, d = self.template.t, self.delim.t
        i = z3.IndexOf(t, d, 0)
        self.before = z3.SubString(t, 0, i)
        self.after = z3.SubString(t, i + z3.Length(d), z3.Length(t) - i - z3.Length(d))
        self.found = z3.And(d != SV(""), z3.Contains(t, d), z3.Select(self.dom, self.before))
        self.inner = z3.Select(self.val, self.before)
        if self.method == "get_loader":
            return [self.obj, self.template], {}
        if self.method == "get_source":
            return [self.obj, self.env, self.template], {}
        return [self.obj, self.env, self.template, self.globals], {}

    def mapping_unchanged(self, out):
        h = out.st.get(self.mapping)
        return h.dom is self.dom and h.val is self.val

    def p_get_loader(self, pre, out):
        """(mapping[prefix], rest) for the split at the FIRST delimiter; TemplateNotFound(name) when the delimiter
        is missing or the prefix unknown"""
        if self.method != "get_loader":
            return None
        if not self.mapping_unchanged(out) or unexpected(out):
            return False
        if out.raised:
            if not tnf_named(out, self.template) or out.value.cause is None:
                return False
            return z3.Not(self.found)
        v = out.value
        if not (isinstance(v, tuple) and len(v) == 2):
            return False
        return z3.And(self.found, to_term(v[0], "obj") == self.inner, to_term(v[1], "str") == self.after)

    def p_delegate(self, pre, out):
        """found: the inner loader is called once with (environment, rest[, globals]); its result is returned, its
        TemplateNotFound is re-raised under the FULL name, any other exception passes through.
        not found: TemplateNotFound(full name) without calling any loader."""
        if self.method == "get_loader":
            return None
        if not self.mapping_unchanged(out) or unexpected(out):
            return False
        calls = A.calls(out, self.method)
        if not calls:
            if not tnf_named(out, self.template):
                return False
            return z3.Not(self.found)
        if len(calls) != 1:
            return False
        ev = calls[0]
        want_rest = [self.env] + ([None, self.globals] if self.method == "load" else [None])
        if len(ev.args) != 1 + len(want_rest) or ev.kwargs:
            return False
        if ev.args[1] is not self.env or (self.method == "load" and ev.args[3] is not self.globals):
            return False
        base = z3.And(self.found, to_term(ev.args[0], "obj") == self.inner, to_term(ev.args[2], "str") == self.after)
        oc = self.oc(self.inner, name_atom(ev.args[2]))
        if out.returned:
            return z3.And(base, oc == OUT_RETURN, to_term(out.value, "obj") == to_term(ev.result, "obj")) if out.value is ev.result else False
        e = out.value
        if getattr(e, "from_call", None):
            return z3.And(base, oc == OUT_OTHER) if e.cls is OtherError else False
        if not tnf_named(out, self.template) or out.value.cause is not ev.result:
            return False
        return z3.And(base, is_tnf_family(oc))

    posts = [("split_at_first_delimiter", p_get_loader), ("delegates_and_renames", p_delegate)]

    def concretize(self, model, pre, out):
        t, d = z3str(model, self.template.t), z3str(model, self.delim.t)
        known = model_value(model, z3.Select(self.dom, self.before)) is True
        oc = 0
        if self.method != "get_loader":
            v = model_value(model, self.oc(self.inner, name_atom(Sym(self.after, "str"))))
            oc = v if v in (0, 1, 2, 3) else OUT_OTHER
        return {"loader": "prefix", "method": self.method, "template": t, "delimiter": d, "prefix_known": known, "outcome": oc}

    def replay(self, w):
        return replay_prefix(w)


def replay_prefix(w):
    t, d, method = w["template"], w["delimiter"], w["method"]
    before, found_d, after = t.partition(d) if d else (t, "", "")
    inner = FakeLoader("inner", w.get("outcome", 0))
    decoy = FakeLoader("decoy", OUT_RETURN)
    mapping = {"<decoy>" + t: decoy}
    if w.get("prefix_known") and found_d:
        mapping[before] = inner
    found = bool(found_d) and before in mapping
    pl = L.PrefixLoader(mapping, d)
    env, g = object(), {"g": 1}
    if method == "get_loader":
        want = ("ok", (mapping[before], after)) if found else ("raise", "TemplateNotFound", t)
        got = run_native(lambda: pl.get_loader(t))
        return (got != want, f"PrefixLoader(delimiter={d!r}).get_loader({t!r}), known prefixes={[k for k in mapping if k != '<decoy>' + t]!r}: real={got!r} spec={want!r}")
    if not found:
        want, want_calls = ("raise", "TemplateNotFound", t), []
    else:
        want_calls = [(method, after, env) + ((g,) if method == "load" else ())]
        o = mapping[before].outcome
        want = {OUT_RETURN: ("ok", ("result", mapping[before].ident, method, after)), OUT_TNF: ("raise", "TemplateNotFound", t),
                OUT_TNFS: ("raise", "TemplateNotFound", t), OUT_OTHER: ("raise", "OtherError", str(mapping[before].ident))}[o]
    got = run_native((lambda: pl.get_source(env, t)) if method == "get_source" else (lambda: pl.load(env, t, g)))
    calls = inner.calls + decoy.calls
    return (got != want or calls != want_calls, f"PrefixLoader(delimiter={d!r}).{method}({t!r}), prefix known={found}, inner outcome={w.get('outcome')}: "
                                                f"real={got!r} calls={calls!r}; spec={want!r} calls={want_calls!r}")


# ----------------------------------------------------------------------------------------------
# bounded stand-ins: the dependency specs against the real library; the real loaders on a real directory tree
# ----------------------------------------------------------------------------------------------

def ref_posix_join(base, comps):
    """the dependency spec of posixpath.join used above (components without a leading "/")"""
    x = base
    for p in comps:
        x = x + p if (x == "" or x.endswith("/")) else x + "/" + p
    return x


GOOD_PIECES = {"posix": ["a", "b.html", "..a", "...", "C:", "C:x", "a\\b", "\\", "~", " "],
               "nt": ["a", "b.html", "..a", "...", "C:", "C:x", "~", " ", "aux", "a:b"]}
BASES = ["", "/", "t", "t/", "/srv/t", "/srv/t/", "./t", "../t", "C:\\t", "C:/t/", "//h/s/t"]


def bounded_deps(task, tier, seed):
    """dependency specs vs the real library functions on small inputs"""
    rs, n = [], 0
    t0 = time.time()
    depth = 3 if tier == "quick" else 4
    # posixpath.join recursion
    for pf in ("posix", "nt"):
        for base in BASES:
            for k in range(0, depth + 1):
                for comps in itertools.product(GOOD_PIECES[pf], repeat=k):
                    n += 1
                    if posixpath.join(base, *comps) != ref_posix_join(base, comps):
                        rs.append(Res(f"{task.name}.posixpath_join", "refuted", "bounded", 0, f"posixpath.join({base!r}, *{comps!r})", "bounded",
                                      {"dep": "join", "base": base, "comps": list(comps)}))
                        return rs
    # str.split("/"): N >= 1, no "/" in a segment, "/".join inverse; split(d, 1): first occurrence
    alpha = ["a", ".", "/", "\\", ":"]
    for k in range(0, 6 if tier == "quick" else 7):
        for cs in itertools.product(alpha, repeat=k):
            s = "".join(cs)
            n += 1
            segs = s.split("/")
            if not (len(segs) >= 1 and all("/" not in x for x in segs) and "/".join(segs) == s):
                rs.append(Res(f"{task.name}.str_split", "refuted", "bounded", 0, f"{s!r}.split('/')", "bounded", {"dep": "split", "s": s}))
                return rs
            for d in ("/", ":", "a.", "//"):
                got = s.split(d, 1)
                i = s.find(d)
                want = [s] if i < 0 else [s[:i], s[i + len(d):]]
                if got != want:
                    rs.append(Res(f"{task.name}.str_split1", "refuted", "bounded", 0, f"{s!r}.split({d!r}, 1)", "bounded", {"dep": "split", "s": s}))
                    return rs
    task.stats = {"cases": n}
    rs.append(Res(f"{task.name}.all", "bounded-ok", "bounded", time.time() - t0, f"{n} inputs agree with the dependency specs", "bounded"))
    return rs


def bounded_normpath(task, tier, seed):
    """PackageLoader: normpath(posixpath.join(root, *pieces)) stays lexically inside root, for the platform's own
    normpath, small roots and up to 3 (4) good pieces: it equals normpath(root) + sep + sep.join(pieces)."""
    rs, n = [], 0
    t0 = time.time()
    depth = 3 if tier == "quick" else 4
    roots = {"posix": ["/pkg/templates", "/pkg/templates/", "/pkg/./t", "/pkg/x/../t", "pkg/t", "/"],
             "nt": ["C:\\pkg\\templates", "C:\\pkg\\templates\\", "C:/pkg/t", "C:\\pkg\\x\\..\\t", "pkg\\t", "\\\\host\\share\\t"]}
    for pf in ("posix", "nt"):
        M = PATHMOD[pf]
        for root in roots[pf]:
            nr = M.normpath(root)
            for k in range(1, depth + 1):
                for comps in itertools.product(GOOD_PIECES[pf], repeat=k):
                    n += 1
                    got = M.normpath(posixpath.join(root, *comps))
                    want = (nr if nr.endswith(M.sep) else nr + M.sep) + M.sep.join(comps)
                    if got != want or not inside(pf, root, got):
                        rs.append(Res(f"{task.name}.contained", "refuted", "bounded", 0, f"{pf} normpath(join({root!r}, *{comps!r})) = {got!r}, expected {want!r}",
                                      "bounded", {"dep": "normpath", "platform": pf, "root": root, "comps": list(comps)}))
                        return rs
    task.stats = {"cases": n}
    rs.append(Res(f"{task.name}.all", "bounded-ok", "bounded", time.time() - t0, f"{n} (root, pieces) combinations stay inside the root", "bounded"))
    return rs


TREE_FRAGMENTS = ["..", ".", "", "a", "sub", "secret.txt", "t.html", "\\..", "..\\secret.txt", "C:", "~", "\uff0e\uff0e", ".\u2024", "\uff0fsecret.txt"]


def bounded_tree(task, tier, seed):
    """The real FileSystemLoader / PackageLoader / composed loaders on a real sandbox directory tree with sentinel
    files outside the search paths; every open() is observed with an audit hook; all names of up to 3 (4) segments
    over TREE_FRAGMENTS, plus absolute variants."""
    import shutil
    import sys
    import tempfile
    depth = 3 if tier == "quick" else 4
    t0 = time.time()
    top = os.path.realpath(tempfile.mkdtemp(prefix="c28tree"))
    rs, n = [], 0
    try:
        s1, s2 = os.path.join(top, "search1"), os.path.join(top, "search2")
        for d in (s1, s2, os.path.join(s1, "sub"), os.path.join(s2, "sub"), os.path.join(s1, "a")):
            os.makedirs(d, exist_ok=True)
        files = {os.path.join(top, "secret.txt"): "SECRET", os.path.join(s1, "t.html"): "s1/t", os.path.join(s2, "t.html"): "s2/t",
                 os.path.join(s2, "sub", "t.html"): "s2/sub/t", os.path.join(s1, "sub", "secret.txt"): "s1/sub/secret",
                 os.path.join(s1, "a", "t.html"): "s1/a/t", os.path.join(s2, "secret.txt"): "s2/secret"}
        for p, c in files.items():
            with open(p, "w") as f:
                f.write(c)
        opened = []
        active = [False]

        def hook(ev, args):
            if active[0] and ev == "open" and isinstance(args[0], str):
                opened.append(args[0])

        sys.addaudithook(hook)
        fsl = L.FileSystemLoader([s1, s2])
        pkg = object.__new__(L.PackageLoader)
        pkg._template_root, pkg._archive, pkg._loader, pkg.encoding, pkg.package_name, pkg.package_path = s2, None, None, "utf-8", "p", "t"
        composed = L.ChoiceLoader([L.PrefixLoader({"x": L.FileSystemLoader(s1)}), L.FileSystemLoader(s2)])

        def names():
            for k in range(1, depth + 1):
                for segs in itertools.product(TREE_FRAGMENTS, repeat=k):
                    yield "/".join(segs)
            for extra in ("/" + top + "/secret.txt", top + "/secret.txt", "//secret.txt", "x/../secret.txt", "x/t.html", "x/a/t.html", "x//t.html"):
                yield extra

        def spec(name, roots):
            pieces = split_oracle(name, "posix")
            if pieces is TemplateNotFound or not pieces:
                return None
            for r in roots:
                p = os.path.join(r, *pieces)
                if os.path.isfile(p):
                    return p
            return None

        for name in names():
            for label, loader, roots in (("fs", fsl, [s1, s2]), ("package", pkg, [s2])):
                n += 1
                del opened[:]
                active[0] = True
                try:
                    got = run_native(lambda: loader.get_source(None, name))
                finally:
                    active[0] = False
                want_path = spec(name, roots)
                want = ("ok", files[want_path]) if want_path else ("raise", "TemplateNotFound", name)
                g = ("ok", got[1][0]) if got[0] == "ok" else got
                outside = [p for p in opened if not any(os.path.realpath(p).startswith(r + os.sep) for r in roots)]
                if g != want or outside or opened != ([want_path] if want_path else []):
                    rs.append(Res(f"{task.name}.{label}", "refuted", "bounded", 0, f"{label} loader, name {name!r}: real={g!r} opened={opened!r}; spec={want!r}",
                                  "bounded", {"dep": "tree", "name": name}))
                    return rs
            # composition: prefix "x" -> search1, else search2
            n += 1
            del opened[:]
            active[0] = True
            try:
                got = run_native(lambda: composed.get_source(None, name))
            finally:
                active[0] = False
            wp = None
            if name.startswith("x/"):
                wp = spec(name[2:], [s1])
            if wp is None:
                wp = spec(name, [s2])
            want = ("ok", files[wp]) if wp else ("raise", "TemplateNotFound", name)
            g = ("ok", got[1][0]) if got[0] == "ok" else got
            outside = [p for p in opened if not any(os.path.realpath(p).startswith(r + os.sep) for r in (s1, s2))]
            if g != want or outside:
                rs.append(Res(f"{task.name}.composed", "refuted", "bounded", 0, f"Choice[Prefix{{x: fs(search1)}}, fs(search2)], name {name!r}: real={g!r} opened={opened!r}; spec={want!r}",
                              "bounded", {"dep": "tree", "name": name}))
                return rs
    finally:
        shutil.rmtree(top, ignore_errors=True)
    task.stats = {"cases": n}
    rs.append(Res(f"{task.name}.all", "bounded-ok", "bounded", time.time() - t0, f"{n} (loader, name) runs on a real directory tree: nothing outside the search paths was opened", "bounded"))
    return rs


def replay_bounded(w):
    """bounded stand-ins find their counterexamples by running the real code; re-run the named case"""
    if w.get("dep") == "join":
        got = posixpath.join(w["base"], *w["comps"])
        want = ref_posix_join(w["base"], w["comps"])
        return (got != want, f"posixpath.join: real={got!r} spec={want!r}")
    if w.get("dep") == "normpath":
        M = PATHMOD[w["platform"]]
        got = M.normpath(posixpath.join(w["root"], *w["comps"]))
        return (not inside(w["platform"], w["root"], got), f"normpath(join) = {got!r}")
    if w.get("dep") == "tree":
        t = FnTask("C28", "replay", bounded_tree, "bounded")
        rs = bounded_tree(t, "quick", 0)
        bad = [r for r in rs if r.status == "refuted"]
        return (bool(bad), bad[0].detail if bad else "sandbox run is clean")
    return (None, "no native replay")


def make_bounded(name, fn, bound):
    t = FnTask("C28", name, fn, "bounded", replay_bounded)
    t.bound_text = bound
    return t


TASKS = [
    Split("posix"), Split("nt"),
    FSGetSource("posix"), FSGetSource("nt"),
    LemmaTask("posix"), LemmaTask("nt"),
    PkgGetSource("posix", False), PkgGetSource("nt", False), PkgGetSource("posix", True), PkgGetSource("nt", True),
    Choice("get_source"), Choice("load"), ChoiceSourceless(),
    Prefix("get_loader"), Prefix("get_source"), Prefix("load"),
    make_bounded("C28.bounded.dependency_specs", bounded_deps,
                 "posixpath.join: 11 bases x up to 3 (thorough 4) pieces from 10 fragments per platform; str.split: all strings of length <= 5 (6) over {a . / \\ :}"),
    make_bounded("C28.bounded.package_normpath", bounded_normpath,
                 "6 roots per platform x 1..3 (thorough 4) good pieces from 10 fragments, posixpath.normpath and ntpath.normpath"),
    make_bounded("C28.bounded.sandbox_tree", bounded_tree,
                 "all names of 1..3 (thorough 4) segments over 14 fragments ('..', '.', '', backslash forms, drive letter, Unicode look-alikes of '..' and '/', ...) plus absolute names, "
                 "on FileSystemLoader, PackageLoader and Choice[Prefix, FileSystem] over a real directory tree with sentinel files outside"),
]

META = {
    "level": "proof",
    "explanation": "split_template_path is proved for all strings and both platform separator settings with a loop invariant over the '/'-segments "
                   "(raises TemplateNotFound iff a segment is '..' or contains a separator; otherwise returns exactly the non-empty, non-'.' segments). "
                   "FileSystemLoader.get_source and PackageLoader.get_source are executed symbolically over an abstract file system: the only path "
                   "probed/opened is posixpath.join(search path, *pieces) for the first search path that has it, TemplateNotFound iff none has it. "
                   "The lexical containment of that path (search path is a proper directory prefix, no '..'/'.'/empty component, no platform separator) "
                   "is proved by induction on the number of pieces from the dependency spec of posixpath.join (string VCs, cvc5). ChoiceLoader and "
                   "PrefixLoader are proved for any list/mapping of abstract loaders (first loader not raising TemplateNotFound; only that class is "
                   "caught; split at the first delimiter; inner TemplateNotFound re-raised under the full name). Bounded stand-ins compare the "
                   "dependency specs with the real library and run the real loaders on a sandbox directory tree.",
    "assumptions": [
        "FS-STABLE: the file system does not change during one get_source call (isfile/getmtime are functions of the path; open of an existing regular file succeeds)",
        "search paths of a FileSystemLoader are directories, not regular files",
        "lexical containment only: symlinks inside the search directories are outside the statement's reach",
        "abstract inner loaders are deterministic during one call and raise TemplateNotFound, TemplatesNotFound or some other Exception",
        "A-EQ template names / loader objects compare by identity of abstract atoms",
    ],
    "trusted_base": ["z3 5.1 / cvc5 1.0.3", "pyvc symbolic executor", "dependency specs: str.split, posixpath.join, os.path.normpath (checked on small inputs by bounded stand-ins), "
                     "os.path.isfile/getmtime, open/read, zipimporter.get_data"],
}
